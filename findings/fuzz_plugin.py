"""Triage / discovery tool (NOT a registered check, not static): random proto3 schemas are validated with
google.protobuf's DescriptorPool, pushed through the betterproto plugin in-process (ruff stubbed out) under every
option combination, the output is imported, its class metadata compared with the descriptors (C03, C13, C18), and
random values are exchanged with google.protobuf in binary and JSON form (C01/C02/C04/C05 on generated code).
Candidates are then confirmed by reading the code, turned into static rules and repaired or recorded.

usage: fuzz_plugin.py [n-schemas] [seed]"""
import importlib, json, math, os, random, shutil, struct, sys, tempfile, traceback

sys.path.insert(0, os.environ.get("REPO_SRC", "/repo/src"))
from google.protobuf import descriptor_pb2 as dp, descriptor_pool, message_factory, json_format
from google.protobuf import timestamp_pb2, duration_pb2, wrappers_pb2, empty_pb2
from google.protobuf.compiler import plugin_pb2

import betterproto
from betterproto.lib.google.protobuf.compiler import CodeGeneratorRequest
from betterproto.plugin import compiler as plugin_compiler
from betterproto.plugin.models import monkey_patch_oneof_index
from betterproto.plugin.parser import generate_code
from betterproto.compile.naming import pythonize_class_name, pythonize_field_name, pythonize_method_name

monkey_patch_oneof_index()
plugin_compiler.subprocess.check_output = lambda cmd, input, encoding: input
_stderr = sys.stderr

FD = dp.FieldDescriptorProto
SCALARS = {"int32": FD.TYPE_INT32, "int64": FD.TYPE_INT64, "uint32": FD.TYPE_UINT32, "uint64": FD.TYPE_UINT64, "sint32": FD.TYPE_SINT32,
           "sint64": FD.TYPE_SINT64, "fixed32": FD.TYPE_FIXED32, "fixed64": FD.TYPE_FIXED64, "sfixed32": FD.TYPE_SFIXED32, "sfixed64": FD.TYPE_SFIXED64,
           "bool": FD.TYPE_BOOL, "string": FD.TYPE_STRING, "bytes": FD.TYPE_BYTES, "float": FD.TYPE_FLOAT, "double": FD.TYPE_DOUBLE}
TYPE_NAME = {v: k for k, v in SCALARS.items()}
TYPE_NAME[FD.TYPE_ENUM] = "enum"
TYPE_NAME[FD.TYPE_MESSAGE] = "message"
KEY_KINDS = ["int32", "int64", "uint32", "uint64", "sint32", "sint64", "fixed32", "fixed64", "sfixed32", "sfixed64", "bool", "string"]
WKT = {".google.protobuf.Timestamp": "google/protobuf/timestamp.proto", ".google.protobuf.Duration": "google/protobuf/duration.proto",
       ".google.protobuf.Empty": "google/protobuf/empty.proto"}
WRAPPERS = {"DoubleValue": "double", "FloatValue": "float", "Int64Value": "int64", "UInt64Value": "uint64", "Int32Value": "int32", "UInt32Value": "uint32",
            "BoolValue": "bool", "StringValue": "string", "BytesValue": "bytes"}
for w in WRAPPERS:
    WKT[f".google.protobuf.{w}"] = "google/protobuf/wrappers.proto"
WKT_FILES = {"google/protobuf/timestamp.proto": timestamp_pb2, "google/protobuf/duration.proto": duration_pb2,
             "google/protobuf/wrappers.proto": wrappers_pb2, "google/protobuf/empty.proto": empty_pb2}

# names that collide with the Message API / generated-module globals are only used when HOSTILE=1 (separate triage)
HOSTILE = bool(os.environ.get("HOSTILE"))
API_FIELD_NAMES = ["datetime", "timedelta", "field", "dataclass", "betterproto", "typing", "Optional", "List", "Dict", "parse", "to_dict", "from_dict",
                   "to_json", "is_set", "dump", "load", "from_json", "to_pydict", "builtins"]
API_TYPE_NAMES = ["List", "Optional", "Dict", "Message", "Enum", "Field", "Any", "datetime", "Type", "none"]
FIELD_NAMES = ["value", "name", "id", "type", "class", "from", "in", "is", "not", "None", "True", "import", "global", "lambda", "list", "str", "bytes", "int", "float",
               "bool", "dict", "set", "len", "print", "self", "cls", "address_line_1", "ipv4_address", "x_y_z", "HTTPStatus", "fooBar", "foo_bar", "Foo", "camelCaseName",
               "snake_case_name", "with_1_number", "n1", "a", "b2b", "sha256sum", "trailing_", "double__under", "UPPER", "UPPER_SNAKE", "mixed_Case", "async", "await",
               "match", "case", "keys", "values", "items", "get", "copy"] + (API_FIELD_NAMES if HOSTILE else [])
TYPE_NAMES = ["Msg", "Outer", "Inner", "Item", "Value", "Data", "HTTPStatus", "Event", "Node", "Tree", "Req", "Resp",
              "Timestamp", "Duration", "Empty", "Struct", "X", "Y1", "Camel_Snake"] + (API_TYPE_NAMES + ["lower_name", "a_b"] if HOSTILE else [])
# STYLE=1: only names for which the (by design lossy) JSON-name / enum-prefix mappings are exact, to look past those known limitations
STYLE = bool(os.environ.get("STYLE"))
if STYLE:
    FIELD_NAMES = [n for n in FIELD_NAMES if n == n.lower() and "__" not in n and not n.endswith("_") and n not in ("sha256sum", "b2b", "n1")]
ENUM_COUNTER = [0]
ENUM_MEMBER = ["UNKNOWN", "UNSPECIFIED", "ZERO", "ONE", "TWO", "NEG", "None", "True", "class", "A", "B_C", "lower", "X1"] + (["value", "name", "mro"] if os.environ.get("HOSTILE") else [])
PACKAGES = ["", "a", "a.b", "a.b.c", "a.c", "d", "d.e", "import_", "a.type"]
METHOD_NAMES = ["Get", "List", "Watch", "DoThing", "do_thing", "GetHTTPStatus", "Put1", "from", "class", "None", "X"]


class Gen:
    def __init__(self, rnd):
        self.R = rnd
        self.types = []     # (full_name with leading dot, kind 'message'|'enum', file name)
        self.in_map_value = False

    def pick(self, xs):
        return self.R.choice(xs)

    def names(self, pool, n, key=lambda x: x):
        out = []
        for _ in range(n):
            c = [x for x in pool if key(x) not in [key(o) for o in out]]
            if not c:
                break
            out.append(self.pick(c))
        return out

    def enum(self, name):
        e = dp.EnumDescriptorProto(name=name)
        members = self.names(ENUM_MEMBER, self.R.randint(1, 5))
        # proto3: first value must be 0; enum value names are scoped to the enclosing scope (C++ rules): prefix to keep them unique
        nums = [0] + [self.pick([1, 2, 3, -1, -5, 100, 2147483647, -2147483648, 7]) for _ in members[1:]]
        if len(set(nums)) != len(nums):
            if self.R.random() < 0.5:
                e.options.allow_alias = True
            else:
                seen = set()
                keep = []
                for m, n in zip(members, nums):
                    if n not in seen:
                        seen.add(n)
                        keep.append((m, n))
                members, nums = [k[0] for k in keep], [k[1] for k in keep]
        style = self.R.random()
        if STYLE:
            style = 2.0
        for m, n in zip(members, nums):
            if style > 1.5:
                ENUM_COUNTER[0] += 1
                e.value.add(name=f"{m.upper()}{ENUM_COUNTER[0]}", number=n)
                continue
            if style < 0.4:
                mn = f"{name.upper()}_{m}"
            elif style < 0.7:
                mn = f"{name}_{m}"
            else:
                mn = f"{m}_{name}_{self.R.randint(0, 9)}"
            e.value.add(name=mn, number=n)
        return e

    def message(self, name, scope, fname, depth=0):
        m = dp.DescriptorProto(name=name)
        full = f"{scope}.{name}"
        self.types.append((full, "message", fname))
        if depth < 2:
            for nn in self.names(TYPE_NAMES, self.R.choice([0, 0, 1, 2])):
                if self.R.random() < 0.4:
                    m.enum_type.append(self.enum(nn))
                    self.types.append((f"{full}.{nn}", "enum", fname))
                else:
                    m.nested_type.append(self.message(nn, full, fname, depth + 1))
        return m

    def fill_fields(self, m, full, fname, files):
        """second pass: fields may refer to any type generated so far"""
        R = self.R
        nfields = R.randint(0, 7)
        names = self.names(FIELD_NAMES, nfields, key=pythonize_field_name)
        numbers = R.sample([1, 2, 3, 4, 5, 15, 16, 17, 100, 2047, 2048, 18999, 20000, 536870911], len(names))
        real_oneofs = []
        synth = []
        deps = set()

        def set_type(f, allow_msg=True):
            k = R.random()
            if k < 0.5 or not self.types:
                f.type = SCALARS[self.pick(list(SCALARS))]
            elif k < 0.85:
                cands = [t for t in self.types if allow_msg or t[1] == "enum"]
                if not cands:
                    f.type = FD.TYPE_INT32
                    return
                t = self.pick(cands)
                f.type = FD.TYPE_ENUM if t[1] == "enum" else FD.TYPE_MESSAGE
                f.type_name = t[0]
                if t[2] != fname:
                    deps.add(t[2])
            elif allow_msg:
                tn = self.pick([t for t in WKT if self.in_map_value is False or os.environ.get("WRAPMAP") or t.rsplit(".", 1)[1] not in WRAPPERS])
                f.type = FD.TYPE_MESSAGE
                f.type_name = tn
                deps.add(WKT[tn])
            else:
                f.type = FD.TYPE_STRING

        for fn, num in zip(names, numbers):
            shape = self.pick(["singular", "singular", "repeated", "optional", "oneof", "map"])
            if shape == "map":
                entry_name = "".join(p.capitalize() for p in fn.split("_")) + "Entry"
                # protoc derives the entry name from the camel-cased field name; avoid clashes with nested types
                if any(n.name == entry_name for n in m.nested_type):
                    shape = "singular"
                else:
                    entry = m.nested_type.add(name=entry_name)
                    entry.options.map_entry = True
                    entry.field.add(name="key", number=1, type=SCALARS[self.pick(KEY_KINDS)], label=FD.LABEL_OPTIONAL, json_name="key")
                    v = entry.field.add(name="value", number=2, label=FD.LABEL_OPTIONAL, json_name="value")
                    self.in_map_value = True
                    set_type(v)
                    self.in_map_value = False
                    m.field.add(name=fn, number=num, type=FD.TYPE_MESSAGE, type_name=f"{full}.{entry_name}", label=FD.LABEL_REPEATED)
                    continue
            f = m.field.add(name=fn, number=num, label=FD.LABEL_OPTIONAL)
            set_type(f)
            if shape == "repeated":
                f.label = FD.LABEL_REPEATED
            elif shape == "optional":
                f.proto3_optional = True
                synth.append(f)
            elif shape == "oneof":
                if not real_oneofs or R.random() < 0.3:
                    real_oneofs.append(self.pick(["kind", "choice", "value_type", "type", "oneof_", "Body"]) + str(len(real_oneofs)))
                f.oneof_index = R.randrange(len(real_oneofs))
        for o in real_oneofs:
            m.oneof_decl.add(name=o)
        used = {f.oneof_index for f in m.field if f.HasField("oneof_index") and not f.proto3_optional}
        # drop empty real oneofs (a oneof needs at least one member)
        if len(used) != len(real_oneofs):
            remap = {old: new for new, old in enumerate(sorted(used))}
            keep = [real_oneofs[i] for i in sorted(used)]
            del m.oneof_decl[:]
            for o in keep:
                m.oneof_decl.add(name=o)
            for f in m.field:
                if f.HasField("oneof_index") and not f.proto3_optional:
                    f.oneof_index = remap[f.oneof_index]
        for f in synth:
            m.oneof_decl.add(name=f"_{f.name}")
            f.oneof_index = len(m.oneof_decl) - 1
        return deps


def build_schema(rnd):
    g = Gen(rnd)
    nfiles = rnd.randint(1, 3)
    pkgs = [rnd.choice(PACKAGES) for _ in range(nfiles)]
    files = []
    for i, pkg in enumerate(pkgs):
        fname = f"f{i}_{pkg.replace('.', '_') or 'root'}.proto"
        fp = dp.FileDescriptorProto(name=fname, package=pkg, syntax="proto3")
        scope = f".{pkg}" if pkg else ""
        taken = {t[0] for t in g.types}
        for nn in g.names(TYPE_NAMES, rnd.randint(1, 3)):
            if f"{scope}.{nn}" in taken:
                continue
            if rnd.random() < 0.25:
                fp.enum_type.append(g.enum(nn))
                g.types.append((f"{scope}.{nn}", "enum", fname))
            else:
                fp.message_type.append(g.message(nn, scope, fname))
        files.append(fp)
    # second pass: fields (may reference later files -> circular package references are legal as long as files are acyclic:
    # only allow references to types in files with a smaller index, or in the same file)
    for i, fp in enumerate(files):
        visible = [t for t in g.types if int(t[2][1:t[2].index("_")]) <= i]
        saved, g.types = g.types, visible
        scope = f".{fp.package}" if fp.package else ""

        def rec(m, full):
            deps = g.fill_fields(m, full, fp.name, files)
            for d in deps:
                if d not in fp.dependency:
                    fp.dependency.append(d)
            for n in m.nested_type:
                if not n.options.map_entry:
                    rec(n, f"{full}.{n.name}")
        for m in fp.message_type:
            rec(m, f"{scope}.{m.name}")
        # services
        msgs = [t for t in g.types if t[1] == "message"]
        if msgs and rnd.random() < 0.5:
            svc = fp.service.add(name=rnd.choice(["Svc", "Feed", "HTTPService", "lower_svc", "Test"]))
            for mn in g.names(METHOD_NAMES, rnd.randint(1, 4), key=pythonize_method_name):
                a, b = rnd.choice(msgs + [(k, "message", WKT[k]) for k in (".google.protobuf.Empty", ".google.protobuf.Timestamp")]), rnd.choice(msgs)
                meth = svc.method.add(name=mn, input_type=a[0], output_type=b[0], client_streaming=rnd.random() < 0.4, server_streaming=rnd.random() < 0.4)
                for t in (a, b):
                    if t[2] != fp.name and t[2] not in fp.dependency:
                        fp.dependency.append(t[2])
        g.types = saved
    return files


def validate(files):
    pool = descriptor_pool.DescriptorPool()
    for mod in WKT_FILES.values():
        pool.AddSerializedFile(mod.DESCRIPTOR.serialized_pb)
    for fp in files:
        pool.AddSerializedFile(fp.SerializeToString())
    for fp in files:
        pool.FindFileByName(fp.name)
    return pool


def run_plugin(files, param):
    req = plugin_pb2.CodeGeneratorRequest(parameter=param)
    needed = {d for fp in files for d in fp.dependency if d in WKT_FILES}
    for d in sorted(needed):
        wf = dp.FileDescriptorProto()
        wf.ParseFromString(WKT_FILES[d].DESCRIPTOR.serialized_pb)
        req.proto_file.append(wf)
    for fp in files:
        req.proto_file.append(fp)
        req.file_to_generate.append(fp.name)
    sys.stderr = open(os.devnull, "w")
    try:
        return generate_code(CodeGeneratorRequest().parse(req.SerializeToString()))
    finally:
        sys.stderr.close()
        sys.stderr = _stderr


COUNTER = [0]


def import_output(resp, tmp):
    COUNTER[0] += 1
    root = f"gen{COUNTER[0]}"
    base = os.path.join(tmp, root)
    os.makedirs(base, exist_ok=True)
    for f in resp.file:
        p = os.path.join(base, f.name)
        os.makedirs(os.path.dirname(p), exist_ok=True)
        with open(p, "w") as fh:
            fh.write(f.content or "")
    if not os.path.exists(os.path.join(base, "__init__.py")):
        open(os.path.join(base, "__init__.py"), "w").close()
    # every directory is a package
    for d, _, fs in os.walk(base):
        if "__init__.py" not in fs:
            open(os.path.join(d, "__init__.py"), "w").close()
    if tmp not in sys.path:
        sys.path.insert(0, tmp)
    importlib.invalidate_caches()
    mods = {}
    for f in resp.file:
        if f.name.endswith("__init__.py"):
            rel = os.path.dirname(f.name).replace(os.sep, ".")
            name = root + ("." + rel if rel else "")
            mods[rel] = importlib.import_module(name)
    return root, mods


def class_name(path):
    return pythonize_class_name("_" + "_".join(path))


def walk_types(fp):
    def rec(m, path):
        yield "message", m, path
        for e in m.enum_type:
            yield "enum", e, path + [e.name]
        for n in m.nested_type:
            if not n.options.map_entry:
                yield from rec(n, path + [n.name])
    for e in fp.enum_type:
        yield "enum", e, [e.name]
    for m in fp.message_type:
        yield from rec(m, [m.name])


PYDANTIC = [False]


def resolve_class(mods, files, type_name):
    """generated class for a fully qualified proto type name"""
    if type_name.startswith(".google.protobuf."):
        if PYDANTIC[0]:
            import betterproto.lib.pydantic.google.protobuf as g
        else:
            import betterproto.lib.google.protobuf as g
        return getattr(g, type_name.rsplit(".", 1)[1])
    best = None
    for fp in files:
        scope = f".{fp.package}" if fp.package else ""
        for kind, obj, path in walk_types(fp):
            if f"{scope}.{'.'.join(path)}" == type_name:
                best = (fp.package, class_name(path))
    if best is None:
        return None
    return getattr(mods[best[0]], best[1], None)


def check_metadata(files, mods, note, param):
    for fp in files:
        mod = mods.get(fp.package)
        if mod is None:
            note("C03 no module for package", f"{fp.package!r}")
            continue
        seen_names = {}
        for kind, obj, path in walk_types(fp):
            cn = class_name(path)
            if cn in seen_names and seen_names[cn] != path:
                note("C03 two schema types map to one class name", f"{'.'.join(seen_names[cn])} and {'.'.join(path)} -> {cn}")
                continue
            seen_names[cn] = path
            cls = getattr(mod, cn, None)
            if cls is None:
                note("C03 class missing for schema type", f"{fp.package}:{'.'.join(path)} -> {cn}")
                continue
            if kind == "enum":
                if not (isinstance(cls, type) and issubclass(cls, betterproto.Enum)):
                    note("C03 enum not generated as betterproto.Enum", f"{cn}")
                    continue
                got = sorted(int(v) for v in cls.__members__.values())
                want = sorted(v.number for v in obj.value)
                # aliases: python Enum keeps aliases in __members__
                if got != want:
                    note("C03 enum numbers differ", f"{cn}: {got} vs {want}")
                continue
            if not (isinstance(cls, type) and issubclass(cls, betterproto.Message)):
                note("C03 message not generated as betterproto.Message", f"{cn}")
                continue
            try:
                meta = cls._betterproto
            except Exception as ex:
                note("C18 class metadata cannot be built", f"[{param}] {cn}: {type(ex).__name__}: {str(ex)[:120]}")
                continue
            by_num = {}
            for fname_, fm in meta.meta_by_field_name.items():
                by_num.setdefault(fm.number, []).append((fname_, fm))
            if len(meta.meta_by_field_name) != len(obj.field):
                note("C03 field count differs", f"{cn}: {sorted(meta.meta_by_field_name)} vs {[f.name for f in obj.field]}")
            for f in obj.field:
                c = by_num.get(f.number, [])
                if len(c) != 1:
                    note("C03 field number missing or duplicated", f"{cn}.{f.name} #{f.number}: {[x[0] for x in c]}")
                    continue
                pyname, fm = c[0]
                entry = None
                if f.type == FD.TYPE_MESSAGE and f.label == FD.LABEL_REPEATED:
                    for n in obj.nested_type:
                        if n.options.map_entry and f.type_name.endswith("." + n.name) and f.type_name.count(".") and f.type_name.rsplit(".", 1)[0].endswith(path[-1]):
                            entry = n
                if entry is not None:
                    want_t = "map"
                else:
                    want_t = TYPE_NAME[f.type]
                if fm.proto_type != want_t:
                    note("C03 proto type differs", f"{cn}.{f.name}: {fm.proto_type} vs {want_t}")
                if entry is not None:
                    k, v = entry.field[0], entry.field[1]
                    if tuple(fm.map_types or ()) != (TYPE_NAME[k.type], TYPE_NAME[v.type]):
                        note("C03 map types differ", f"{cn}.{f.name}: {fm.map_types} vs {(TYPE_NAME[k.type], TYPE_NAME[v.type])}")
                    if v.type in (FD.TYPE_MESSAGE, FD.TYPE_ENUM):
                        want_cls = resolve_class(mods, files, v.type_name)
                        try:
                            got_cls = meta.cls_by_field[f"{pyname}.value"]
                        except Exception as ex:
                            note("C13 map value class cannot be resolved", f"[{param}] {cn}.{f.name}: {type(ex).__name__}: {str(ex)[:100]}")
                            continue
                        if v.type_name == ".google.protobuf.Timestamp":
                            from datetime import datetime
                            want_cls = datetime
                        if v.type_name == ".google.protobuf.Duration":
                            from datetime import timedelta
                            want_cls = timedelta
                        if v.type_name.rsplit(".", 1)[1] in WRAPPERS and v.type_name.startswith(".google.protobuf."):
                            pass
                        elif got_cls is not want_cls:
                            note("C13 map value resolves to the wrong class", f"[{param}] {cn}.{f.name}: {got_cls} vs {want_cls}")
                    continue
                repeated = meta.default_gen[pyname] is list
                if repeated != (f.label == FD.LABEL_REPEATED):
                    note("C03 cardinality differs", f"{cn}.{f.name}: repeated={repeated}")
                if bool(fm.optional) != bool(f.proto3_optional) and "pydantic" not in param:
                    note("C03 optional flag differs", f"{cn}.{f.name}: {fm.optional}")
                in_real_oneof = f.HasField("oneof_index") and not f.proto3_optional
                want_group = obj.oneof_decl[f.oneof_index].name if in_real_oneof else None
                if fm.group != want_group:
                    note("C03 oneof group differs", f"{cn}.{f.name}: {fm.group!r} vs {want_group!r}")
                if f.type == FD.TYPE_MESSAGE and f.type_name.startswith(".google.protobuf.") and f.type_name.rsplit(".", 1)[1] in WRAPPERS:
                    if fm.wraps != WRAPPERS[f.type_name.rsplit(".", 1)[1]]:
                        note("C03 wrapper mapping differs", f"{cn}.{f.name}: {fm.wraps}")
                elif fm.wraps:
                    note("C03 wrapper mapping differs", f"{cn}.{f.name}: wraps={fm.wraps} for {f.type_name}")
                if f.type in (FD.TYPE_MESSAGE, FD.TYPE_ENUM) and not fm.wraps:
                    try:
                        got_cls = meta.cls_by_field[pyname]
                    except Exception as ex:
                        note("C13 field class cannot be resolved", f"[{param}] {cn}.{f.name} -> {f.type_name}: {type(ex).__name__}: {str(ex)[:100]}")
                        continue
                    want_cls = resolve_class(mods, files, f.type_name)
                    if f.type_name == ".google.protobuf.Timestamp":
                        from datetime import datetime
                        want_cls = datetime
                    if f.type_name == ".google.protobuf.Duration":
                        from datetime import timedelta
                        want_cls = timedelta
                    if got_cls is not want_cls:
                        note("C13 field resolves to the wrong class", f"[{param}] {cn}.{f.name} -> {f.type_name}: {got_cls} vs {want_cls}")


def check_services(files, mods, note, param):
    import grpclib.const
    for fp in files:
        mod = mods.get(fp.package)
        for svc in fp.service:
            base_name = pythonize_class_name(svc.name) + "Base"
            stub_name = pythonize_class_name(svc.name) + "Stub"
            base, stub = getattr(mod, base_name, None), getattr(mod, stub_name, None)
            if base is None or stub is None:
                note("C11 stub or base class missing", f"{svc.name}: {base_name} {stub_name}")
                continue
            try:
                mapping = base().__mapping__()
            except Exception as ex:
                note("C11 server base mapping cannot be built", f"[{param}] {svc.name}: {type(ex).__name__}: {str(ex)[:120]}")
                continue
            want_routes = {f"/{fp.package + '.' if fp.package else ''}{svc.name}/{m.name}": m for m in svc.method}
            if set(mapping) != set(want_routes):
                note("C11 server routes differ", f"{svc.name}: {sorted(mapping)} vs {sorted(want_routes)}")
            for route, m in want_routes.items():
                h = mapping.get(route)
                if h is None:
                    continue
                card = {(False, False): grpclib.const.Cardinality.UNARY_UNARY, (False, True): grpclib.const.Cardinality.UNARY_STREAM,
                        (True, False): grpclib.const.Cardinality.STREAM_UNARY, (True, True): grpclib.const.Cardinality.STREAM_STREAM}[(m.client_streaming, m.server_streaming)]
                if h.cardinality != card:
                    note("C11 server cardinality differs", f"{route}: {h.cardinality} vs {card}")
                if h.request_type is not resolve_class(mods, files, m.input_type) or h.reply_type is not resolve_class(mods, files, m.output_type):
                    note("C11/C13 server request/reply type differs", f"[{param}] {route}: {h.request_type} / {h.reply_type}")
            # stub side: capture the route and response type of each call
            calls = []

            class Chan:
                pass
            s = stub(Chan())
            import asyncio

            async def cap_uu(route, request, response_type, **kw):
                calls.append((route, "uu", response_type)); return None

            async def cap_su(route, it, request_type, response_type, **kw):
                calls.append((route, "su", response_type, request_type)); return None

            async def cap_us(route, request, response_type, **kw):
                calls.append((route, "us", response_type))
                if False:
                    yield None

            async def cap_ss(route, it, request_type, response_type, **kw):
                calls.append((route, "ss", response_type, request_type))
                if False:
                    yield None
            s._unary_unary, s._stream_unary, s._unary_stream, s._stream_stream = cap_uu, cap_su, cap_us, cap_ss
            for m in svc.method:
                py = pythonize_method_name(m.name)
                fn = getattr(s, py, None)
                if fn is None:
                    note("C11 stub method missing", f"{svc.name}.{m.name} -> {py}")
                    continue
                n0 = len(calls)
                try:
                    arg = resolve_class(mods, files, m.input_type)()
                    if m.client_streaming:
                        arg = [arg]
                    r = fn(arg)
                    if m.server_streaming:
                        async def drain(r=r):
                            async for _ in r:
                                pass
                        asyncio.run(drain())
                    else:
                        asyncio.run(r)
                except Exception as ex:
                    note("C11 stub call raises", f"[{param}] {svc.name}.{m.name}: {type(ex).__name__}: {str(ex)[:120]}")
                    continue
                if len(calls) != n0 + 1:
                    note("C11 stub call count", f"{svc.name}.{m.name}: {len(calls) - n0}")
                    continue
                c = calls[-1]
                want_route = f"/{fp.package + '.' if fp.package else ''}{svc.name}/{m.name}"
                want_kind = {(False, False): "uu", (False, True): "us", (True, False): "su", (True, True): "ss"}[(m.client_streaming, m.server_streaming)]
                if c[0] != want_route or c[1] != want_kind:
                    note("C11 stub route/cardinality differs", f"{svc.name}.{m.name}: {c[:2]} vs {(want_route, want_kind)}")
                if c[2] is not resolve_class(mods, files, m.output_type):
                    note("C11/C13 stub response type differs", f"[{param}] {svc.name}.{m.name}: {c[2]}")
                if len(c) > 3 and c[3] is not resolve_class(mods, files, m.input_type):
                    note("C11/C13 stub request type differs", f"[{param}] {svc.name}.{m.name}: {c[3]}")


def f32(x):
    return struct.unpack("<f", struct.pack("<f", x))[0]


def fill(R, msg, depth=0):
    from google.protobuf.descriptor import FieldDescriptor as F
    d = msg.DESCRIPTOR
    # (the zero Timestamp / Duration of a plain singular field cannot carry presence in betterproto's datetime / timedelta
    #  representation - a documented design limit; ZERO_WKT=1 includes it)
    zero = [0] if os.environ.get("ZERO_WKT") else []
    if d.full_name == "google.protobuf.Timestamp":
        msg.seconds = R.choice(zero + [1, -1, 1580000000, 253402300799, -62135596800]); msg.nanos = R.choice([0, 1000, 999999000]); return
    if d.full_name == "google.protobuf.Duration":
        s = R.choice(zero + [3, -3, 86400 * 1000]); msg.seconds = s
        n = R.choice([0, 500000, 999999000]); msg.nanos = -n if s < 0 else n; return
    oneof_done = set()
    for f in d.fields:
        if R.random() < 0.45:
            continue
        if f.containing_oneof is not None and not getattr(f, "has_presence", True) is False:
            if f.containing_oneof.name in oneof_done:
                continue
            oneof_done.add(f.containing_oneof.name)

        def val(fd):
            t = fd.type
            if t in (F.TYPE_INT32, F.TYPE_SINT32, F.TYPE_SFIXED32):
                return R.choice([0, 1, -1, 2**31 - 1, -2**31, R.randint(-2**31, 2**31 - 1)])
            if t in (F.TYPE_INT64, F.TYPE_SINT64, F.TYPE_SFIXED64):
                return R.choice([0, 1, -1, 2**63 - 1, -2**63, 2**53 + 1])
            if t in (F.TYPE_UINT32, F.TYPE_FIXED32):
                return R.choice([0, 1, 2**32 - 1])
            if t in (F.TYPE_UINT64, F.TYPE_FIXED64):
                return R.choice([0, 1, 2**64 - 1, 2**63])
            if t == F.TYPE_BOOL:
                return R.choice([True, False])
            if t == F.TYPE_STRING:
                return R.choice(["", "a", "héllo ☃"])
            if t == F.TYPE_BYTES:
                return R.choice([b"", b"\x00\xff"])
            if t == F.TYPE_FLOAT:
                return R.choice([0.0, 1.5, -2.25, math.inf, f32(1e-3)])
            if t == F.TYPE_DOUBLE:
                return R.choice([0.0, 1.5, -math.inf, 0.1])
            if t == F.TYPE_ENUM:
                return R.choice([v.number for v in fd.enum_type.values])
            raise KeyError(t)
        is_map = f.message_type is not None and f.message_type.GetOptions().map_entry
        if is_map:
            kf, vf = f.message_type.fields_by_name["key"], f.message_type.fields_by_name["value"]
            for _ in range(R.randint(0, 2)):
                k = val(kf)
                if vf.type == F.TYPE_MESSAGE:
                    if depth < 3:
                        fill(R, getattr(msg, f.name)[k], depth + 1)
                else:
                    getattr(msg, f.name)[k] = val(vf)
        elif (f.is_repeated if hasattr(f, "is_repeated") else f.label == F.LABEL_REPEATED):
            for _ in range(R.randint(0, 3)):
                if f.type == F.TYPE_MESSAGE:
                    if depth < 3:
                        fill(R, getattr(msg, f.name).add(), depth + 1)
                else:
                    getattr(msg, f.name).append(val(f))
        elif f.type == F.TYPE_MESSAGE:
            if depth < 3:
                sub = getattr(msg, f.name)
                sub.SetInParent()
                fill(R, sub, depth + 1)
        else:
            setattr(msg, f.name, val(f))


def check_values(R, pool, files, mods, note, param):
    for fp in files:
        scope = f"{fp.package}." if fp.package else ""
        for kind, obj, path in walk_types(fp):
            if kind != "message":
                continue
            full = scope + ".".join(path)
            cls = getattr(mods.get(fp.package), class_name(path), None)
            if cls is None:
                continue
            Ref = message_factory.GetMessageClass(pool.FindMessageTypeByName(full))
            for _ in range(4):
                ref = Ref()
                fill(R, ref)
                data = ref.SerializeToString(deterministic=True)
                try:
                    m = cls().parse(data)
                    out = bytes(m)
                    if Ref.FromString(out) != ref:
                        note("C02 generated class re-encodes reference bytes differently", f"[{param}] {full}: {data.hex()[:80]}")
                    if len(m) != len(out):
                        note("C09 len on generated class", f"[{param}] {full}")
                except Exception as ex:
                    note("C02 generated class cannot decode/encode reference bytes", f"[{param}] {full}: {type(ex).__name__}: {str(ex)[:100]} {data.hex()[:60]}")
                    continue
                try:
                    text = json_format.MessageToJson(ref)
                except Exception:
                    continue
                try:
                    b = cls().from_json(text)
                    if Ref.FromString(bytes(b)) != ref:
                        note("C05 generated class reads reference JSON differently", f"[{param}] {full}: {text[:200]!r}")
                except Exception as ex:
                    note("C05 generated class rejects reference JSON", f"[{param}] {full}: {type(ex).__name__}: {str(ex)[:100]} {text[:160]!r}")
                try:
                    t2 = m.to_json()
                    r2 = json_format.Parse(t2, Ref())
                    if r2 != ref:
                        note("C05 reference reads generated class JSON differently", f"[{param}] {full}: {t2[:200]!r}")
                    for casing in (betterproto.Casing.CAMEL, betterproto.Casing.SNAKE):
                        b3 = cls().from_dict(m.to_dict(casing=casing))
                        if Ref.FromString(bytes(b3)) != ref:
                            note("C04/C19 dict round trip on generated class differs", f"[{param}] {full} {getattr(casing, "__name__", casing)}: {json.dumps(m.to_dict(casing=casing))[:200]} data={data.hex()}")
                except Exception as ex:
                    tb = traceback.extract_tb(ex.__traceback__)
                    where = "; ".join(f"{os.path.basename(t.filename)}:{t.lineno}" for t in tb[-3:])
                    note("C05 JSON of generated class fails", f"[{param}] {full}: {type(ex).__name__}: {str(ex)[:100]} @ {where} data={data.hex()[:60]}")


def signature(files, mods):
    """configuration-independent description of the generated classes"""
    sig = {}
    for fp in files:
        mod = mods.get(fp.package)
        for kind, obj, path in walk_types(fp):
            cls = getattr(mod, class_name(path), None)
            key = f"{fp.package}:{'.'.join(path)}"
            if cls is None:
                sig[key] = None
            elif kind == "enum":
                sig[key] = sorted((n, int(v)) for n, v in cls.__members__.items())
            else:
                try:
                    sig[key] = sorted((n, fm.number, fm.proto_type, tuple(fm.map_types or ()), fm.group, fm.wraps) for n, fm in cls._betterproto.meta_by_field_name.items())
                except Exception:
                    sig[key] = "unbuildable"
    return sig


OPTIONS = ["", "typing.root", "typing.310", "pydantic_dataclasses", "pydantic_dataclasses,typing.root", "pydantic_dataclasses,typing.310"]


def main():
    n = int(sys.argv[1]) if len(sys.argv) > 1 else 50
    seed = int(sys.argv[2]) if len(sys.argv) > 2 else 1
    R = random.Random(seed)
    bad = {}
    schemas = {}

    def mk_note(idx):
        def note(kind, detail=""):
            bad.setdefault(kind, [])
            if len(bad[kind]) < 6 and detail not in [d for _, d in bad[kind]]:
                bad[kind].append((idx, detail))
        return note
    tmp = tempfile.mkdtemp(prefix="vtplug_")
    valid = 0
    try:
        for i in range(n):
            files = build_schema(R)
            try:
                pool = validate(files)
            except Exception as ex:
                continue
            valid += 1
            note = mk_note(i)
            schemas[i] = files
            sigs = {}
            for param in OPTIONS:
                try:
                    resp = run_plugin([dp.FileDescriptorProto.FromString(f.SerializeToString()) for f in files], param)
                except Exception as ex:
                    tb = traceback.extract_tb(ex.__traceback__)[-1]
                    note("C03 plugin raises on a valid schema", f"[{param}] {type(ex).__name__}: {str(ex)[:120]} at {os.path.basename(tb.filename)}:{tb.lineno}")
                    continue
                try:
                    for f in resp.file:
                        if f.content:
                            compile(f.content, f.name, "exec")
                except SyntaxError as ex:
                    note("C18 generated code has a syntax error", f"[{param}] {ex.msg}: {(ex.text or '').strip()[:100]}")
                    continue
                try:
                    root, mods = import_output(resp, tmp)
                except Exception as ex:
                    tb = traceback.extract_tb(ex.__traceback__)[-1]
                    note("C18 generated package does not import", f"[{param}] {type(ex).__name__}: {str(ex)[:140]} ({tb.line})")
                    continue
                PYDANTIC[0] = "pydantic" in param
                try:
                    check_metadata(files, mods, note, param)
                    check_services(files, mods, note, param)
                    check_values(R, pool, files, mods, note, param)
                    sigs[param] = signature(files, mods)
                except Exception as ex:
                    tb = traceback.extract_tb(ex.__traceback__)[-1]
                    note("fuzzer error", f"[{param}] {type(ex).__name__}: {str(ex)[:140]} at {tb.lineno}")
                for k in [k for k in sys.modules if k == root or k.startswith(root + ".")]:
                    del sys.modules[k]
            if "" in sigs:
                for param, s in sigs.items():
                    if s != sigs[""]:
                        diff = [k for k in s if s[k] != sigs[""].get(k)]
                        note("C18 classes differ between configurations", f"[{param}] {diff[:3]}")
    finally:
        shutil.rmtree(tmp, ignore_errors=True)
    for kind, items in sorted(bad.items()):
        print("==", kind, len(items))
        for idx, d in items[:6]:
            print(f"     schema#{idx}: {d}")
    print(f"{n} schemas generated, {valid} valid, {len(bad)} kinds of finding")
    if os.environ.get("DUMP") and bad:
        want = {int(x) for x in os.environ["DUMP"].split(",")}
        for i in want:
            if i in schemas:
                for f in schemas[i]:
                    print(f"--- schema#{i} {f.name}\n{f}")


if __name__ == "__main__":
    main()
