"""Concrete triage aid for the template finding Y1 (typing.310 x streaming): drives the plugin in-process
(ruff stubbed out) and compiles the generated modules. Not part of any check."""
import sys
from betterproto.lib.google.protobuf import (DescriptorProto, FieldDescriptorProto, FieldDescriptorProtoLabel as L, FieldDescriptorProtoType as T,
                                             FileDescriptorProto, MethodDescriptorProto, ServiceDescriptorProto)
from betterproto.lib.google.protobuf.compiler import CodeGeneratorRequest
from betterproto.plugin import compiler as plugin_compiler
from betterproto.plugin.models import monkey_patch_oneof_index
from betterproto.plugin.parser import generate_code

monkey_patch_oneof_index()
plugin_compiler.subprocess.check_output = lambda cmd, input, encoding: input


def fld(name, number, type):
    return FieldDescriptorProto(name=name, number=number, type=type, label=L.LABEL_OPTIONAL)


def request(param):
    event = DescriptorProto(name="Event", field=[fld("id", 1, T.TYPE_INT32)])
    evt_file = FileDescriptorProto(name="feed/evt.proto", package="feed.evt", syntax="proto3", message_type=[event])
    req = DescriptorProto(name="Req", field=[fld("topic", 1, T.TYPE_STRING)])
    ev = ".feed.evt.Event"
    svc = ServiceDescriptorProto(name="Feed", method=[
        MethodDescriptorProto(name="Get", input_type=".feed.Req", output_type=ev),
        MethodDescriptorProto(name="Watch", input_type=".feed.Req", output_type=ev, server_streaming=True),
        MethodDescriptorProto(name="Push", input_type=ev, output_type=".feed.Req", client_streaming=True),
        MethodDescriptorProto(name="Sync", input_type=ev, output_type=ev, client_streaming=True, server_streaming=True)])
    feed = FileDescriptorProto(name="feed.proto", package="feed", syntax="proto3", dependency=["feed/evt.proto"], message_type=[req], service=[svc])
    return CodeGeneratorRequest(file_to_generate=["feed/evt.proto", "feed.proto"], parameter=param, proto_file=[evt_file, feed])


bad = 0
for param in ("", "typing.root", "typing.310", "pydantic_dataclasses,typing.310"):
    resp = generate_code(request(param))
    for f in resp.file:
        if f.content:
            try:
                compile(f.content, f.name, "exec")
                print(f"OK     [{param or 'default'}] {f.name}")
            except SyntaxError as e:
                bad += 1
                print(f"DEFECT [{param or 'default'}] {f.name}: SyntaxError {e.msg} line {e.lineno}: {e.text.strip()[:90]}")
sys.exit(1 if bad else 0)
