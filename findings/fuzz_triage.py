"""Triage / discovery tool (NOT a registered check, not static): random differential comparison of betterproto with
google.protobuf on a schema covering every field kind.  Used only to find candidate defects, which are then confirmed by
reading the code, turned into a static rule, and repaired or recorded.   usage: fuzz_triage.py [n] [seed]"""
import sys, json, math, random, struct
sys.path.insert(0, __import__("os").environ.get("REPO_SRC", "/repo/src"))
from dataclasses import dataclass
from typing import Dict, Optional, List
from datetime import datetime, timedelta, timezone
import betterproto
from google.protobuf import descriptor_pb2, descriptor_pool, message_factory, json_format
from google.protobuf import wrappers_pb2, timestamp_pb2, duration_pb2  # noqa

FD = descriptor_pb2.FieldDescriptorProto
T = {"int32": FD.TYPE_INT32, "int64": FD.TYPE_INT64, "uint32": FD.TYPE_UINT32, "uint64": FD.TYPE_UINT64, "sint32": FD.TYPE_SINT32, "sint64": FD.TYPE_SINT64,
     "fixed32": FD.TYPE_FIXED32, "fixed64": FD.TYPE_FIXED64, "sfixed32": FD.TYPE_SFIXED32, "sfixed64": FD.TYPE_SFIXED64, "bool": FD.TYPE_BOOL,
     "string": FD.TYPE_STRING, "bytes": FD.TYPE_BYTES, "float": FD.TYPE_FLOAT, "double": FD.TYPE_DOUBLE}
KEYS = ["int32", "int64", "uint32", "uint64", "sint32", "sint64", "fixed32", "fixed64", "sfixed32", "sfixed64", "bool", "string"]
WRAPS = {"double": "DoubleValue", "float": "FloatValue", "int64": "Int64Value", "uint64": "UInt64Value", "int32": "Int32Value", "uint32": "UInt32Value",
         "bool": "BoolValue", "string": "StringValue", "bytes": "BytesValue"}
PY = {"string": str, "bytes": bytes, "bool": bool, "float": float, "double": float}


class E(betterproto.Enum):
    ZERO = 0
    ONE = 1
    NEG = -1
    BIG = 2147483647


@dataclass(eq=False, repr=False)
class Inner(betterproto.Message):
    x: int = betterproto.int64_field(1)
    s: str = betterproto.string_field(2)
    r: List[int] = betterproto.sint32_field(3)


fp = descriptor_pb2.FileDescriptorProto(name="vt_fuzz.proto", package="vtf", syntax="proto3",
                                        dependency=["google/protobuf/wrappers.proto", "google/protobuf/timestamp.proto", "google/protobuf/duration.proto"])
e = fp.enum_type.add(name="E")
for n_, v_ in (("ZERO", 0), ("ONE", 1), ("NEG", -1), ("BIG", 2147483647)):
    e.value.add(name=n_, number=v_)
inner = fp.message_type.add(name="Inner")
inner.field.add(name="x", number=1, type=FD.TYPE_INT64, label=FD.LABEL_OPTIONAL)
inner.field.add(name="s", number=2, type=FD.TYPE_STRING, label=FD.LABEL_OPTIONAL)
inner.field.add(name="r", number=3, type=FD.TYPE_SINT32, label=FD.LABEL_REPEATED)
msg = fp.message_type.add(name="M")
fields = []   # (name, annotation, betterproto field, kind, generator)
num = [0]
NUMS = [1, 2, 15, 16, 17, 2047, 2048, 100000, 2**29 - 1]


def nxt():
    num[0] += 1
    # spread numbers over the varint size classes
    return num[0] if num[0] > 20 else num[0]


def tinfo(vt):
    if vt == "enum":
        return FD.TYPE_ENUM, ".vtf.E", betterproto.TYPE_ENUM, E
    if vt == "message":
        return FD.TYPE_MESSAGE, ".vtf.Inner", betterproto.TYPE_MESSAGE, Inner
    if vt == "timestamp":
        return FD.TYPE_MESSAGE, ".google.protobuf.Timestamp", betterproto.TYPE_MESSAGE, datetime
    if vt == "duration":
        return FD.TYPE_MESSAGE, ".google.protobuf.Duration", betterproto.TYPE_MESSAGE, timedelta
    return T[vt], None, vt, PY.get(vt, int)


ALLV = list(T) + ["enum", "message", "timestamp", "duration"]
oneof_idx = None
for vt in ALLV:
    ty, tn, bt, py = tinfo(vt)
    # singular
    n = nxt(); f = msg.field.add(name=f"s_{vt}", number=n, type=ty, label=FD.LABEL_OPTIONAL)
    if tn: f.type_name = tn
    fields.append((f"s_{vt}", py, betterproto.dataclass_field(n, bt), ("singular", vt)))
    # repeated
    n = nxt(); f = msg.field.add(name=f"r_{vt}", number=n, type=ty, label=FD.LABEL_REPEATED)
    if tn: f.type_name = tn
    fields.append((f"r_{vt}", List[py], betterproto.dataclass_field(n, bt), ("repeated", vt)))
    # proto3 optional
    n = nxt(); f = msg.field.add(name=f"o_{vt}", number=n, type=ty, label=FD.LABEL_OPTIONAL, proto3_optional=True)
    if tn: f.type_name = tn
    msg.oneof_decl.add(name=f"_o_{vt}")
    f.oneof_index = len(msg.oneof_decl) - 1
    fields.append((f"o_{vt}", Optional[py], betterproto.dataclass_field(n, bt, optional=True), ("optional", vt)))
    # map value
    n = nxt()
    entry = msg.nested_type.add(name=f"Mv{vt.title()}Entry"); entry.options.map_entry = True
    entry.field.add(name="key", number=1, type=FD.TYPE_STRING, label=FD.LABEL_OPTIONAL)
    f = entry.field.add(name="value", number=2, type=ty, label=FD.LABEL_OPTIONAL)
    if tn: f.type_name = tn
    msg.field.add(name=f"mv_{vt}", number=n, type=FD.TYPE_MESSAGE, type_name=f".vtf.M.{entry.name}", label=FD.LABEL_REPEATED)
    fields.append((f"mv_{vt}", Dict[str, py], betterproto.map_field(n, "string", bt), ("mapv", vt)))
msg.oneof_decl.add(name="grp")
gi = len(msg.oneof_decl) - 1
for vt in ALLV:
    ty, tn, bt, py = tinfo(vt)
    n = nxt(); f = msg.field.add(name=f"g_{vt}", number=n, type=ty, label=FD.LABEL_OPTIONAL, oneof_index=gi)
    if tn: f.type_name = tn
    fields.append((f"g_{vt}", py, betterproto.dataclass_field(n, bt, group="grp"), ("oneof", vt)))
for kt in KEYS:
    n = nxt()
    entry = msg.nested_type.add(name=f"Mk{kt.title()}Entry"); entry.options.map_entry = True
    entry.field.add(name="key", number=1, type=T[kt], label=FD.LABEL_OPTIONAL)
    entry.field.add(name="value", number=2, type=FD.TYPE_SINT64, label=FD.LABEL_OPTIONAL)
    msg.field.add(name=f"mk_{kt}", number=n, type=FD.TYPE_MESSAGE, type_name=f".vtf.M.{entry.name}", label=FD.LABEL_REPEATED)
    fields.append((f"mk_{kt}", Dict[PY.get(kt, int), int], betterproto.map_field(n, kt, "sint64"), ("mapk", kt)))
for t in WRAPS:
    n = nxt(); msg.field.add(name=f"w_{t}", number=n, type=FD.TYPE_MESSAGE, type_name=f".google.protobuf.{WRAPS[t]}", label=FD.LABEL_OPTIONAL)
    fields.append((f"w_{t}", Optional[PY.get(t, int)], betterproto.message_field(n, wraps=t), ("wrap", t)))
# the oneof decl order: proto3 requires synthetic oneofs last; rebuild order
real = [o for o in msg.oneof_decl if not o.name.startswith("_")]
synth = [o for o in msg.oneof_decl if o.name.startswith("_")]
names = [o.name for o in msg.oneof_decl]
new = [o.name for o in real] + [o.name for o in synth]
remap = {names.index(nm): new.index(nm) for nm in names}
for f in msg.field:
    if f.HasField("oneof_index"):
        f.oneof_index = remap[f.oneof_index]
del msg.oneof_decl[:]
for nm in new:
    msg.oneof_decl.add(name=nm)

pool = descriptor_pool.Default()
pool.Add(fp)
Ref = message_factory.GetMessageClass(pool.FindMessageTypeByName("vtf.M"))
M = dataclass(eq=False, repr=False)(type("M", (betterproto.Message,), {"__annotations__": {n: t for n, t, _, _ in fields}, "__module__": __name__,
                                                                       **{n: f for n, _, f, _ in fields}}))

R = random.Random(int(sys.argv[2]) if len(sys.argv) > 2 else 1)


def f32(x):
    return struct.unpack("<f", struct.pack("<f", x))[0]


def gen(vt, allow_default=True):
    r = R.random()
    if vt in ("int32", "sint32", "sfixed32"):
        return R.choice([0, 1, -1, 2**31 - 1, -2**31, R.randint(-2**31, 2**31 - 1)]) if allow_default or r > 0 else 1
    if vt in ("int64", "sint64", "sfixed64"):
        return R.choice([0, 1, -1, 2**63 - 1, -2**63, R.randint(-2**63, 2**63 - 1), 2**53 + 1])
    if vt in ("uint32", "fixed32"):
        return R.choice([0, 1, 2**32 - 1, R.randint(0, 2**32 - 1)])
    if vt in ("uint64", "fixed64"):
        return R.choice([0, 1, 2**64 - 1, 2**63, R.randint(0, 2**64 - 1)])
    if vt == "bool":
        return R.choice([False, True])
    if vt == "string":
        return R.choice(["", "a", "héllo ☃", "\x00", "x" * 200])
    if vt == "bytes":
        return R.choice([b"", b"\x00", b"\xff\xfe", bytes(R.randrange(256) for _ in range(R.randint(0, 140)))])
    if vt == "float":
        return R.choice([0.0, 1.5, -2.25, math.inf, -math.inf, f32(R.uniform(-1e30, 1e30)), f32(1e-40)])
    if vt == "double":
        return R.choice([0.0, 1.5, -2.25, math.inf, -math.inf, R.uniform(-1e300, 1e300), 5e-324, 0.1])
    if vt == "enum":
        return R.choice([E.ZERO, E.ONE, E.NEG, E.BIG])
    if vt == "message":
        return R.choice([Inner(), Inner(x=R.randint(-2**63, 2**63 - 1)), Inner(s="q", r=[1, -1, 0])])
    if vt == "timestamp":
        return R.choice([datetime(1970, 1, 1, tzinfo=timezone.utc), datetime(2020, 2, 3, 4, 5, 6, 7000, tzinfo=timezone.utc),
                         datetime(1969, 12, 31, 23, 59, 59, 999999, tzinfo=timezone.utc), datetime(1, 1, 1, tzinfo=timezone.utc),
                         datetime(9999, 12, 31, 23, 59, 59, 999999, tzinfo=timezone.utc), datetime(1950, 6, 1, 0, 0, 0, 1, tzinfo=timezone.utc)])
    if vt == "duration":
        return R.choice([timedelta(0), timedelta(seconds=3, microseconds=500), timedelta(microseconds=-1), timedelta(days=-3, microseconds=7),
                         timedelta(seconds=-1), timedelta(days=100000, microseconds=999999)])
    raise KeyError(vt)


def build():
    kw = {}
    chosen = R.sample(fields, R.randint(1, 6))
    got_group = False
    for name, _, _, (shape, vt) in chosen:
        if shape == "singular" or shape == "optional" or shape == "wrap":
            kw[name] = gen(vt)
        elif shape == "oneof":
            if got_group:
                continue
            got_group = True
            kw[name] = gen(vt)
        elif shape == "repeated":
            kw[name] = [gen(vt) for _ in range(R.randint(0, 4))]
        elif shape == "mapv":
            kw[name] = {R.choice(["", "k", "ü"]): gen(vt) for _ in range(R.randint(0, 3))}
        elif shape == "mapk":
            kw[name] = {gen(vt): R.choice([0, -5, 2**40]) for _ in range(R.randint(0, 3))}
    return kw


def canon(ref):
    return ref.SerializeToString(deterministic=True)


bad = {}


def note(kind, kw, detail=""):
    key = (kind, tuple(sorted(k.split("_")[0] + ":" + k.split("_", 1)[1] for k in kw)))
    if kind not in bad:
        bad[kind] = []
    if len(bad[kind]) < 6:
        bad[kind].append((kw, detail))


N = int(sys.argv[1]) if len(sys.argv) > 1 else 2000
for _ in range(N):
    kw = build()
    try:
        m = M(**kw)
        data = bytes(m)
    except Exception as ex:
        note("encode raises", kw, repr(ex)); continue
    if len(m) != len(data):
        note("C09 len != len(bytes)", kw, f"{len(m)} vs {len(data)}")
    try:
        ref = Ref.FromString(data)
    except Exception as ex:
        note("C02 reference rejects bytes", kw, repr(ex)); continue
    # what the reference sees must be what was set: compare through the reference's JSON against reference parsed from our JSON
    try:
        back = M().parse(data)
        if bytes(back) != data:
            note("C01 re-encode differs", kw)
        if back != m:
            note("C01 parse(bytes(m)) != m", kw)
    except Exception as ex:
        note("C01 parse raises", kw, repr(ex))
    try:
        back = M().parse(data)
        grp = betterproto.which_one_of(back, "grp")[0]
        if (grp or None) != ref.WhichOneof("grp"):
            note("C07 which_one_of differs from reference", kw, f"{grp!r} vs {ref.WhichOneof('grp')!r}")
        if betterproto.which_one_of(m, "grp")[0] != grp:
            note("C07 which_one_of changes over the wire", kw)
        for name, _, _, (shape, vt) in fields:
            if shape == "optional":
                if ref.HasField(name) != (getattr(back, name) is not None):
                    note("C06 optional presence differs from reference", kw, name)
                if ref.HasField(name) != (name in kw):
                    note("C06 reference does not see what was set", kw, name)
            if shape in ("optional", "oneof", "wrap") or (shape == "singular" and vt in ("message", "timestamp", "duration")):
                if betterproto.serialized_on_wire(back) and back.is_set(name) != ref.HasField(name):
                    note("C06 is_set differs from reference HasField", kw, name)
        # C14: observers are pure
        def state(x):
            d = object.__getattribute__(x, "__dict__")
            return (bytes(x), betterproto.serialized_on_wire(x), dict(d.get("_group_current", {})), sorted(k for k, v in d.items() if v is betterproto.PLACEHOLDER), bytes(d.get("_unknown_fields", b"")))
        fresh = M(**kw)
        before = state(fresh)
        repr(fresh); fresh == M(); fresh.to_dict(); fresh.to_json(); len(fresh); bool(fresh); betterproto.which_one_of(fresh, "grp")
        try:
            fresh.to_pydict()   # (raises AttributeError for repeated Timestamp/Duration fields: a plain bug outside the properties, see DESIGN 16)
        except AttributeError:
            pass
        for name, _, _, _ in fields:
            fresh.is_set(name)
        hash_ok = True
        if state(fresh) != before:
            note("C14 an observer changed the message", kw, f"{before[1:4]} -> {state(fresh)[1:4]}")
        import copy, pickle
        for c in (copy.copy(back), copy.deepcopy(back), pickle.loads(pickle.dumps(back))):
            if c != back or bytes(c) != data:
                note("C14 copy/pickle not equal", kw)
        import io
        s_ = io.BytesIO()
        for _i in range(3):
            m.dump(s_, betterproto.SIZE_DELIMITED)
        s_.write(b"tail")
        s_.seek(0)
        for _i in range(3):
            if bytes(M().load(s_, betterproto.SIZE_DELIMITED)) != data:
                note("C10 delimited stream read back differently", kw)
        if s_.read() != b"tail":
            note("C10 delimited reader consumed too much or too little", kw)
    except Exception as ex:
        note("presence/copy/stream checks raise", kw, repr(ex)[:200])
    try:
        rb = canon(ref)
        b2 = M().parse(rb)
        if canon(Ref.FromString(bytes(b2))) != rb:
            note("C02 reference bytes re-encoded differently", kw)
    except Exception as ex:
        note("C02 parse of reference bytes raises", kw, repr(ex))
    try:
        for casing in (betterproto.Casing.CAMEL, betterproto.Casing.SNAKE):
            d = m.to_dict(casing=casing)
            text = json.dumps(d)
            for b3 in (M().from_dict(d), M.from_dict(d), M().from_json(text)):
                if canon(Ref.FromString(bytes(b3))) != canon(ref):
                    note("C04 JSON round trip differs", kw, text[:200])
    except Exception as ex:
        note("C04 JSON round trip raises", kw, repr(ex)[:200])
    try:
        r2 = json_format.Parse(m.to_json(), Ref())
        if canon(r2) != canon(ref):
            note("C05 reference reads our JSON differently", kw, m.to_json()[:200])
    except Exception as ex:
        note("C05 reference rejects our JSON", kw, repr(ex)[:200])
    try:
        rtext = json_format.MessageToJson(ref)
        b4 = M().from_json(rtext)
        if canon(Ref.FromString(bytes(b4))) != canon(ref):
            note("C05 we read reference JSON differently", kw, rtext[:200])
    except Exception as ex:
        note("C05 we reject reference JSON", kw, repr(ex)[:200])

for kind, items in bad.items():
    print("==", kind, len(items))
    for kw, detail in items[:4]:
        print("    ", {k: (v if len(repr(v)) < 80 else repr(v)[:80]) for k, v in kw.items()}, detail)
print(f"{N} messages; {len(bad)} kinds of mismatch")
