"""Evaluation of symbolic terms (vt.sym) at chosen scenario values.

The abstract interpreter yields, per path, the atoms it decided and the returned term, all over symbolic inputs.  Some
obligations quantify over a handful of distinguished inputs (the IEEE specials, the two signs, an empty string): for those a
rule picks the path an input takes by evaluating the path's atoms at that input, with the analyser's own evaluator below.
Only terms built from constants, the scenario's names, arithmetic / comparison operators and a closed list of pure builtins
evaluate; anything else raises Unknown and the rule reports the obligation as inconclusive.  No code of the repository is run.
"""
from __future__ import annotations

import keyword as _keyword
import math
from typing import Any, Dict

from .sym import Sym, dotted


class Unknown(Exception):
    pass


_PURE = {
    "set": set, "frozenset": frozenset, "sorted": sorted, "list": list, "tuple": tuple,
    "float": float, "int": int, "str": str, "abs": abs, "bool": bool, "len": len, "round": round, "min": min, "max": max, "divmod": divmod,
    "math.isnan": math.isnan, "math.isinf": math.isinf, "math.isfinite": math.isfinite, "math.copysign": math.copysign, "math.floor": math.floor,
    "math.ceil": math.ceil, "math.trunc": math.trunc, "math.fabs": math.fabs,
    "keyword.iskeyword": _keyword.iskeyword, "keyword.issoftkeyword": getattr(_keyword, "issoftkeyword", lambda s_: False), "iskeyword": _keyword.iskeyword,
    "calendar.timegm": __import__("calendar").timegm, "timegm": __import__("calendar").timegm,
    "isnan": math.isnan, "isinf": math.isinf, "isfinite": math.isfinite, "copysign": math.copysign,
}
_STR_METHODS = {"startswith", "endswith", "strip", "lstrip", "rstrip", "partition", "rpartition", "split", "rsplit", "ljust", "rjust", "zfill", "lower", "upper", "replace",
                "removeprefix", "removesuffix", "isdigit", "find", "index", "rfind", "rindex", "count", "join", "format", "isidentifier", "isalpha", "isalnum", "isupper", "islower",
                "capitalize", "title", "casefold", "swapcase"}
_SET_METHODS = {"intersection", "union", "difference", "issubset", "issuperset", "isdisjoint", "symmetric_difference", "copy"}
_RE_PURE = {"re.split", "re.findall", "re.compile", "re.sub", "re.escape"}
_TYPES = {"float": float, "int": int, "str": str, "bool": bool, "bytes": bytes}
import datetime as _dtmod
_ATTRS = {"timezone.utc": _dtmod.timezone.utc, "datetime.timezone.utc": _dtmod.timezone.utc, "math.inf": math.inf, "math.nan": math.nan, "math.pi": math.pi, "keyword.kwlist": tuple(_keyword.kwlist), "keyword.softkwlist": tuple(getattr(_keyword, "softkwlist", ()))}


def ev(t: Sym, env: Dict[Any, Any]) -> Any:
    """value of term `t` where env maps terms (or plain names) to python values"""
    if t in env:
        return env[t]
    k = t[0]
    if k == "c":
        return t[1]
    if k == "n":
        if t[1] in env:
            return env[t[1]]
        raise Unknown(t[1])
    if k == "a":
        d = dotted(t)
        if d in _ATTRS:
            return _ATTRS[d]
        # the normalised fields of a timedelta / the fields of a datetime given by the scenario
        import datetime as _dt
        try:
            base = ev(t[1], env)
        except Unknown:
            raise Unknown(d)
        if isinstance(base, _dt.timedelta) and t[2] in ("days", "seconds", "microseconds"):
            return getattr(base, t[2])
        if isinstance(base, _dt.datetime) and t[2] in ("year", "month", "day", "hour", "minute", "second", "microsecond", "tzinfo"):
            return getattr(base, t[2])
        raise Unknown(d)
    if k == "ife":
        return ev(t[2], env) if ev(t[1], env) else ev(t[3], env)
    if k == "tuple":
        return tuple(ev(x, env) for x in t[1])
    if k == "list":
        return [ev(x, env) for x in t[1]]
    if k == "set":
        try:
            return {ev(x, env) for x in t[1]}
        except TypeError as e:
            raise Unknown(f"set: {e}")
    if k == "item":
        seq = ev(t[1], env)
        try:
            return seq[t[2]]
        except (TypeError, IndexError, KeyError) as e:
            raise Unknown(f"item: {e}")
    if k == "slice":
        return slice(*[None if x is None or x == ("c", None) else ev(x, env) for x in t[1:4]])
    if k == "sub":
        base = ev(t[1], env)
        idx = ev(t[2], env)
        import re as _re2
        if isinstance(base, _re2.Match):
            try:
                return base[idx]
            except (IndexError, TypeError) as e:
                raise Unknown(f"match[{idx!r}]: {e}")
        try:
            return base[idx]
        except (TypeError, IndexError, KeyError) as e:
            raise Unknown(f"subscript: {e}")
    if k == "fstr":
        out = ""
        for part in t[1]:
            if part[0] == "c":
                out += str(part[1])
            elif part[0] == "fmt":
                v = ev(part[1], env)
                conv, spec = part[2], part[3]
                if conv in ("r", 114):
                    v = repr(v)
                elif conv in ("s", 115):
                    v = str(v)
                elif conv in ("a", 97):
                    v = ascii(v)
                sp = spec if isinstance(spec, str) or spec is None else ev(spec, env)
                out += format(v, sp or "")
            else:
                raise Unknown("fstr part")
        return out
    if k == "dictd":
        return {ev(a, env): ev(b, env) for a, b in t[1]}
    if k == "op":
        op = t[1]
        if op == "and":
            v: Any = True
            for x in t[2:]:
                v = ev(x, env)
                if not v:
                    return v
            return v
        if op == "or":
            v = False
            for x in t[2:]:
                v = ev(x, env)
                if v:
                    return v
            return v
        xs = [ev(x, env) for x in t[2:]]
        try:
            if len(xs) == 1:
                return {"not": lambda a: not a, "neg": lambda a: -a, "-": lambda a: -a, "+": lambda a: +a, "usub": lambda a: -a, "pos": lambda a: +a, "~": lambda a: ~a,
                        "invert": lambda a: ~a}[op](xs[0])
            a, b = xs
            return {
                "==": lambda: a == b, "!=": lambda: a != b, "<": lambda: a < b, ">": lambda: a > b, "<=": lambda: a <= b, ">=": lambda: a >= b,
                "is": lambda: a is b or (type(a) is type(b) and a == b and not isinstance(a, float)), "is not": lambda: not (a is b or (type(a) is type(b) and a == b and not isinstance(a, float))),
                "+": lambda: a + b, "-": lambda: a - b, "*": lambda: a * b, "/": lambda: a / b, "//": lambda: a // b, "%": lambda: a % b, "**": lambda: a ** b,
                "in": lambda: a in b, "not in": lambda: a not in b, "&": lambda: a & b, "|": lambda: a | b, "^": lambda: a ^ b, "<<": lambda: a << b, ">>": lambda: a >> b,
            }[op]()
        except KeyError:
            raise Unknown(op)
        except (TypeError, ValueError, ZeroDivisionError, OverflowError) as e:
            raise Unknown(f"{op}: {e}")
    if k == "call":
        name = dotted(t[1])
        if name == "isinstance" and len(t[2]) == 2 and not t[3]:
            v = ev(t[2][0], env)
            ty = t[2][1]
            names = [dotted(x) for x in ty[1]] if ty[0] == "tuple" else [dotted(ty)]
            if all(n in _TYPES for n in names):
                # bool is an int, as in Python
                return isinstance(v, tuple(_TYPES[n] for n in names))
            raise Unknown(f"isinstance {names}")
        if t[1][0] == "a" and t[1][2] == "get" and not t[3] and len(t[2]) in (1, 2):
            try:
                table = ev(t[1][1], env)
            except Unknown:
                table = None
            if isinstance(table, dict):
                key = ev(t[2][0], env)
                default = ev(t[2][1], env) if len(t[2]) == 2 else None
                for kk, vv in table.items():
                    # a dict finds a key by identity or equality: a NaN key is found only by the very same object, which an
                    # arbitrary NaN input is not
                    if isinstance(kk, float) and math.isnan(kk):
                        continue
                    try:
                        if kk == key and hash(kk) == hash(key):
                            return vv
                    except TypeError:
                        raise Unknown("unhashable key")
                return default
        if t[1] == ("n", "next") and len(t[2]) in (1, 2) and not t[3] and t[2][0][0] == "c" and isinstance(t[2][0][1], tuple):
            # next(<generator expression over constants, folded to the tuple of what it yields>[, default]): its first element
            if t[2][0][1]:
                return t[2][0][1][0]
            if len(t[2]) == 2:
                return ev(t[2][1], env)
            raise Unknown("next() of an exhausted iterator")
        if t[1][0] == "a" and t[1][2] in _STR_METHODS:
            try:
                recv = ev(t[1][1], env)
            except Unknown:
                recv = None
            if isinstance(recv, (str, bytes)):
                args = [ev(x, env) for x in t[2]]
                kw = {k_: ev(v_, env) for k_, v_ in t[3]}
                try:
                    return getattr(recv, t[1][2])(*args, **kw)
                except (TypeError, ValueError) as e:
                    raise Unknown(f"{t[1][2]}: {e}")
        if t[1][0] == "a" and t[1][2] in _SET_METHODS and not t[3]:
            try:
                recv = ev(t[1][1], env)
            except Unknown:
                recv = None
            if isinstance(recv, (set, frozenset)):
                try:
                    return getattr(recv, t[1][2])(*[ev(x, env) for x in t[2]])
                except TypeError as e:
                    raise Unknown(f"{t[1][2]}: {e}")
        if t[1][0] == "a" and t[1][2] in ("sub", "subn", "match", "search", "fullmatch", "findall", "split") and t[2]:
            # methods of a compiled pattern (a module-level constant built by re.compile on a literal); a replacement given as a
            # lambda is applied through this evaluator
            import re as _re
            try:
                recv = ev(t[1][1], env)
            except Unknown:
                recv = None
            if isinstance(recv, _re.Pattern):
                args = []
                for x in t[2]:
                    if x[0] == "opaque" and str(x[1]).startswith("lambda"):
                        import ast as _ast
                        from .sym import from_ast as _from_ast
                        lam = _ast.parse(x[1], mode="eval").body
                        if not isinstance(lam, _ast.Lambda) or len(lam.args.args) != 1:
                            raise Unknown("lambda shape")
                        body_t, prm = _from_ast(lam.body), lam.args.args[0].arg
                        args.append(lambda m_, _b=body_t, _p=prm: ev(_b, {**env, _p: m_}))
                    else:
                        args.append(ev(x, env))
                kw = {k_: ev(v_, env) for k_, v_ in t[3]}
                try:
                    return getattr(recv, t[1][2])(*args, **kw)
                except (TypeError, ValueError, _re.error) as e:
                    raise Unknown(f"{t[1][2]}: {e}")
        if t[1][0] == "a" and t[1][2] in ("group", "groups", "start", "end", "span") and not t[3]:
            import re as _re
            try:
                recv = ev(t[1][1], env)
            except Unknown:
                recv = None
            if isinstance(recv, _re.Match):
                return getattr(recv, t[1][2])(*[ev(x, env) for x in t[2]])
        if name in _RE_PURE:
            import re as _re
            args = [ev(x, env) for x in t[2]]
            kw = {k_: ev(v_, env) for k_, v_ in t[3]}
            if not all(isinstance(a, (str, int)) for a in args):
                raise Unknown(f"{name}: non-constant argument")
            try:
                return getattr(_re, name.split(".")[-1])(*args, **kw)
            except (TypeError, ValueError, _re.error) as e:
                raise Unknown(f"{name}: {e}")
        if t[1][0] == "a" and t[1][2] in ("is_integer", "hex", "as_integer_ratio", "bit_length", "conjugate") and not t[2] and not t[3]:
            try:
                recv = ev(t[1][1], env)
            except Unknown:
                recv = None
            if isinstance(recv, (int, float)) and not isinstance(recv, bool) and hasattr(recv, t[1][2]):
                return getattr(recv, t[1][2])()
        if t[1][0] == "a" and t[1][2] == "total_seconds" and not t[2] and not t[3]:
            import datetime as _dt
            try:
                recv = ev(t[1][1], env)
            except Unknown:
                recv = None
            if isinstance(recv, _dt.timedelta):
                return recv.total_seconds()
        if t[1][0] == "a" and t[1][2] in ("replace", "utcoffset", "astimezone", "date", "time", "timetz", "toordinal", "dst", "tzname", "isoformat", "timetuple", "utctimetuple", "timestamp") :
            # pure methods of a datetime given by the scenario
            import datetime as _dt
            try:
                recv = ev(t[1][1], env)
            except Unknown:
                recv = None
            if isinstance(recv, _dt.datetime):
                try:
                    return getattr(recv, t[1][2])(*[ev(x, env) for x in t[2]], **{k_: ev(v_, env) for k_, v_ in t[3]})
                except (TypeError, ValueError, OverflowError) as e:
                    raise Unknown(f"{t[1][2]}: {e}")
        if name in ("datetime", "datetime.datetime", "timezone", "datetime.timezone"):
            import datetime as _dt
            try:
                return (_dt.datetime if name.endswith("datetime") else _dt.timezone)(*[ev(x, env) for x in t[2]], **{k_: ev(v_, env) for k_, v_ in t[3]})
            except (TypeError, ValueError, OverflowError) as e:
                raise Unknown(f"{name}: {e}")
        if name in ("timedelta", "datetime.timedelta"):
            import datetime as _dt
            try:
                return _dt.timedelta(*[ev(x, env) for x in t[2]], **{k_: ev(v_, env) for k_, v_ in t[3]})
            except (TypeError, ValueError, OverflowError) as e:
                raise Unknown(f"timedelta: {e}")
        if name in _PURE and not t[3]:
            args = [ev(x, env) for x in t[2]]
            try:
                return _PURE[name](*args)
            except (TypeError, ValueError, OverflowError) as e:
                raise Unknown(f"{name}: {e}")
        raise Unknown(name)
    raise Unknown(k)


def same_float(a: Any, b: float) -> bool:
    """`a` is the float `b` (NaN equals NaN, zero signs distinguished)"""
    if not isinstance(a, float):
        return False
    if math.isnan(b):
        return math.isnan(a)
    return a == b and math.copysign(1.0, a) == math.copysign(1.0, b)
