"""Symbolic expression terms used by the abstract interpreter (E2).

A term is a hashable nested tuple:
  ('c', v)                     python constant (tuples / frozensets / HDict for tables)
  ('n', name)                  opaque named value (parameter, global, role)
  ('a', base, attr)            attribute
  ('sub', base, index)         subscript
  ('call', f, args, kwargs)    call; kwargs = sorted tuple of (name, term); name None = **
  ('op', opname, *operands)    unary / binary / boolean / comparison operator
  ('ife', test, a, b)          conditional expression
  ('tuple'|'list'|'set', items)
  ('dictd', ((k, v), ...))
  ('fstr', parts)              f-string: parts are ('c', str) or ('fmt', term, conv, spec)
  ('elem', it)                 an element produced by iterating `it`
  ('item', t, i)               i-th component when `t` is unpacked
  ('star', t)
  ('opaque', text)             lambda / comprehension etc. kept as source text
  ('await', t) ('yield', t) ('slice', lo, hi, step)
"""
from __future__ import annotations

import ast
from typing import Any, Callable, Dict, Iterator, Optional, Tuple

Sym = Tuple[Any, ...]


class HDict(dict):
    """hashable dict for constant tables"""

    def __hash__(self) -> int:  # type: ignore[override]
        return hash(frozenset((k, _h(v)) for k, v in self.items()))


class FoldedMatch:
    """the result of re.match / re.search / re.fullmatch on two constants, when there is a match: its groups (0 = whole)"""
    __slots__ = ("groups",)

    def __init__(self, groups: tuple):
        self.groups = groups

    def __hash__(self) -> int:
        return hash(("FoldedMatch", self.groups))

    def __eq__(self, other: Any) -> bool:
        return isinstance(other, FoldedMatch) and other.groups == self.groups

    def __repr__(self) -> str:
        return f"<match {self.groups[0]!r}>"


def _h(v: Any) -> Any:
    try:
        hash(v)
        return v
    except TypeError:
        return repr(v)


def freeze(v: Any) -> Any:
    if isinstance(v, dict) and not isinstance(v, HDict):
        return HDict({freeze(k): freeze(x) for k, x in v.items()})
    if isinstance(v, (list, tuple)):
        return tuple(freeze(x) for x in v)
    if isinstance(v, (set, frozenset)):
        return frozenset(freeze(x) for x in v)
    return v


def const_or_name(v: Any) -> Sym:
    """a value taken out of a folded table: a constant, or - for a symbolic reference to a function / class - the name term"""
    if type(v).__name__ == "SymCall":
        parts = v.func.split(".")
        f: Sym = ("n", parts[0])
        for p_ in parts[1:]:
            f = ("a", f, p_)
        t = ("call", f, tuple(const_or_name(a) if type(a).__name__ in ("SymName", "SymCall", "SymLambda") else C(a) for a in v.args), ())
        if parts != ["struct", "Struct"]:
            FUNCTION_REFS.add(t)        # a factory call kept in a table of callables: what it returns is a callable
        return t
    if type(v).__name__ == "SymLambda":
        t = ("opaque", str(v))
        MODULE_LAMBDAS[str(v)] = v.node
        FUNCTION_REFS.add(t)
        return t
    if type(v).__name__ == "SymName":
        parts = str(v).split(".")
        t: Sym = ("n", parts[0])
        for p_ in parts[1:]:
            t = ("a", t, p_)
        FUNCTION_REFS.add(t)
        return t
    return C(v)


# name terms that came out of a folded table as references to functions / classes (never None)
FUNCTION_REFS: set = set()
# lambdas that came out of folded module-level tables: text -> ast.Lambda (no closure; free names are module globals)
MODULE_LAMBDAS: dict = {}


def C(v: Any) -> Sym:
    return ("c", freeze(v))


def N(name: str) -> Sym:
    return ("n", name)


def A(base: Sym, attr: str) -> Sym:
    return ("a", base, attr)


def CALL(f: Sym, *args: Sym, **kw: Sym) -> Sym:
    return ("call", f, tuple(args), tuple(sorted(kw.items())))


def OP(op: str, *xs: Sym) -> Sym:
    return ("op", op) + tuple(xs)


def is_const(s: Sym) -> bool:
    return s[0] == "c"


def walk(s: Any) -> Iterator[Sym]:
    if isinstance(s, tuple):
        if s and isinstance(s[0], str) and s[0] in _KINDS:
            yield s
            if s[0] == "c" or s[0] == "opaque" or s[0] == "n":
                return
        for x in s:
            if isinstance(x, tuple):
                yield from walk(x)


_KINDS = {
    "c", "n", "a", "sub", "call", "op", "ife", "tuple", "list", "set", "dictd", "fstr",
    "elem", "item", "star", "opaque", "await", "yield", "slice", "fmt", "acc",
}


def contains(s: Sym, sub: Sym) -> bool:
    return any(x == sub for x in walk(s))


def subst(s: Any, f: Callable[[Sym], Optional[Sym]]) -> Any:
    """bottom-up rewrite"""
    if not isinstance(s, tuple):
        return s
    if s and isinstance(s[0], str) and s[0] in ("c", "n", "opaque"):
        r = f(s)
        return s if r is None else r
    new = tuple(subst(x, f) if isinstance(x, tuple) else x for x in s)
    if new and isinstance(new[0], str) and new[0] in _KINDS:
        r = f(new)
        return new if r is None else r
    return new


def calls(s: Sym) -> Iterator[Sym]:
    for x in walk(s):
        if x[0] == "call":
            yield x


def callee_name(call: Sym) -> str:
    """dotted textual name of the callee of a call term ('' if not nameable)"""
    return dotted(call[1])


def dotted(s: Sym) -> str:
    if s[0] == "n":
        return s[1]
    if s[0] == "a":
        b = dotted(s[1])
        return (b + "." if b else "?.") + s[2]
    if s[0] == "call":
        return dotted(s[1]) + "()"
    return ""


def last_attr(call: Sym) -> str:
    f = call[1]
    if f[0] == "a":
        return f[2]
    if f[0] == "n":
        return f[1]
    return ""


def kwarg(call: Sym, name: str, default: Optional[Sym] = None) -> Optional[Sym]:
    for k, v in call[3]:
        if k == name:
            return v
    return default


_BINOPS = {
    ast.Add: "+", ast.Sub: "-", ast.Mult: "*", ast.Div: "/", ast.FloorDiv: "//", ast.Mod: "%",
    ast.Pow: "**", ast.LShift: "<<", ast.RShift: ">>", ast.BitOr: "|", ast.BitAnd: "&",
    ast.BitXor: "^", ast.MatMult: "@",
}
_UNOPS = {ast.USub: "neg", ast.UAdd: "pos", ast.Invert: "~", ast.Not: "not"}
_CMPOPS = {
    ast.Eq: "==", ast.NotEq: "!=", ast.Lt: "<", ast.LtE: "<=", ast.Gt: ">", ast.GtE: ">=",
    ast.Is: "is", ast.IsNot: "is not", ast.In: "in", ast.NotIn: "not in",
}


def show(s: Any) -> str:
    if not isinstance(s, tuple) or not s:
        return repr(s)
    k = s[0]
    if k == "c":
        v = s[1]
        if isinstance(v, frozenset):
            return "{" + ", ".join(sorted(repr(x) for x in v)) + "}"
        return repr(v)
    if k == "n":
        return s[1]
    if k == "a":
        return f"{show(s[1])}.{s[2]}"
    if k == "sub":
        return f"{show(s[1])}[{show(s[2])}]"
    if k == "slice":
        return ":".join("" if x is None else show(x) for x in s[1:])
    if k == "call":
        parts = [show(a) for a in s[2]] + [
            (f"{n}={show(v)}" if n is not None else f"**{show(v)}") for n, v in s[3]
        ]
        return f"{show(s[1])}({', '.join(parts)})"
    if k == "op":
        op = s[1]
        xs = s[2:]
        if op in ("not", "neg", "pos", "~"):
            pre = {"not": "not ", "neg": "-", "pos": "+", "~": "~"}[op]
            return f"{pre}{_par(xs[0])}"
        return "(" + f" {op} ".join(show(x) for x in xs) + ")"
    if k == "ife":
        return f"({show(s[2])} if {show(s[1])} else {show(s[3])})"
    if k in ("tuple", "list", "set"):
        o, c = {"tuple": "()", "list": "[]", "set": "{}"}[k]
        return o + ", ".join(show(x) for x in s[1]) + ("," if k == "tuple" and len(s[1]) == 1 else "") + c
    if k == "dictd":
        return "{" + ", ".join(f"{show(a)}: {show(b)}" for a, b in s[1]) + "}"
    if k == "fstr":
        out = []
        for p in s[1]:
            if p[0] == "c":
                out.append(str(p[1]))
            else:
                out.append("{" + show(p[1]) + (f"!{p[2]}" if p[2] else "") + (f":{show(p[3])}" if p[3] else "") + "}")
        return 'f"' + "".join(out) + '"'
    if k == "elem":
        return f"elem({show(s[1])})"
    if k == "acc":
        return f"SUM[{show(s[1])}]({show(s[2])})"
    if k == "item":
        return f"{show(s[1])}#{s[2]}"
    if k == "star":
        return f"*{show(s[1])}"
    if k == "opaque":
        return s[1]
    if k in ("await", "yield"):
        return f"{k} {show(s[1])}"
    return repr(s)


def _par(s: Sym) -> str:
    t = show(s)
    return t


def from_ast(node: ast.AST, resolve: Callable[[str], Optional[Sym]] = lambda n: None) -> Sym:
    """Pure structural conversion (no events, no inlining) - used by rules that
    only need a term for an expression."""
    b = _Builder(resolve)
    return b.ev(node)


def from_text(text: str, resolve: Callable[[str], Optional[Sym]] = lambda n: None) -> Sym:
    return from_ast(ast.parse(text, mode="eval").body, resolve)


class _Builder:
    def __init__(self, resolve: Callable[[str], Optional[Sym]]):
        self.resolve = resolve

    def ev(self, n: ast.AST) -> Sym:
        if isinstance(n, ast.Constant):
            return C(n.value)
        if isinstance(n, ast.Name):
            r = self.resolve(n.id)
            if r is not None:
                return r
            if n.id in ("True", "False", "None"):
                return C({"True": True, "False": False, "None": None}[n.id])
            return N(n.id)
        if isinstance(n, ast.Attribute):
            return A(self.ev(n.value), n.attr)
        if isinstance(n, ast.Subscript):
            return simplify(("sub", self.ev(n.value), self.ev(n.slice)))
        if isinstance(n, ast.Slice):
            return ("slice",) + tuple(None if x is None else self.ev(x) for x in (n.lower, n.upper, n.step))
        if isinstance(n, ast.Call):
            args = tuple(self.ev(a) for a in n.args)
            kw = tuple(sorted(((k.arg, self.ev(k.value)) for k in n.keywords), key=lambda p: (p[0] is None, p[0] or "")))
            return ("call", self.ev(n.func), args, kw)
        if isinstance(n, ast.Starred):
            return ("star", self.ev(n.value))
        if isinstance(n, ast.BinOp):
            return simplify(OP(_BINOPS[type(n.op)], self.ev(n.left), self.ev(n.right)))
        if isinstance(n, ast.UnaryOp):
            return simplify(OP(_UNOPS[type(n.op)], self.ev(n.operand)))
        if isinstance(n, ast.BoolOp):
            op = "and" if isinstance(n.op, ast.And) else "or"
            return simplify(OP(op, *[self.ev(v) for v in n.values]))
        if isinstance(n, ast.Compare):
            left = self.ev(n.left)
            parts = []
            for op, c in zip(n.ops, n.comparators):
                right = self.ev(c)
                parts.append(simplify(OP(_CMPOPS[type(op)], left, right)))
                left = right
            return parts[0] if len(parts) == 1 else simplify(OP("and", *parts))
        if isinstance(n, ast.IfExp):
            return simplify(("ife", self.ev(n.test), self.ev(n.body), self.ev(n.orelse)))
        if isinstance(n, (ast.Tuple, ast.List, ast.Set)):
            kind = {ast.Tuple: "tuple", ast.List: "list", ast.Set: "set"}[type(n)]
            items = tuple(self.ev(e) for e in n.elts)
            if kind in ("tuple",) and all(i[0] == "c" for i in items):
                return C(tuple(i[1] for i in items))
            return (kind, items)
        if isinstance(n, ast.Dict):
            return ("dictd", tuple((("star", self.ev(v)) if k is None else self.ev(k), self.ev(v)) for k, v in zip(n.keys, n.values)))
        if isinstance(n, ast.JoinedStr):
            parts = []
            for v in n.values:
                if isinstance(v, ast.Constant):
                    parts.append(C(v.value))
                elif isinstance(v, ast.FormattedValue):
                    conv = {-1: "", 115: "s", 114: "r", 97: "a"}.get(v.conversion, "?")
                    spec = self.ev(v.format_spec) if v.format_spec is not None else None
                    val = self.ev(v.value)
                    if val[0] == "c" and (isinstance(val[1], (str, int, bool)) or val[1] is None) and conv in ("", "s") and spec is None:
                        parts.append(C(str(val[1])))
                    else:
                        parts.append(("fmt", val, conv, spec))
            if all(p[0] == "c" for p in parts):
                return C("".join(str(p[1]) for p in parts))
            return ("fstr", tuple(parts))
        if isinstance(n, ast.Await):
            return ("await", self.ev(n.value))
        if isinstance(n, (ast.Yield,)):
            return ("yield", self.ev(n.value) if n.value is not None else C(None))
        if isinstance(n, ast.YieldFrom):
            return ("yield", ("star", self.ev(n.value)))
        if isinstance(n, ast.NamedExpr):
            return self.ev(n.value)
        try:
            return ("opaque", ast.unparse(n))
        except Exception:
            return ("opaque", type(n).__name__)


# ---------------------------------------------------------------------------
# simplification: constant folding on terms

_CANON_CMP = {
    "!=": ("==", False, True),   # (positive op, swap operands, negate)
    "is not": ("is", False, True),
    "not in": ("in", False, True),
    ">=": ("<", False, True),
    ">": ("<", True, False),
    "<=": ("<", True, True),
}


_NOT_NONE_CALLS = {"bool", "isinstance", "issubclass", "len", "int", "str", "bytes", "float", "hasattr", "callable", "repr", "list", "dict", "tuple", "set",
                   "frozenset", "abs", "divmod", "sorted", "bytearray", "any", "all"}


# filled by the interpreter from the module under analysis (return annotations `-> bool|int|str|bytes|float`)
NON_OPTIONAL_RETURNS: set = set()
# attributes that always hold a value of a plain type
_BUILTIN_CALLABLES = {"int", "str", "float", "bytes", "bool", "list", "dict", "tuple", "set", "frozenset", "bytearray", "len", "repr", "abs", "sorted", "min", "max", "sum", "type",
                      "isinstance", "issubclass", "iter", "next", "range", "enumerate", "zip", "map", "filter", "print", "hash", "id", "callable", "getattr", "setattr", "hasattr",
                      "b64decode", "b64encode", "isoparse", "deepcopy"}
MODULE_CLASSES: set = set()     # names of the classes defined at the top of the module under analysis
MODULE_DEFS: set = set()        # qualified names defined in the module under analysis (filled by the interpreter)
METHOD_NAMES: set = set()       # names defined as methods of some class of the module
DATA_ATTR_NAMES: set = set()    # names that are (also) assigned as data attributes / class variables
NON_NONE_ATTRS = {"_serialized_on_wire", "_unknown_fields"}


def never_none(s: Sym) -> bool:
    """the term cannot evaluate to None: comparisons, boolean tests, constructor-like builtins, non-None constants, and
    and/or over such terms (`a and b` / `a or b` return one of their operands)"""
    if s[0] == "c":
        return s[1] is not None
    if s[0] == "op":
        if s[1] in ("==", "<", "is", "in", "not", "truth", "+", "-", "*", "|", "&", "^", "<<", ">>", "neg", "~"):
            return True
        if s[1] in ("and", "or"):
            return all(never_none(x) for x in s[2:])
        return False
    if s[0] == "call":
        if s in FUNCTION_REFS or dotted(s[1]) in ("partial", "functools.partial"):
            return True         # a factory call that came out of a folded table of callables / a partial application
        if s[1][0] == "n" and s[1][1] in _NOT_NONE_CALLS:
            return True
        if s[1][0] == "n" and s[1][1] in MODULE_CLASSES:
            return True         # constructing an object of a class of the analysed module
        # functions / methods of the analysed module that are annotated to return a plain scalar type
        base = s[1][1] if s[1][0] == "n" else (s[1][2] if s[1][0] == "a" else None)
        return base in NON_OPTIONAL_RETURNS
    if s[0] == "a" and s[2] in NON_NONE_ATTRS:
        return True
    if s in FUNCTION_REFS:
        return True
    if s[0] == "n" and (s[1] in _BUILTIN_CALLABLES or s[1] in MODULE_DEFS):
        return True         # a builtin function / type, or a function / class defined at the top of the analysed module
    if s[0] == "a" and s[1][0] == "n" and f"{s[1][1]}.{s[2]}" in MODULE_DEFS:
        return True         # a method looked up on a class of the analysed module
    if s[0] == "a" and s[2] in METHOD_NAMES and s[2] not in DATA_ATTR_NAMES:
        return True         # an attribute that is only ever a method in the analysed module (x.from_dict, x.from_string)
    if s[0] == "opaque" and s[1].startswith("lambda"):
        return True
    if s[0] in ("tuple", "list", "set", "dictd", "fstr"):
        return True
    if s[0] == "ife":
        return never_none(s[2]) and never_none(s[3])
    return False


def simplify(s: Sym) -> Sym:
    k = s[0]
    if k == "op":
        op = s[1]
        xs = s[2:]
        if op in _CANON_CMP and len(xs) == 2:
            pos, swap, neg = _CANON_CMP[op]
            a, b = (xs[1], xs[0]) if swap else (xs[0], xs[1])
            inner = simplify(OP(pos, a, b))
            return simplify(OP("not", inner)) if neg else inner
        if op == "is" and len(xs) == 2 and xs[0] == xs[1] and xs[0][0] in ("n", "a") and not dotted(xs[0]).startswith("$"):
            return C(True)          # the same variable / attribute path read twice with nothing in between: the same object
        if op in ("is", "==") and len(xs) == 2:
            # a symbolic reference to a global (class / function) against the name itself: same spelling, same object;
            # two different plain global names denote different objects
            for a_, b_ in ((xs[0], xs[1]), (xs[1], xs[0])):
                if a_[0] == "c" and type(a_[1]).__name__ == "SymName" and b_[0] in ("n", "a"):
                    d_ = dotted(b_)
                    if d_ and "?" not in d_ and not d_.startswith("$"):
                        return C(str(a_[1]) == d_)
        if all(x[0] == "c" for x in xs):
            try:
                return C(_fold_op(op, [x[1] for x in xs]))
            except Exception:
                pass
        if op == "not":
            x = xs[0]
            if x[0] == "op" and x[1] == "not":
                inner = x[2]
                # not not B is B itself when B is already a bool (comparison, negation, truth test)
                if inner[0] == "op" and inner[1] in ("==", "<", "is", "in", "not", "truth"):
                    return inner
                return ("op", "truth", inner)
            return s
        if op in ("and", "or"):
            flat = []
            for x in xs:
                if x[0] == "op" and x[1] == op:
                    flat.extend(x[2:])
                else:
                    flat.append(x)
            out = []
            for i, x in enumerate(flat):
                if x[0] == "c":
                    t = bool(x[1])
                    if (op == "and") != t:
                        # and: falsy const short-circuits; or: truthy const short-circuits
                        out.append(x)
                        break
                    if i == len(flat) - 1:
                        out.append(x)
                    continue
                out.append(x)
            if not out:
                return flat[-1]
            if len(out) == 1:
                return out[0]
            return ("op", op) + tuple(out)
        if op == "==" and len(xs) == 2:
            a, b = xs
            if a[0] == "c" and b[0] != "c":
                return OP("==", b, a)
            if a == b and a[0] in ("n", "a"):
                return s
        if op == "is" and len(xs) == 2:
            a, b = xs
            if a[0] == "c" and b[0] != "c":
                return OP("is", b, a)
            if b == ("c", None) and never_none(a):
                return ("c", False)
        if op == "in" and len(xs) == 2:
            a, b = xs
            # x in (single,)  ==  x == single   (for hashable scalar constants)
            if b[0] == "c" and isinstance(b[1], (tuple, frozenset)) and len(b[1]) == 1:
                (only,) = tuple(b[1])
                if isinstance(only, (str, int)) and not isinstance(only, bool):
                    return simplify(OP("==", a, C(only)))
        return s
    if k == "ife":
        t = s[1]
        if t[0] == "c":
            return s[2] if t[1] else s[3]
        if t[0] == "op" and t[1] == "not":
            return ("ife", t[2], s[3], s[2])
        return s
    if k == "sub":
        b, i = s[1], s[2]
        if b[0] == "c" and i[0] == "c":
            try:
                return const_or_name(b[1][i[1]])
            except Exception:
                return s
        if b[0] == "c" and i[0] == "slice" and all(x is None or x[0] == "c" for x in i[1:]):
            try:
                sl = slice(*[None if x is None else x[1] for x in i[1:]])
                return C(b[1][sl])
            except Exception:
                return s
        if b[0] == "dictd" and i[0] == "c" and all(k[0] == "c" for k, _ in b[1]):
            for k, v in b[1]:
                if k[1] == i[1] and type(k[1]) is type(i[1]):
                    return v
            return ("call", N("$KeyError"), (i,), ())
        if b[0] in ("tuple", "list") and i[0] == "c" and isinstance(i[1], int):
            try:
                return b[1][i[1]]
            except Exception:
                return s
    return s


def _fold_op(op: str, v: list) -> Any:
    if op == "not":
        return not v[0]
    if op == "neg":
        return -v[0]
    if op == "pos":
        return +v[0]
    if op == "~":
        return ~v[0]
    if op == "truth":
        return bool(v[0])
    if op == "and":
        r = v[0]
        for x in v[1:]:
            r = r and x
        return r
    if op == "or":
        r = v[0]
        for x in v[1:]:
            r = r or x
        return r
    a, b = v
    if op == "+":
        return a + b
    if op == "-":
        return a - b
    if op == "*":
        return a * b
    if op == "/":
        return a / b
    if op == "//":
        return a // b
    if op == "%":
        if isinstance(a, str):
            raise ValueError
        return a % b
    if op == "**":
        if abs(b) > 256:
            raise ValueError
        return a ** b
    if op == "<<":
        if b > 4096:
            raise ValueError
        return a << b
    if op == ">>":
        return a >> b
    if op == "|":
        return a | b
    if op == "&":
        return a & b
    if op == "^":
        return a ^ b
    if op == "==":
        return a == b
    if op == "<":
        return a < b
    if op == "is":
        if a is None or b is None or isinstance(a, bool) or isinstance(b, bool):
            return a is b
        raise ValueError
    if op == "in":
        return a in b
    raise ValueError(op)
