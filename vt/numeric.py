"""E9 - small numeric domains over symbolic terms.

(b) sign / interval domain: sound over-approximation of integer terms.
(c) division-convention domain for (seconds, nanos) style splits.
"""
from __future__ import annotations

import math
from typing import Callable, Dict, Optional, Tuple

from .sym import C, N, Sym, dotted, show

INF = math.inf
Interval = Tuple[float, float]
TOP: Interval = (-INF, INF)


def _bits(x: float) -> float:
    """smallest k with |x| < 2**k (inf for unbounded)"""
    if x in (INF, -INF):
        return INF
    x = int(abs(x))
    return x.bit_length()


def _span(lo: float, hi: float) -> float:
    if lo == -INF or hi == INF:
        return INF
    return max(_bits(hi), _bits(-lo - 1) if lo < 0 else 0)


def interval(s: Sym, env: Callable[[Sym], Optional[Interval]]) -> Interval:
    """interval of the integer term s; env gives intervals for leaves"""
    r = env(s)
    if r is not None:
        return r
    k = s[0]
    if k == "c":
        v = s[1]
        if isinstance(v, bool):
            return (int(v), int(v))
        if isinstance(v, int):
            return (v, v)
        if isinstance(v, float) and v == int(v):
            return (v, v)
        return TOP
    if k == "ife":
        a = interval(s[2], env)
        b = interval(s[3], env)
        return (min(a[0], b[0]), max(a[1], b[1]))
    if k == "call":
        name = dotted(s[1])
        base = name.split(".")[-1]
        if name in ("int", "abs", "bool", "len") and len(s[2]) == 1:
            a = interval(s[2][0], env)
            if name == "int":
                return a
            if name == "bool":
                return (0, 1)
            if name == "len":
                return (0, INF)
            lo = 0 if a[0] <= 0 <= a[1] else min(abs(a[0]), abs(a[1]))
            return (lo, max(abs(a[0]), abs(a[1])))
        if base == "bit_length" and s[1][0] == "a" and not s[2]:
            a = interval(s[1][1], env)
            if a[0] >= 0 and a[1] != INF:
                return (int(a[0]).bit_length(), int(a[1]).bit_length())
            if a[1] < 0 and a[0] != -INF:
                return (int(-a[1]).bit_length(), int(-a[0]).bit_length())
            return (0, INF)
        if base == "try_value" and len(s[2]) == 1:
            # open enum constructor: the member's number is its argument
            return interval(s[2][0], env)
        return TOP
    if k == "op":
        op = s[1]
        xs = [interval(x, env) for x in s[2:]]
        if op == "neg":
            return (-xs[0][1], -xs[0][0])
        if op == "pos":
            return xs[0]
        if op == "~":
            return (-xs[0][1] - 1, -xs[0][0] - 1)
        if op in ("not", "==", "<", "is", "in", "truth"):
            return (0, 1)
        if op == "or" and xs and (xs[0][0] > 0 or xs[0][1] < 0):
            return xs[0]            # a non-zero first operand is the value of `a or b`
        if len(xs) != 2:
            if op in ("and", "or"):
                return (min(x[0] for x in xs), max(x[1] for x in xs))
            return TOP
        (a, b), (c, d) = xs
        if op == "+":
            return (a + c, b + d)
        if op == "-":
            return (a - d, b - c)
        if op == "*":
            ps = [_mul(x, y) for x in (a, b) for y in (c, d)]
            return (min(ps), max(ps))
        if op == "<<":
            if c < 0 or d == INF:
                return TOP if a < 0 or b == INF else (0 if a >= 0 else -INF, INF)
            return (min(_shl(a, c), _shl(a, d)), max(_shl(b, c), _shl(b, d)))
        if op == ">>":
            if c < 0:
                return TOP
            lo = _shr(a, c if a >= 0 and d == INF else (d if a >= 0 else c))
            # floor shift is monotone in the value; for a fixed value, larger shift moves towards 0 / -1
            cands = [_shr(a, c), _shr(a, d), _shr(b, c), _shr(b, d)]
            return (min(cands), max(cands))
        if op == "&":
            # x & (2**k - 1) on a range inside one 2**k-aligned block is exact
            for (lo, hi), (m0, m1) in (((a, b), (c, d)), ((c, d), (a, b))):
                if m0 == m1 and m0 not in (INF, -INF) and m0 >= 0 and (int(m0) & (int(m0) + 1)) == 0 and lo not in (INF, -INF) and hi not in (INF, -INF):
                    k = int(m0).bit_length()
                    if (int(lo) >> k) == (int(hi) >> k):
                        return (int(lo) & int(m0), int(hi) & int(m0))
            if a >= 0 and c >= 0:
                return (0, min(b, d))
            if c >= 0:
                return (0, d)
            if a >= 0:
                return (0, b)
            k = max(_span(a, b), _span(c, d))
            return (-(2 ** k), 2 ** k - 1) if k != INF else TOP
        if op == "^":
            # x ^ 2**j on a range where bit j is constant is a shift of the range
            for (lo, hi), (m0, m1) in (((a, b), (c, d)), ((c, d), (a, b))):
                if m0 == m1 and m0 not in (INF, -INF) and m0 > 0 and (int(m0) & (int(m0) - 1)) == 0 and lo not in (INF, -INF) and hi not in (INF, -INF):
                    j = int(m0).bit_length() - 1
                    if (int(lo) >> j) == (int(hi) >> j):
                        delta = -int(m0) if (int(lo) >> j) & 1 else int(m0)
                        return (lo + delta, hi + delta)
        if op in ("|", "^"):
            k = max(_span(a, b), _span(c, d))
            if k == INF:
                if a >= 0 and c >= 0:
                    return (0, INF)
                return TOP
            if a >= 0 and c >= 0:
                return (0, 2 ** k - 1)
            return (-(2 ** k), 2 ** k - 1)
        if op == "//":
            if c > 0:
                cands = [_fdiv(a, c), _fdiv(a, d), _fdiv(b, c), _fdiv(b, d)]
                return (min(cands), max(cands))
            return TOP
        if op == "%":
            if c > 0:
                # x % m for a constant m on a range inside one block of length m is exact
                if c == d and a not in (INF, -INF) and b not in (INF, -INF) and int(a) // int(c) == int(b) // int(c):
                    return (int(a) % int(c), int(b) % int(c))
                return (0, d - 1 if d != INF else INF)
            return TOP
        if op == "/":
            if c > 0:
                cands = [_div(a, c), _div(a, d), _div(b, c), _div(b, d)]
                return (min(cands), max(cands))
            return TOP
        if op in ("and", "or"):
            return (min(a, c), max(b, d))
    return TOP


def _mul(x: float, y: float) -> float:
    if x == 0 or y == 0:
        return 0
    return x * y


def _shl(x: float, n: float) -> float:
    if x in (INF, -INF):
        return x
    if n == INF:
        return INF if x > 0 else (-INF if x < 0 else 0)
    return int(x) << int(n)


def _shr(x: float, n: float) -> float:
    if x in (INF, -INF):
        return x
    if n == INF:
        return 0 if x >= 0 else -1
    return int(x) >> int(n)


def _fdiv(x: float, y: float) -> float:
    if x in (INF, -INF):
        return x
    if y == INF:
        return 0 if x >= 0 else -1
    return int(x) // int(y)


def _div(x: float, y: float) -> float:
    if x in (INF, -INF):
        return x
    if y == INF:
        return 0
    return x / y
