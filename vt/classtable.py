"""Class tables read from source (no import): attributes, properties, methods,
annotations and bases of the plugin model classes and the bundled descriptor
classes; used to type template attribute paths (P1)."""
from __future__ import annotations

import ast
import re
from dataclasses import dataclass, field
from typing import Dict, List, Optional, Set, Tuple

from .src import Module, Repo


@dataclass
class ClassInfo:
    name: str
    module: str
    bases: List[str]
    attrs: Dict[str, str] = field(default_factory=dict)        # annotated attributes -> annotation text
    props: Dict[str, str] = field(default_factory=dict)        # properties -> return annotation text ('' if none)
    methods: Dict[str, ast.FunctionDef] = field(default_factory=dict)
    node: Optional[ast.ClassDef] = None


class ClassTable:
    def __init__(self) -> None:
        self.classes: Dict[str, ClassInfo] = {}

    def add_module(self, mod: Module) -> None:
        def visit(body, prefix=""):
            for st in body:
                if isinstance(st, ast.ClassDef):
                    ci = ClassInfo(prefix + st.name, mod.rel, [ast.unparse(b) for b in st.bases], node=st)
                    for b in st.body:
                        if isinstance(b, ast.AnnAssign) and isinstance(b.target, ast.Name):
                            ci.attrs[b.target.id] = ast.unparse(b.annotation)
                        elif isinstance(b, ast.Assign):
                            for t in b.targets:
                                if isinstance(t, ast.Name):
                                    ci.attrs.setdefault(t.id, "")
                        elif isinstance(b, (ast.FunctionDef, ast.AsyncFunctionDef)):
                            decos = [ast.unparse(d) for d in b.decorator_list]
                            if "property" in decos or any(d.endswith("classproperty") for d in decos):
                                ci.props[b.name] = ast.unparse(b.returns) if b.returns is not None else ""
                            else:
                                ci.methods[b.name] = b  # type: ignore[assignment]
                    # keep the first definition (std lib) when names clash across modules
                    self.classes.setdefault(ci.name, ci)
                    visit(st.body, prefix + st.name + ".")
                elif isinstance(st, ast.If):
                    visit(st.body, prefix)
                    visit(st.orelse, prefix)
        visit(mod.tree.body)

    def mro(self, name: str) -> List[ClassInfo]:
        out: List[ClassInfo] = []
        seen: Set[str] = set()

        def go(n: str) -> None:
            n = n.split(".")[-1] if n not in self.classes else n
            if n in seen or n not in self.classes:
                return
            seen.add(n)
            ci = self.classes[n]
            out.append(ci)
            for b in ci.bases:
                go(b)
        go(name)
        return out

    def subclasses(self, name: str) -> List[str]:
        out = []
        for c in self.classes.values():
            if c.name != name and any(x.name == name for x in self.mro(c.name)):
                out.append(c.name)
        return out

    def lookup(self, cls: str, attr: str) -> Optional[Tuple[str, str, Optional[ast.FunctionDef]]]:
        """-> (kind attr|prop|method, type text, FunctionDef)"""
        for ci in self.mro(cls):
            if attr in ci.props:
                return ("prop", ci.props[attr], None)
            if attr in ci.attrs:
                return ("attr", ci.attrs[attr], None)
            if attr in ci.methods:
                fn = ci.methods[attr]
                return ("method", ast.unparse(fn.returns) if fn.returns is not None else "", fn)
        return None


_BUILTIN = {"str": str, "bool": bool, "int": int, "float": float, "bytes": bytes, "list": list, "dict": dict, "set": set}


def type_candidates(ann: str) -> Tuple[List[str], bool]:
    """annotation text -> (candidate class names, is_container).  For containers the
    candidates are the element types."""
    ann = ann.strip().strip('"').strip("'")
    m = re.match(r"^(?:typing\.)?(List|Set|Iterable|Iterator|Sequence|Tuple|FrozenSet|list|set)\[(.*)\]$", ann)
    if m:
        inner, _ = type_candidates(m.group(2))
        return inner, True
    m = re.match(r"^(?:typing\.)?Dict\[(.*)\]$", ann)
    if m:
        return ["dict"], False
    m = re.match(r"^(?:typing\.)?Optional\[(.*)\]$", ann)
    if m:
        return type_candidates(m.group(1))
    m = re.match(r"^(?:typing\.)?Union\[(.*)\]$", ann)
    if m:
        out: List[str] = []
        for part in _split_top(m.group(1)):
            c, _ = type_candidates(part)
            out.extend(c)
        return out, False
    if "|" in ann:
        out = []
        for part in ann.split("|"):
            c, _ = type_candidates(part)
            out.extend(c)
        return out, False
    return [ann.strip().strip('"').strip("'")], False


def _split_top(s: str) -> List[str]:
    out, depth, cur = [], 0, ""
    for ch in s:
        if ch == "[":
            depth += 1
        if ch == "]":
            depth -= 1
        if ch == "," and depth == 0:
            out.append(cur)
            cur = ""
        else:
            cur += ch
    if cur.strip():
        out.append(cur)
    return out


def builtin_has(tname: str, attr: str) -> Optional[bool]:
    if tname in _BUILTIN:
        return hasattr(_BUILTIN[tname], attr)
    return None
