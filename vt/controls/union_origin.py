"""positive control for Y10: must be flagged on every run (a dispatch on typing.Union that misses PEP 604 unions)"""
from typing import Union, get_args, get_origin


def enum_class_of(hint):
    if get_origin(hint) is Union:
        return get_args(hint)[0]
    return hint


def fine(hint):
    import types
    if get_origin(hint) in (Union, types.UnionType):
        return get_args(hint)[0]
    return hint
