"""Positive control for the who-may-write rule (O1): this module must be flagged
on every run; it is never imported."""


class Rogue:
    def poke(self, m, name):
        m._group_current["g"] = name          # writer outside Message.__setattr__
        m.__dict__["_serialized_on_wire"] = False
        object.__setattr__(m, name, 1)        # raw field store
