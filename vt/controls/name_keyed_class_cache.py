"""positive control for X12: must be flagged on every run (a module-level table of classes keyed by the bare __name__ of a class:
two classes of the same name from different packages share one entry)"""
from typing import Dict, Tuple

_ENTRY_CLASSES: Dict[Tuple[str, str], type] = {}
_BY_CLASS: Dict[type, type] = {}


def entry_class_lossy(key_type, value_cls, make):
    key = (key_type, value_cls.__name__)
    found = _ENTRY_CLASSES.get(key)
    if found is None:
        found = _ENTRY_CLASSES[key] = make(value_cls)
    return found


def entry_class_fine(value_cls, make):
    found = _BY_CLASS.get(value_cls)
    if found is None:
        found = _BY_CLASS[value_cls] = make(value_cls)
    return found
