"""positive control for O7: must be flagged on every run (groupby over an input that is not sorted by the grouping key keeps
only the last run of each key once the runs are put into a dict)"""
from itertools import groupby


def members_by_group_lossy(fields, group_of):
    return {g: set(ms) for g, ms in groupby((f for f in fields if group_of(f)), key=group_of)}


def members_by_group_fine(fields, group_of):
    return {g: set(ms) for g, ms in groupby(sorted((f for f in fields if group_of(f)), key=group_of), key=group_of)}


def runs_fine(fields, group_of):
    # consecutive runs kept as a list: nothing is overwritten
    return [(g, list(ms)) for g, ms in groupby(fields, key=group_of)]
