"""E4 - sibling comparison of a writer and a sizer through their E2 summaries."""
from __future__ import annotations

from dataclasses import dataclass
from typing import Any, Callable, Dict, List, Optional, Tuple

from .absint import Path
from .fieldloop import common_core, compatible, val_text
from .lenalg import L, L_value, heads, show_len, size_term, sizer_call, SIZERS, _sum
from .sym import N, Sym, dotted, show


@dataclass
class Summary:
    valuation: Dict[Sym, bool]
    outcome: str            # normal | raise:<Exc>
    total: Sym              # canonical length term
    line: int = 0


def _mentions_size(t: Any) -> bool:
    if isinstance(t, tuple) and t:
        if t[0] == "call" and (dotted(t[1]) in SIZERS or dotted(t[1]) == "len"):
            return True
        return any(_mentions_size(x) for x in t[1:] if isinstance(x, tuple))
    return False


def canon_atom(atom: Sym) -> Sym:
    """atoms that talk about lengths are mapped to the sizer vocabulary"""
    if (atom[0] == "acc" or (atom[0] == "op" and atom[1] == "+")) and _mentions_size(atom):
        # the truth of a sum of sizes (a payload size added up by hand)
        return ("truthy-len", size_term(atom))
    if atom[0] == "call":
        name = dotted(atom[1])
        if name == "len" and len(atom[2]) == 1:
            t = L(atom[2][0])
            return ("truthy-len", t)
        if name in SIZERS:
            return ("truthy-len", _sum([sizer_call(name, atom[2], atom[3])]))
    return atom


def canon_val(v: Dict[Sym, bool]) -> Dict[Sym, bool]:
    return {canon_atom(k): b for k, b in v.items()}


def outcome_class(p: Path) -> str:
    if p.outcome == "raise":
        v = p.value
        name = ""
        if v is not None:
            name = dotted(v[1]) if v[0] == "call" else dotted(v)
        return f"raise:{name}"
    return "normal"


def acc_wrap(loops: Tuple[Any, ...], t: Sym) -> Sym:
    for it in reversed(loops):
        t = _sum([("acc", it, t)])
    return t


def compare(writer: List[Summary], sizer: List[Summary]):
    """-> (n_pairs, definite, undecided) where each of the last two is a list of
    (merged valuation, writer summary, sizer summary)"""
    n = 0
    definite = []
    undecided = []
    for w in writer:
        for s in sizer:
            m = compatible(w.valuation, s.valuation)
            if m is None:
                continue
            n += 1
            if w.outcome != s.outcome:
                definite.append((m, w, s))
                continue
            if w.outcome != "normal":
                continue
            wt, st = _under(m, w.total), _under(m, s.total)
            if wt == st:
                continue
            if heads(wt) != heads(st):
                definite.append((m, w, s))
            else:
                verdict = _arith_verdict(wt, st)
                if verdict == "equal":
                    continue
                if verdict == "differ":
                    definite.append((m, w, s))
                else:
                    undecided.append((m, w, s))
    return n, definite, undecided


def _first_difference(a: Any, b: Any):
    """parallel walk of two terms of the same shape: the first pair of differing sub-terms"""
    if a == b:
        return None
    if isinstance(a, tuple) and isinstance(b, tuple) and len(a) == len(b) and a and b and a[0] == b[0] and isinstance(a[0], str) \
            and a[0] not in ("op", "ife", "c", "n"):
        for x, y in zip(a[1:], b[1:]):
            d = _first_difference(x, y)
            if d is not None:
                return d
        return None
    if isinstance(a, tuple) and isinstance(b, tuple) and len(a) == len(b) and (not a or not isinstance(a[0], str)):
        for x, y in zip(a, b):
            d = _first_difference(x, y)
            if d is not None:
                return d
        return None
    return a, b


def _arith_verdict(wt: Sym, st: Sym) -> str:
    """same callee skeleton, different integer arithmetic: decide with linear normal forms per sign case.
    Lemma used for 'differ': size_varint / varint length of two linear functions of the same variable that differ
    by a non-zero constant or in slope differs for some value (at a 7-bit boundary)."""
    from .linarith import compare as lcompare, free_vars

    d = _first_difference(wt, st)
    if d is None:
        return "equal"
    a, b = d
    if not (isinstance(a, tuple) and isinstance(b, tuple)):
        return "unknown"
    va, vb = free_vars(a), free_vars(b)
    common = [v for v in va if v in vb]
    if len(common) != 1 or len(va) != 1 or len(vb) != 1:
        return "unknown"
    verdict, _ = lcompare(a, b, common[0])
    return verdict


# proto types written length-delimited (set by the rule that owns the source model); enables the conditional unfolding below
LEN_DELIM_TYPES: Optional[set] = None


def _unfold_len_single(val: Dict[Sym, bool], t: Any) -> Any:
    """`_len_single(n, <const length-delimited type>, V, serialize_empty=False, wraps=<const>)` is 0 when its payload is empty
    and tag + size_varint(payload) + payload otherwise: under a valuation that decides the truth of that payload size the call
    is replaced by the branch taken (the sibling may spell the branch out instead of calling the helper)"""
    if not isinstance(t, tuple) or not t:
        return t
    if t[0] == "sum":
        parts: List[Sym] = []
        for x in t[1]:
            y = _unfold_len_single(val, x)
            if isinstance(y, tuple) and y and y[0] == "sum":
                parts.extend(y[1])
            else:
                parts.append(y)
        return _sum(parts)
    if t[0] == "acc":
        return ("acc", t[1], _unfold_len_single(val, t[2]))
    if t[0] == "call" and t[1] == N("_len_single") and len(t[2]) == 3 and LEN_DELIM_TYPES is not None:
        kw = dict(t[3])
        ty, se, wr = t[2][1], kw.get("serialize_empty", ("c", False)), kw.get("wraps", ("c", ""))
        if ty[0] == "c" and ty[1] in LEN_DELIM_TYPES and se == ("c", False) and wr[0] == "c":
            payload_int: Sym = ("call", N("len"), (t[2][2],), ()) if ty[1] == "bytes" and not wr[1] else ("call", N("_len_preprocessed_single"), (ty, wr, t[2][2]), ())
            P = size_term(payload_int)
            truth = True if wr[1] else val.get(("truthy-len", P))
            if truth is False:
                return _sum([])
            if truth is True:
                key = ("op", "|", ("op", "<<", t[2][0], ("c", 3)), ("c", 2))
                return size_term(("op", "+", ("call", N("size_varint"), (key,), ()), ("call", N("size_varint"), (payload_int,), ()), payload_int))
    return t


def _under(val: Dict[Sym, bool], total: Sym) -> Sym:
    """length terms known to be zero under the valuation are dropped"""
    total = _unfold_len_single(val, total)
    zero = []
    for k, b in val.items():
        if not b and isinstance(k, tuple) and k and k[0] == "truthy-len":
            zero.extend(k[1][1])
    if not zero or total[0] != "sum":
        return total
    return ("sum", tuple(x for x in total[1] if x not in zero))


def report(ctx, rule: str, construct: str, loc: str, writer: List[Summary], sizer: List[Summary],
           suggested: str = "") -> None:
    n, definite, undecided = compare(writer, sizer)
    ctx.count(n)
    if definite:
        core = common_core([m for m, _, _ in definite])
        m, w, s = definite[0]
        ctx.refuted(
            rule, construct, val_text(core), loc,
            f"{len(definite)} divergent path pairs of {n}; e.g. under {val_text(m)}: "
            f"writer[{w.outcome}] = {show_len(w.total)} (line {w.line}) but sizer[{s.outcome}] = {show_len(s.total)} (line {s.line})",
            suggested,
        )
    elif undecided:
        m, w, s = undecided[0]
        ctx.inconclusive(rule, construct,
                         f"same callee skeleton but different arithmetic under {val_text(m)}: {show_len(w.total)} vs {show_len(s.total)}", loc)
    else:
        ctx.proved(rule, construct, loc, f"{n} compatible path pairs agree")
