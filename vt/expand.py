"""AST-level expansion of helper calls (E1b).

Rules address functions by the names the repository gives them (vt/known_units.json lists every function and method of the
tree the rules were written against).  A refactor that moves part of such a function into a *new* helper must not change
what a rule sees, so `Module.func()` hands out the function with calls to helpers that are not known units expanded in
place.  Only shapes whose expansion is exactly behaviour preserving are expanded:

    return [await] H(args)          -> prologue; body of H                       (any returns of H are returns of the caller)
    x = [await] H(args)             -> prologue; body of H without its final `return e`; x = e
    [await] H(args)                 -> prologue; body of H without its final return
    with H(args):  / for .. in H(): -> untouched (E2 handles generators and context managers itself)

where H is `self.h` / `cls.h` / `Class.h` (a method of the class the function belongs to) or `h` (a function of the same
module), H is not a generator, has no *args/**kwargs, no decorator other than staticmethod/classmethod, and - for the
second and third shape - returns only in its last statement.  Parameters are bound by a prologue `p = arg`, or
substituted when the argument is a plain name / attribute chain / constant and H never rebinds the parameter.  Locals of H
that clash with names of the caller are renamed.  Everything else is left as a call (E2 may still inline it when it
evaluates the expression).
"""
from __future__ import annotations

import ast
import copy
from typing import Dict, List, Optional, Set, Tuple

MAX_ROUNDS = 4


def _known(rel: str) -> Set[str]:
    from .absint import _known_units
    return _known_units().get(rel, set())


def _call_of(value: ast.AST) -> Tuple[Optional[ast.Call], bool]:
    if isinstance(value, ast.Await) and isinstance(value.value, ast.Call):
        return value.value, True
    if isinstance(value, ast.Call):
        return value, False
    return None, False


def _simple(e: ast.AST) -> bool:
    if isinstance(e, (ast.Name, ast.Constant)):
        return True
    if isinstance(e, ast.Attribute):
        return _simple(e.value)
    return False


class _Subst(ast.NodeTransformer):
    def __init__(self, names: Dict[str, ast.AST], renames: Dict[str, str]):
        self.names = names
        self.renames = renames

    def visit_Name(self, n: ast.Name):
        if n.id in self.names and isinstance(n.ctx, ast.Load):
            return ast.copy_location(copy.deepcopy(self.names[n.id]), n)
        if n.id in self.renames:
            return ast.copy_location(ast.Name(self.renames[n.id], n.ctx), n)
        return n

    def visit_Lambda(self, n: ast.Lambda):
        shadow = {a.arg for a in n.args.args + n.args.kwonlyargs + n.args.posonlyargs}
        inner = _Subst({k: v for k, v in self.names.items() if k not in shadow}, {k: v for k, v in self.renames.items() if k not in shadow})
        n.body = inner.visit(n.body)
        return n


def _assigned_names(fn: ast.AST) -> Set[str]:
    out: Set[str] = set()
    for n in ast.walk(fn):
        if isinstance(n, ast.Name) and isinstance(n.ctx, (ast.Store, ast.Del)):
            out.add(n.id)
        elif isinstance(n, ast.ExceptHandler) and n.name:
            out.add(n.name)
        elif isinstance(n, (ast.FunctionDef, ast.AsyncFunctionDef, ast.ClassDef)) and n is not fn:
            out.add(n.name)
    return out


def _dict_update_as_stores(st: ast.stmt) -> Optional[List[ast.stmt]]:
    """`X.__dict__.update(a=v, b=w)` (keywords only) is `X.__dict__["a"] = v; X.__dict__["b"] = w`"""
    if not (isinstance(st, ast.Expr) and isinstance(st.value, ast.Call)):
        return None
    c = st.value
    f = c.func
    if not (isinstance(f, ast.Attribute) and f.attr == "update" and isinstance(f.value, ast.Attribute) and f.value.attr == "__dict__" and _simple(f.value.value)):
        return None
    if c.args or not c.keywords or any(k.arg is None for k in c.keywords):
        return None
    if any(isinstance(n, ast.Attribute) and n.attr == "__dict__" for k in c.keywords for n in ast.walk(k.value)):
        return None
    if len(c.keywords) > 1 and any(isinstance(n, (ast.Call, ast.Await)) for k in c.keywords[1:] for n in ast.walk(k.value)):
        # later values are evaluated before the first store: only reorder side-effect-free ones
        return None
    out: List[ast.stmt] = []
    for k in c.keywords:
        tgt = ast.Subscript(copy.deepcopy(f.value), ast.Constant(k.arg), ast.Store())
        a = ast.copy_location(ast.Assign([tgt], k.value), st)
        ast.fix_missing_locations(a)
        out.append(a)
    return out


def _iter_sentinel_loop(st: ast.stmt) -> Optional[List[ast.stmt]]:
    """`for x in iter(F, S): BODY` (two-argument iter) is `while True: x = F(); if x == S: break; BODY`; a parameterless
    lambda F is called by writing its body"""
    if not (isinstance(st, ast.For) and not st.orelse and isinstance(st.iter, ast.Call) and isinstance(st.iter.func, ast.Name) and st.iter.func.id == "iter"
            and len(st.iter.args) == 2 and not st.iter.keywords and isinstance(st.target, ast.Name)):
        return None
    f, sentinel = st.iter.args
    if isinstance(f, ast.Lambda) and not (f.args.args or f.args.vararg or f.args.kwarg or f.args.kwonlyargs or f.args.posonlyargs):
        call: ast.AST = copy.deepcopy(f.body)
    elif _simple(f):
        call = ast.Call(copy.deepcopy(f), [], [])
    else:
        return None
    if not isinstance(sentinel, ast.Constant):
        return None
    get = ast.copy_location(ast.Assign([ast.Name(st.target.id, ast.Store())], call), st)
    if isinstance(sentinel.value, (bytes, str)) and len(sentinel.value) == 0 and isinstance(call, ast.Call) and isinstance(call.func, ast.Attribute) and call.func.attr in ("read", "read1", "recv", "readline"):
        # a read returns bytes / str: equal to the empty constant exactly when it is empty
        test: ast.AST = ast.UnaryOp(ast.Not(), ast.Name(st.target.id, ast.Load()))
    else:
        test = ast.Compare(ast.Name(st.target.id, ast.Load()), [ast.Eq()], [copy.deepcopy(sentinel)])
    stop = ast.copy_location(ast.If(test, [ast.copy_location(ast.Break(), st)], []), st)
    loop = ast.copy_location(ast.While(ast.Constant(True), [get, stop] + list(st.body), []), st)
    ast.fix_missing_locations(loop)
    return [loop]


def _structure_early_returns(body: List[ast.stmt], target: Optional[ast.AST] = None) -> Optional[List[ast.stmt]]:
    """a statement list in which `return`s end `if` branches (`if c: A; return` followed by REST) rewritten without
    returns: `if c: A` / `else: REST`.  None when a return sits anywhere else (in a loop, try, with).  Returned values are
    dropped when they are None; with a `target` every `return X` becomes `target = X` (falling off the end: `target = None`)."""
    def ends_in_return(stmts: List[ast.stmt]) -> bool:
        return bool(stmts) and isinstance(stmts[-1], ast.Return)

    def rec(stmts: List[ast.stmt], top: bool = False) -> Optional[List[ast.stmt]]:
        out: List[ast.stmt] = []
        for i, st in enumerate(stmts):
            if isinstance(st, ast.Return):
                if target is not None:
                    out.append(ast.copy_location(ast.Assign([copy.deepcopy(target)], copy.deepcopy(st.value) if st.value is not None else ast.Constant(None)), st))
                    return out
                if st.value is not None and not (isinstance(st.value, ast.Constant) and st.value.value is None):
                    return None
                return out              # what follows is dead
            if isinstance(st, ast.If) and any(isinstance(x, ast.Return) for x in ast.walk(st)):
                body_ret, else_ret = ends_in_return(st.body), ends_in_return(st.orelse)
                rest = stmts[i + 1:]
                b = rec(list(st.body))
                e = rec(list(st.orelse))
                if b is None or e is None:
                    return None
                # the part of the function after the `if` belongs to the branches that did not return
                r = rec(copy.deepcopy(rest)) if rest else []
                if r is None:
                    return None
                # a branch that ended in return gets nothing appended; a branch that did not gets REST
                nb = b if body_ret else b + copy.deepcopy(r)
                ne = e if else_ret else e + copy.deepcopy(r)
                if not body_ret and _has_return_inside(st.body):
                    return None         # a nested early return inside a branch that also falls through: not handled
                if not else_ret and _has_return_inside(st.orelse):
                    return None
                new_if = ast.copy_location(ast.If(st.test, nb or [ast.copy_location(ast.Pass(), st)], ne), st)
                out.append(new_if)
                return out
            if any(isinstance(x, ast.Return) for x in ast.walk(st)) and not isinstance(st, (ast.FunctionDef, ast.AsyncFunctionDef, ast.ClassDef)):
                return None
            out.append(st)
        if target is not None and top and not (stmts and isinstance(stmts[-1], ast.Raise)):
            out.append(ast.Assign([copy.deepcopy(target)], ast.Constant(None)))
        return out

    res = rec(list(body), True)
    if res is not None:
        for x in res:
            ast.fix_missing_locations(ast.copy_location(x, body[0]) if not hasattr(x, "lineno") else x)
    return res


def _has_return_inside(stmts: List[ast.stmt]) -> bool:
    return any(isinstance(x, ast.Return) for s_ in stmts for x in ast.walk(s_))


def _local_callables(fn: ast.AST) -> Dict[str, ast.AST]:
    """locals of `fn` that are bound exactly once, to a nested def, a lambda, or (transitively) to another such local"""
    binds: Dict[str, List[ast.AST]] = {}
    for n in ast.walk(fn):
        if n is fn:
            continue
        if isinstance(n, (ast.FunctionDef, ast.AsyncFunctionDef, ast.ClassDef)):
            binds.setdefault(n.name, []).append(n)
        elif isinstance(n, ast.Name) and isinstance(n.ctx, (ast.Store, ast.Del)):
            binds.setdefault(n.id, []).append(n)
        elif isinstance(n, ast.arg):
            binds.setdefault(n.arg, []).append(n)
    direct: Dict[str, ast.AST] = {}
    alias: Dict[str, str] = {}
    # only statements of fn itself (not of nested defs) define its locals
    def own_stmts(stmts):
        for st in stmts:
            yield st
            if isinstance(st, (ast.FunctionDef, ast.AsyncFunctionDef, ast.ClassDef)):
                continue
            for fld in ("body", "orelse", "finalbody"):
                sub = getattr(st, fld, None)
                if isinstance(sub, list) and sub and isinstance(sub[0], ast.stmt):
                    yield from own_stmts(sub)
            if isinstance(st, ast.Try):
                for h in st.handlers:
                    yield from own_stmts(h.body)
    for st in own_stmts(fn.body):
        if isinstance(st, (ast.FunctionDef, ast.AsyncFunctionDef)) and len(binds.get(st.name, [])) == 1:
            direct[st.name] = st
        elif isinstance(st, ast.Assign) and len(st.targets) == 1 and isinstance(st.targets[0], ast.Name) and len(binds.get(st.targets[0].id, [])) == 1:
            if isinstance(st.value, ast.Lambda):
                direct[st.targets[0].id] = st.value
            elif isinstance(st.value, ast.Name):
                alias[st.targets[0].id] = st.value.id
    out = dict(direct)
    for a in alias:
        seen = set()
        b = a
        while b in alias and b not in seen:
            seen.add(b)
            b = alias[b]
        if b in direct:
            out[a] = direct[b]
    return out


class _ApplyLambdas(ast.NodeTransformer):
    """f(a, b) with the local f bound once to `lambda x, y: E` and plain arguments is E[x := a, y := b]"""
    def __init__(self, table: Dict[str, ast.AST]):
        self.table = table
        self.changed = False

    def visit_FunctionDef(self, n):
        return n

    visit_AsyncFunctionDef = visit_FunctionDef
    visit_ClassDef = visit_FunctionDef

    def visit_Call(self, n: ast.Call):
        self.generic_visit(n)
        lam = self.table.get(n.func.id) if isinstance(n.func, ast.Name) else None
        if not isinstance(lam, ast.Lambda) or n.keywords or any(isinstance(a, ast.Starred) for a in n.args):
            return n
        a = lam.args
        params = [x.arg for x in a.posonlyargs + a.args]
        if a.vararg or a.kwarg or a.kwonlyargs or a.defaults or len(params) != len(n.args) or not all(_simple(x) for x in n.args):
            return n
        if any(isinstance(x, (ast.Lambda, ast.NamedExpr, ast.ListComp, ast.SetComp, ast.DictComp, ast.GeneratorExp)) for x in ast.walk(lam.body)):
            return n
        self.changed = True
        return ast.copy_location(_Subst(dict(zip(params, n.args)), {}).visit(copy.deepcopy(lam.body)), n)


class _ApplyExprHelpers(ast.NodeTransformer):
    """a call, anywhere inside an expression, of a helper that is not a unit known to the rules and whose body is one
    expression (`return E`, or if / return chains = a conditional expression), with plain arguments: E over the arguments"""
    def __init__(self, exp: "Expander", cls: Optional[str], stack: Tuple[str, ...]):
        self.exp, self.cls, self.stack = exp, cls, stack
        self.changed = False

    def visit_FunctionDef(self, n):
        return n

    visit_AsyncFunctionDef = visit_FunctionDef
    visit_ClassDef = visit_FunctionDef
    visit_Lambda = visit_FunctionDef

    # only where the result is consumed by a test (an operand of a comparison / `not` / and-or): there no statement-level
    # expansion reaches the call, and the rules read the test.  Calls whose result is data stay calls (E2 follows those).
    def visit_Compare(self, n: ast.Compare):
        self.generic_visit(n)
        n.left = self._try(n.left)
        n.comparators = [self._try(c) for c in n.comparators]
        return n

    def visit_BoolOp(self, n: ast.BoolOp):
        self.generic_visit(n)
        n.values = [self._try(v) for v in n.values]
        return n

    def visit_UnaryOp(self, n: ast.UnaryOp):
        self.generic_visit(n)
        if isinstance(n.op, ast.Not):
            n.operand = self._try(n.operand)
        return n

    def _try(self, n: ast.AST):
        if not isinstance(n, ast.Call):
            return n
        r = self.exp._resolve(n, self.cls, False, self.stack)
        if not r:
            return n
        _, h, binding = r
        if not all(_simple(v) for v in binding.values()) or not isinstance(h, ast.FunctionDef):
            return n
        bare = copy.copy(h)
        bare.decorator_list = []
        lam = _local_def_as_lambda(bare)
        if lam is None:
            return n
        body = lam[0].value.body
        if any(isinstance(x, (ast.Lambda, ast.NamedExpr, ast.ListComp, ast.SetComp, ast.DictComp, ast.GeneratorExp, ast.Await, ast.Yield)) for x in ast.walk(body)):
            return n
        if sum(1 for x in ast.walk(body) if isinstance(x, ast.IfExp)) > 1:
            return n        # a helper with several cases stays a call: E2 follows it path by path where a rule needs that
        free = {x.id for x in ast.walk(body) if isinstance(x, ast.Name)} - set(binding)
        if any(f in getattr(self.exp, "_caller_locals", set()) for f in free):
            return n        # a global of the helper that the caller shadows with a local
        self.changed = True
        return ast.copy_location(_Subst(binding, {}).visit(copy.deepcopy(body)), n)


def fuse_comprehension_loops(fn: ast.AST) -> bool:
    """`P = (ELT for .. in .. if ..)` (generator expression or list comprehension bound once to a local that is used nowhere
    else) followed by `for TGT in P: BODY` (no else, no break that leaves it) is the comprehension's own loop nest with
    `TGT = ELT; BODY` inside - provided BODY assigns nothing the comprehension reads.  Rewrites `fn` in place."""
    changed = False
    uses: Dict[str, List[ast.Name]] = {}
    for n in ast.walk(fn):
        if isinstance(n, ast.Name):
            uses.setdefault(n.id, []).append(n)

    def blocks(node):
        for fld in ("body", "orelse", "finalbody"):
            sub = getattr(node, fld, None)
            if isinstance(sub, list) and sub and isinstance(sub[0], ast.stmt):
                yield sub
        if isinstance(node, ast.Try):
            for h in node.handlers:
                yield h.body

    def leaves_loop(body) -> bool:
        def walk_(stmts, depth):
            for st in stmts:
                if isinstance(st, ast.Break) and depth == 0:
                    return True
                if isinstance(st, (ast.FunctionDef, ast.AsyncFunctionDef, ast.ClassDef)):
                    continue
                d2 = depth + 1 if isinstance(st, (ast.For, ast.While, ast.AsyncFor)) else depth
                for b in blocks(st):
                    if walk_(b, d2 if b is getattr(st, "body", None) else depth):
                        return True
            return False
        return walk_(body, 0)

    def visit(block: List[ast.stmt]) -> None:
        nonlocal changed
        i = 0
        while i < len(block):
            st = block[i]
            if isinstance(st, ast.For) and not st.orelse and isinstance(st.iter, ast.Name) and len(uses.get(st.iter.id, [])) == 2:
                nm = st.iter.id
                j = next((k for k in range(i - 1, -1, -1) if isinstance(block[k], ast.Assign) and len(block[k].targets) == 1 and isinstance(block[k].targets[0], ast.Name)
                          and block[k].targets[0].id == nm), None)
                comp = block[j].value if j is not None else None
                if isinstance(comp, (ast.GeneratorExp, ast.ListComp)) and not any(g.is_async for g in comp.generators) and not leaves_loop(st.body):
                    reads = {x.id for x in ast.walk(comp) if isinstance(x, ast.Name) and isinstance(x.ctx, ast.Load)}
                    comp_targets = {x.id for g in comp.generators for x in ast.walk(g.target) if isinstance(x, ast.Name)}
                    between = block[j + 1:i]
                    writes = {x.id for b in [st.body, between] for s_ in b for x in ast.walk(s_) if isinstance(x, ast.Name) and isinstance(x.ctx, (ast.Store, ast.Del))}
                    writes |= {x.id for x in ast.walk(st.target) if isinstance(x, ast.Name)}
                    mutated = {c.func.value.id for b in [st.body, between] for s_ in b for c in ast.walk(s_) if isinstance(c, ast.Call) and isinstance(c.func, ast.Attribute)
                               and isinstance(c.func.value, ast.Name)} | {x.value.id for b in [st.body, between] for s_ in b for x in ast.walk(s_)
                                                                            if isinstance(x, ast.Subscript) and isinstance(x.ctx, (ast.Store, ast.Del)) and isinstance(x.value, ast.Name)}
                    def effectful(stmts) -> bool:
                        return any(isinstance(x, (ast.Call, ast.Await, ast.Yield, ast.YieldFrom)) or
                                   (isinstance(x, (ast.Attribute, ast.Subscript)) and isinstance(x.ctx, (ast.Store, ast.Del))) for s_ in stmts for x in ast.walk(s_))
                    # a generator expression is lazy (its elements are produced between the iterations of the loop anyway); only
                    # what runs between its creation and the loop could change what its first iterable evaluates to.  A list
                    # comprehension is complete before the loop starts: fusing is exact only when the loop body has no effects
                    if effectful(between) or (isinstance(comp, ast.ListComp) and effectful(st.body)):
                        i += 1
                        continue
                    if not (reads - comp_targets) & (writes | mutated) and not (comp_targets & {x.id for s_ in st.body for x in ast.walk(s_) if isinstance(x, ast.Name)} - reads):
                        inner: List[ast.stmt] = [ast.copy_location(ast.Assign([copy.deepcopy(st.target)], copy.deepcopy(comp.elt)), st)] + list(st.body)
                        for g in reversed(comp.generators):
                            for cond in reversed(g.ifs):
                                inner = [ast.copy_location(ast.If(copy.deepcopy(cond), inner, []), st)]
                            inner = [ast.copy_location(ast.For(copy.deepcopy(g.target), copy.deepcopy(g.iter), inner, []), st)]
                        for x in inner:
                            ast.fix_missing_locations(x)
                        block[i:i + 1] = inner
                        del block[j]
                        changed = True
                        i = j
                        continue
            for b in blocks(st):
                if not isinstance(st, (ast.FunctionDef, ast.AsyncFunctionDef, ast.ClassDef)):
                    visit(b)
            i += 1

    visit(fn.body)
    return changed


def _walrus_loop(st: ast.stmt) -> Optional[List[ast.stmt]]:
    """`while (x := E) [op K]: BODY` (no else) is `while True: x = E; if not (x [op K]): break; BODY`"""
    if not (isinstance(st, ast.While) and not st.orelse):
        return None
    t = st.test
    if isinstance(t, ast.NamedExpr) and isinstance(t.target, ast.Name):
        ne, cond = t, ast.Name(t.target.id, ast.Load())
    elif isinstance(t, ast.Compare) and isinstance(t.left, ast.NamedExpr) and isinstance(t.left.target, ast.Name) and len(t.ops) == 1 \
            and not any(isinstance(x, ast.NamedExpr) for c in t.comparators for x in ast.walk(c)):
        ne = t.left
        cond = ast.Compare(ast.Name(ne.target.id, ast.Load()), t.ops, [copy.deepcopy(c) for c in t.comparators])
    else:
        return None
    if any(isinstance(x, ast.NamedExpr) for x in ast.walk(ne.value)):
        return None
    get = ast.copy_location(ast.Assign([ast.Name(ne.target.id, ast.Store())], copy.deepcopy(ne.value)), st)
    stop = ast.copy_location(ast.If(ast.UnaryOp(ast.Not(), cond), [ast.copy_location(ast.Break(), st)], []), st)
    loop = ast.copy_location(ast.While(ast.Constant(True), [get, stop] + list(st.body), []), st)
    ast.fix_missing_locations(loop)
    return [loop]


def _local_def_as_lambda(st: ast.stmt) -> Optional[List[ast.stmt]]:
    """a nested `def f(a, b): return EXPR` (plain parameters, no decorators) is `f = lambda a, b: EXPR`"""
    if not (isinstance(st, ast.FunctionDef) and not st.decorator_list):
        return None
    body = list(st.body)
    if body and isinstance(body[0], ast.Expr) and isinstance(body[0].value, ast.Constant) and isinstance(body[0].value.value, str):
        body = body[1:]
    def as_expr(stmts: List[ast.stmt]) -> Optional[ast.AST]:
        """`if c: return A` ... `return Z` (also if / elif / else with returns) as the conditional expression it computes"""
        if not stmts:
            return None
        st0 = stmts[0]
        if isinstance(st0, ast.Return):
            return copy.deepcopy(st0.value) if st0.value is not None else ast.Constant(None)
        if isinstance(st0, ast.If):
            a = as_expr(list(st0.body))
            b = as_expr(list(st0.orelse) if st0.orelse else stmts[1:])
            if a is None or b is None:
                return None
            if st0.orelse and len(stmts) > 1:
                return None
            return ast.IfExp(copy.deepcopy(st0.test), a, b)
        return None

    if len(body) != 1 or not isinstance(body[0], ast.Return) or body[0].value is None:
        ex = as_expr(body) if body and isinstance(body[0], ast.If) and isinstance(st, ast.FunctionDef) else None
        if ex is None:
            return None
        body = [ast.copy_location(ast.Return(ex), st)]
    if any(isinstance(n, (ast.Yield, ast.YieldFrom, ast.Await, ast.NamedExpr)) for n in ast.walk(body[0].value)):
        return None
    a = st.args
    if a.vararg or a.kwarg or a.kwonlyargs:
        return None
    args = ast.arguments(posonlyargs=[ast.arg(x.arg) for x in a.posonlyargs], args=[ast.arg(x.arg) for x in a.args], vararg=None, kwonlyargs=[], kw_defaults=[],
                         kwarg=None, defaults=[copy.deepcopy(d) for d in a.defaults])
    lam = ast.Lambda(args, copy.deepcopy(body[0].value))
    out = ast.copy_location(ast.Assign([ast.Name(st.name, ast.Store())], lam), st)
    ast.fix_missing_locations(out)
    return [out]


def _terminates(stmts: List[ast.stmt]) -> bool:
    return bool(stmts) and isinstance(stmts[-1], (ast.Return, ast.Raise, ast.Break, ast.Continue))


def unselected_tests_as_try(fn: ast.AST) -> bool:
    """`g = <oneof_group_by_field>.get(F)` ... `if g is not None and <_group_current>[g] != F: A  else: x = getattr(self, F); B`
    is the explicit form of `try: x = getattr(self, F)  except AttributeError: A  else: B`: Message.__getattribute__ raises for
    a declared field exactly when the field belongs to a group whose recorded selection is another member (that is what the
    O-rules establish about it).  Rewritten into the try form, which is the one the field-loop rules know."""
    def alias_of(name: str, attr: str) -> bool:
        binds = [a for a in ast.walk(fn) if isinstance(a, ast.Assign) and len(a.targets) == 1 and isinstance(a.targets[0], ast.Name) and a.targets[0].id == name]
        return len(binds) == 1 and isinstance(binds[0].value, ast.Attribute) and binds[0].value.attr == attr

    def is_table(e: ast.AST, attr: str) -> bool:
        return (isinstance(e, ast.Attribute) and e.attr == attr) or (isinstance(e, ast.Name) and alias_of(e.id, attr))

    changed = False
    for parent in ast.walk(fn):
        for fld in ("body", "orelse", "finalbody"):
            body = getattr(parent, fld, None)
            if not (isinstance(body, list) and body and isinstance(body[0], ast.stmt)):
                continue
            for i, st in enumerate(body):
                if not (isinstance(st, ast.If) and isinstance(st.test, ast.BoolOp) and isinstance(st.test.op, ast.And) and len(st.test.values) == 2 and st.orelse):
                    continue
                a, b = st.test.values
                if not (isinstance(a, ast.Compare) and len(a.ops) == 1 and isinstance(a.ops[0], ast.IsNot) and isinstance(a.comparators[0], ast.Constant) and a.comparators[0].value is None
                        and isinstance(a.left, ast.Name)):
                    continue
                g = a.left.id
                if not (isinstance(b, ast.Compare) and len(b.ops) == 1 and isinstance(b.ops[0], ast.NotEq) and isinstance(b.left, ast.Subscript) and isinstance(b.left.slice, ast.Name)
                        and b.left.slice.id == g and is_table(b.left.value, "_group_current")):
                    continue
                f_txt = ast.unparse(b.comparators[0])
                gb = [x for x in ast.walk(fn) if isinstance(x, ast.Assign) and len(x.targets) == 1 and isinstance(x.targets[0], ast.Name) and x.targets[0].id == g]
                if len(gb) != 1:
                    continue
                gv = gb[0].value
                from_table = isinstance(gv, ast.Call) and isinstance(gv.func, ast.Attribute) and gv.func.attr == "get" and len(gv.args) == 1 and not gv.keywords \
                    and ast.unparse(gv.args[0]) == f_txt and is_table(gv.func.value, "oneof_group_by_field")
                if not from_table:
                    continue
                first = st.orelse[0]
                if not (isinstance(first, ast.Assign) and isinstance(first.value, ast.Call) and isinstance(first.value.func, ast.Name) and first.value.func.id == "getattr"
                        and len(first.value.args) == 2 and isinstance(first.value.args[0], ast.Name) and first.value.args[0].id == "self" and ast.unparse(first.value.args[1]) == f_txt):
                    continue
                tr = ast.Try(body=[first], handlers=[ast.ExceptHandler(type=ast.Name("AttributeError", ast.Load()), name=None, body=st.body)], orelse=list(st.orelse[1:]), finalbody=[])
                body[i] = ast.copy_location(tr, st)
                changed = True
    if changed:
        ast.fix_missing_locations(fn)
    return changed


def _record_fields(mod, cls_name: str) -> Optional[List[str]]:
    """the field names, in order, of a record class of the module (a dataclass / NamedTuple whose body declares them)"""
    nodes = mod.defs.get(cls_name)
    if not nodes or not isinstance(nodes[0], ast.ClassDef):
        return None
    out = [st.target.id for st in nodes[0].body if isinstance(st, ast.AnnAssign) and isinstance(st.target, ast.Name)]
    return out or None


def normalise_records(fn: ast.AST, mod) -> bool:
    """two spellings of the wire record brought to the one the rules read:
    (a) `ParsedField(a, b, c, d)` - the fields given by position - becomes the keyword form, in the order the class declares;
    (b) `n, w, v, r = parsed` - the record of the current iteration destructured once into locals that are never rebound -
        is removed and the locals are read as `parsed.number`, `parsed.wire_type`, ... (a record is immutable)"""
    fields = _record_fields(mod, "ParsedField")
    if not fields:
        return False
    changed = False
    for c in ast.walk(fn):
        if isinstance(c, ast.Call) and isinstance(c.func, ast.Name) and c.func.id == "ParsedField" and c.args and not any(isinstance(a, ast.Starred) for a in c.args) \
                and len(c.args) + len(c.keywords) == len(fields) and not ({k.arg for k in c.keywords} & set(fields[:len(c.args)])):
            c.keywords = [ast.keyword(arg=f, value=a) for f, a in zip(fields, c.args)] + list(c.keywords)
            c.args = []
            changed = True
    # (b)
    rec_vars = set()
    for n in ast.walk(fn):
        if isinstance(n, ast.Assign) and len(n.targets) == 1 and isinstance(n.targets[0], ast.Name) and isinstance(n.value, ast.Call) and isinstance(n.value.func, ast.Name) \
                and n.value.func.id == "next":
            rec_vars.add(n.targets[0].id)
        if isinstance(n, ast.For) and isinstance(n.target, ast.Name) and isinstance(n.iter, (ast.Call, ast.Name)) and any(
                isinstance(x, ast.Name) and x.id in ("load_fields", "parse_fields", "fields") for x in ast.walk(n.iter)):
            rec_vars.add(n.target.id)
    for parent in ast.walk(fn):
        for fld in ("body", "orelse", "finalbody"):
            body = getattr(parent, fld, None)
            if not (isinstance(body, list) and body and isinstance(body[0], ast.stmt)):
                continue
            for i, st in enumerate(list(body)):
                if not (isinstance(st, ast.Assign) and len(st.targets) == 1 and isinstance(st.targets[0], ast.Tuple) and isinstance(st.value, ast.Name) and st.value.id in rec_vars
                        and len(st.targets[0].elts) == len(fields) and all(isinstance(e, ast.Name) for e in st.targets[0].elts)):
                    continue
                names = [e.id for e in st.targets[0].elts]
                stores = [x for x in ast.walk(fn) if isinstance(x, ast.Name) and isinstance(x.ctx, (ast.Store, ast.Del)) and x.id in names]
                params = {a.arg for a in fn.args.args + fn.args.kwonlyargs}
                if len(stores) != len(names) or set(names) & params or len(set(names)) != len(names):
                    continue
                rec = st.value.id
                mapping = dict(zip(names, fields))

                class R(ast.NodeTransformer):
                    def visit_Name(self, n):
                        if isinstance(n.ctx, ast.Load) and n.id in mapping:
                            return ast.copy_location(ast.Attribute(value=ast.Name(rec, ast.Load()), attr=mapping[n.id], ctx=ast.Load()), n)
                        return n
                body.remove(st)
                for k, other in enumerate(fn.body):
                    fn.body[k] = R().visit(other)
                changed = True
    if changed:
        ast.fix_missing_locations(fn)
    return changed


def thread_none_tests(fn: ast.AST) -> bool:
    """after a helper with an early `return None` was expanded in assign mode:
         if C: _ret__h = None            if C: T = None; EXIT
         else: BODY; _ret__h = X   ==>   else: BODY; T = X; [if T is None: EXIT]; REST
         T = _ret__h
         if T is None: EXIT
         REST
    (EXIT ends in return / raise / break / continue).  The branch that produced None goes straight to EXIT, so that
    statement-level rules do not see a path from the None branch into REST.  Rewrites in place."""
    changed = False

    def visit(block: List[ast.stmt]) -> None:
        nonlocal changed
        i = 0
        while i < len(block):
            st = block[i]
            if isinstance(st, ast.If) and st.orelse and i + 2 < len(block) + 0:
                a1 = block[i + 1] if i + 1 < len(block) else None
                t1 = block[i + 2] if i + 2 < len(block) else None
                if isinstance(a1, ast.Assign) and len(a1.targets) == 1 and isinstance(a1.targets[0], ast.Name) and isinstance(a1.value, ast.Name) and a1.value.id.startswith("_ret__") \
                        and isinstance(t1, ast.If) and not t1.orelse and _terminates(t1.body) and ast.unparse(t1.test) in (f"{a1.targets[0].id} is None", f"not {a1.targets[0].id}"):
                    tmp, tgt = a1.value.id, a1.targets[0].id
                    rest = block[i + 3:]

                    def finish(branch: List[ast.stmt]) -> Optional[List[ast.stmt]]:
                        # the branch ends by assigning the temporary (possibly inside nested if / else)
                        if not branch:
                            return None
                        last = branch[-1]
                        if isinstance(last, ast.Assign) and len(last.targets) == 1 and isinstance(last.targets[0], ast.Name) and last.targets[0].id == tmp:
                            val = last.value
                            head = branch[:-1] + [ast.copy_location(ast.Assign([ast.Name(tgt, ast.Store())], val), last)]
                            if isinstance(val, ast.Constant) and val.value is None:
                                return head + copy.deepcopy(t1.body)
                            if isinstance(val, ast.Call) and isinstance(val.func, ast.Name) and val.func.id[:1].isupper():
                                return head + copy.deepcopy(rest)          # a constructed object is not None
                            return head + [copy.deepcopy(t1)] + copy.deepcopy(rest)
                        if isinstance(last, ast.If) and last.orelse:
                            b_, e_ = finish(list(last.body)), finish(list(last.orelse))
                            if b_ is None or e_ is None:
                                return None
                            return branch[:-1] + [ast.copy_location(ast.If(last.test, b_, e_), last)]
                        if isinstance(last, ast.Raise):
                            return branch
                        return None

                    nb, ne = finish(list(st.body)), finish(list(st.orelse))
                    if nb is not None and ne is not None and not any(isinstance(x, ast.Name) and x.id == tmp for s_ in rest + t1.body for x in ast.walk(s_)):
                        new_if = ast.copy_location(ast.If(st.test, nb, ne), st)
                        ast.fix_missing_locations(new_if)
                        block[i:] = [new_if]
                        changed = True
                        visit(new_if.body)
                        visit(new_if.orelse)
                        return
            for fld in ("body", "orelse", "finalbody"):
                sub = getattr(st, fld, None)
                if isinstance(sub, list) and sub and isinstance(sub[0], ast.stmt) and not isinstance(st, (ast.FunctionDef, ast.AsyncFunctionDef, ast.ClassDef)):
                    visit(sub)
            if isinstance(st, ast.Try):
                for h in st.handlers:
                    visit(h.body)
            i += 1

    visit(fn.body)
    return changed


def _module_sentinels(mod) -> Dict[str, Set[str]]:
    """{S: names of the functions that can hand S out} for every module-level `S = object()` that the module only ever
    (a) compares by identity or (b) returns from a function (directly or as an arm of a returned conditional expression).
    Any other use (stored, passed on, put into a container) and S is left out: then nothing is concluded from it."""
    cached = getattr(mod, "_vt_sentinels", None)
    if cached is not None:
        return cached
    out: Dict[str, Set[str]] = {}
    cands = set()
    for st in mod.tree.body:
        tgt = st.targets[0] if isinstance(st, ast.Assign) and len(st.targets) == 1 else getattr(st, "target", None) if isinstance(st, ast.AnnAssign) else None
        v = getattr(st, "value", None)
        if isinstance(tgt, ast.Name) and isinstance(v, ast.Call) and isinstance(v.func, ast.Name) and v.func.id == "object" and not v.args and not v.keywords:
            cands.add(tgt.id)
    for S in cands:
        stores = [n for n in ast.walk(mod.tree) if isinstance(n, ast.Name) and n.id == S and not isinstance(n.ctx, ast.Load)]
        if len(stores) != 1:
            continue
        ok_ids = set()
        carriers: Set[str] = set()
        for n in ast.walk(mod.tree):
            if isinstance(n, ast.Compare) and all(isinstance(o, (ast.Is, ast.IsNot)) for o in n.ops):
                for x in [n.left] + n.comparators:
                    if isinstance(x, ast.Name) and x.id == S:
                        ok_ids.add(id(x))
        def returned_arms(e, acc):
            if isinstance(e, ast.IfExp):
                returned_arms(e.body, acc)
                returned_arms(e.orelse, acc)
            elif isinstance(e, ast.Name) and e.id == S:
                acc.append(e)
        for f in ast.walk(mod.tree):
            if isinstance(f, (ast.FunctionDef, ast.AsyncFunctionDef)):
                for r in ast.walk(f):
                    if isinstance(r, ast.Return) and r.value is not None:
                        acc: List[ast.AST] = []
                        returned_arms(r.value, acc)
                        if acc:
                            carriers.add(f.name)
                            ok_ids |= {id(a) for a in acc}
        loads = [n for n in ast.walk(mod.tree) if isinstance(n, ast.Name) and n.id == S and isinstance(n.ctx, ast.Load)]
        if all(id(n) in ok_ids for n in loads):
            out[S] = carriers
    try:
        mod._vt_sentinels = out
    except Exception:
        pass
    return out


def thread_sentinel_tests(fn: ast.AST, sentinels: Dict[str, Set[str]]) -> bool:
    """after a helper that answers with a module-level sentinel S ("nothing to do") was expanded in assign mode:
         if C: _ret__h = S               if C: T = S
         else: BODY; _ret__h = X   ==>   else: BODY; T = X; ACTION
         T = _ret__h
         if T is not S: ACTION
    Each leaf gets the outcome of the identity test that its own value decides: S itself fails it; a value that cannot be S
    (a constant, a display, a call of a function that does not hand S out, a local only ever bound to such values) passes
    it; anything else keeps the test.  Rewrites in place."""
    changed = False

    def free_of(val: ast.AST, S: str, depth: int = 0) -> bool:
        if any(isinstance(x, ast.Name) and x.id == S for x in ast.walk(val)):
            return False
        if isinstance(val, (ast.Constant, ast.List, ast.Dict, ast.Set, ast.Tuple, ast.ListComp, ast.DictComp, ast.SetComp, ast.JoinedStr, ast.BinOp, ast.Compare, ast.BoolOp)) \
                and not isinstance(val, ast.BoolOp):
            return True
        if isinstance(val, ast.Call):
            f = val.func
            nm = f.id if isinstance(f, ast.Name) else f.attr if isinstance(f, ast.Attribute) else None
            return nm is not None and nm not in sentinels[S] and nm not in ("getattr", "next", "iter", "eval")
        if isinstance(val, ast.Name) and depth < 2:
            binds = [a for a in ast.walk(fn) if isinstance(a, ast.Assign) and any(isinstance(t, ast.Name) and t.id == val.id for t in a.targets)]
            others = [n for n in ast.walk(fn) if isinstance(n, ast.Name) and n.id == val.id and isinstance(n.ctx, ast.Store)]
            params = {a.arg for a in ast.walk(fn) if isinstance(a, ast.arg)}
            return bool(binds) and len(binds) == len(others) and val.id not in params and all(free_of(a.value, S, depth + 1) for a in binds)
        return False

    def visit(block: List[ast.stmt]) -> None:
        nonlocal changed
        i = 0
        while i < len(block):
            st = block[i]
            a1 = block[i + 1] if i + 1 < len(block) else None
            t1 = block[i + 2] if i + 2 < len(block) else None
            if isinstance(st, ast.If) and st.orelse and isinstance(a1, ast.Assign) and len(a1.targets) == 1 and isinstance(a1.targets[0], ast.Name) \
                    and isinstance(a1.value, ast.Name) and a1.value.id.startswith("_ret__") and isinstance(t1, ast.If) \
                    and isinstance(t1.test, ast.Compare) and len(t1.test.ops) == 1 and isinstance(t1.test.ops[0], (ast.Is, ast.IsNot)) \
                    and isinstance(t1.test.left, ast.Name) and t1.test.left.id == a1.targets[0].id and isinstance(t1.test.comparators[0], ast.Name) \
                    and t1.test.comparators[0].id in sentinels:
                S = t1.test.comparators[0].id
                tmp, tgt = a1.value.id, a1.targets[0].id
                rest = block[i + 3:]
                if_is = list(t1.body) if isinstance(t1.test.ops[0], ast.Is) else list(t1.orelse)
                if_not = list(t1.orelse) if isinstance(t1.test.ops[0], ast.Is) else list(t1.body)

                def finish(branch: List[ast.stmt]) -> Optional[List[ast.stmt]]:
                    if not branch:
                        return None
                    last = branch[-1]
                    if isinstance(last, ast.Assign) and len(last.targets) == 1 and isinstance(last.targets[0], ast.Name) and last.targets[0].id == tmp:
                        val = last.value
                        if isinstance(val, ast.IfExp):
                            b_ = finish([ast.copy_location(ast.Assign([ast.Name(tmp, ast.Store())], val.body), last)])
                            e_ = finish([ast.copy_location(ast.Assign([ast.Name(tmp, ast.Store())], val.orelse), last)])
                            if b_ is None or e_ is None:
                                return None
                            return branch[:-1] + [ast.copy_location(ast.If(val.test, b_, e_), last)]
                        head = branch[:-1] + [ast.copy_location(ast.Assign([ast.Name(tgt, ast.Store())], val), last)]
                        if isinstance(val, ast.Name) and val.id == S:
                            return head + copy.deepcopy(if_is) + copy.deepcopy(rest)
                        if free_of(val, S):
                            return head + copy.deepcopy(if_not) + copy.deepcopy(rest)
                        return head + [copy.deepcopy(t1)] + copy.deepcopy(rest)
                    if isinstance(last, ast.If) and last.orelse:
                        b_, e_ = finish(list(last.body)), finish(list(last.orelse))
                        if b_ is None or e_ is None:
                            return None
                        return branch[:-1] + [ast.copy_location(ast.If(last.test, b_, e_), last)]
                    if isinstance(last, ast.Raise):
                        return branch
                    return None

                nb, ne = finish(list(st.body)), finish(list(st.orelse))
                if nb is not None and ne is not None and not any(isinstance(x, ast.Name) and x.id == tmp for s_ in rest + t1.body + t1.orelse for x in ast.walk(s_)):
                    new_if = ast.copy_location(ast.If(st.test, nb, ne), st)
                    ast.fix_missing_locations(new_if)
                    block[i:] = [new_if]
                    changed = True
                    visit(new_if.body)
                    visit(new_if.orelse)
                    return
            for fld in ("body", "orelse", "finalbody"):
                sub = getattr(st, fld, None)
                if isinstance(sub, list) and sub and isinstance(sub[0], ast.stmt) and not isinstance(st, (ast.FunctionDef, ast.AsyncFunctionDef, ast.ClassDef)):
                    visit(sub)
            if isinstance(st, ast.Try):
                for h in st.handlers:
                    visit(h.body)
            i += 1

    visit(fn.body)
    return changed


def _split_selected_source(stmts: List[ast.stmt], is_inlinable_generator, fn_loads: Dict[str, int]) -> Optional[List[ast.stmt]]:
    """`F = A; if C: F = B[F]; for T in F: BODY`  /  `F = A if C else B; for T in F: BODY`  (consecutive statements, F a local read
    nowhere else, A and B calls that only create iterators) is `if C: for T in B[A]: BODY  else: for T in A: BODY`: which
    iterator the loop runs over is decided before the loop starts either way.  Done only when one of the sources is a generator
    of the module that can then be expanded into the loop."""
    for i, st in enumerate(stmts):
        if not (isinstance(st, ast.Assign) and len(st.targets) == 1 and isinstance(st.targets[0], ast.Name)):
            continue
        f = st.targets[0].id
        a = b = cond = None
        j = i + 1
        if isinstance(st.value, ast.IfExp):
            cond, b, a = st.value.test, st.value.body, st.value.orelse
        elif j < len(stmts) and isinstance(stmts[j], ast.If) and not stmts[j].orelse and len(stmts[j].body) == 1 and isinstance(stmts[j].body[0], ast.Assign) \
                and len(stmts[j].body[0].targets) == 1 and isinstance(stmts[j].body[0].targets[0], ast.Name) and stmts[j].body[0].targets[0].id == f:
            a, cond, b = st.value, stmts[j].test, stmts[j].body[0].value
            j += 1
        if a is None or j >= len(stmts):
            continue
        loop = stmts[j]
        if not (isinstance(loop, ast.For) and not loop.orelse and isinstance(loop.iter, ast.Name) and loop.iter.id == f):
            continue
        if not (isinstance(a, ast.Call) and isinstance(b, ast.Call)) or any(isinstance(n, ast.Name) and n.id == f for n in ast.walk(cond)):
            continue
        # F is read only as the loop's iterable and inside B (where it stands for A)
        inner = sum(1 for n in ast.walk(b) if isinstance(n, ast.Name) and n.id == f and isinstance(n.ctx, ast.Load)) if not isinstance(st.value, ast.IfExp) else 0
        if fn_loads.get(f, 0) != 1 + inner or any(isinstance(n, ast.Name) and n.id == f for n in ast.walk(a)):
            continue
        if any(isinstance(n, ast.Name) and n.id == f for x in loop.body for n in ast.walk(x)):
            continue

        class R(ast.NodeTransformer):
            def visit_Name(self, n):
                return copy.deepcopy(a) if n.id == f and isinstance(n.ctx, ast.Load) else n
        b2 = R().visit(copy.deepcopy(b)) if inner else copy.deepcopy(b)
        if not (is_inlinable_generator(b2) or is_inlinable_generator(a)):
            continue
        l1 = ast.copy_location(ast.For(copy.deepcopy(loop.target), b2, copy.deepcopy(loop.body), []), loop)
        l2 = ast.copy_location(ast.For(copy.deepcopy(loop.target), copy.deepcopy(a), copy.deepcopy(loop.body), []), loop)
        new = ast.copy_location(ast.If(copy.deepcopy(cond), [l1], [l2]), st)
        ast.fix_missing_locations(new)
        return stmts[:i] + [new] + stmts[j + 1:]
    return None


def _tag_tables(mod) -> Dict[str, Dict[str, Any]]:
    """tables of the class metadata that are keyed by the wire tag and filled, for every declared number and every wire type of a
    constant tuple, exactly when the wire type fits the declared type:

        for N, F in <number -> name table>.items():
            P = <name -> metadata table>[F].proto_type;  R = self.default_gen[F] is list
            for W in <constant tuple of wire types>:
                if _wire_type_matches(W, P, R):  T[(N << 3) | W] = F
        self.ATTR = T

    -> {ATTR: {"wire_types": the tuple}}.  (N << 3) | W is one-to-one on numbers and wire types below 8, so T.get((n << 3) | w)
    is the name of n when w is one of the tuple and fits, None otherwise."""
    cached = getattr(mod, "_vt_tag_tables", None)
    if cached is not None:
        return cached
    out: Dict[str, Dict[str, Any]] = {}
    nodes = mod.defs.get("ProtoClassMetadata.__init__")
    init = nodes[0] if nodes and isinstance(nodes[0], ast.FunctionDef) else None
    if init is not None:
        attr_of_local: Dict[str, Set[str]] = {}
        for st in ast.walk(init):
            if isinstance(st, ast.Assign) and len(st.targets) == 1 and isinstance(st.targets[0], ast.Attribute) and isinstance(st.targets[0].value, ast.Name) \
                    and st.targets[0].value.id == "self" and isinstance(st.value, ast.Name):
                attr_of_local.setdefault(st.value.id, set()).add(st.targets[0].attr)

        def is_table(e: ast.AST, attr: str) -> bool:
            return (isinstance(e, ast.Name) and attr in attr_of_local.get(e.id, ())) or (isinstance(e, ast.Attribute) and isinstance(e.value, ast.Name) and e.value.id == "self" and e.attr == attr)

        for outer in init.body:
            if not (isinstance(outer, ast.For) and isinstance(outer.target, ast.Tuple) and len(outer.target.elts) == 2 and all(isinstance(e, ast.Name) for e in outer.target.elts)
                    and isinstance(outer.iter, ast.Call) and isinstance(outer.iter.func, ast.Attribute) and outer.iter.func.attr == "items" and not outer.iter.args
                    and is_table(outer.iter.func.value, "field_name_by_number") and not outer.orelse):
                continue
            N_, F_ = outer.target.elts[0].id, outer.target.elts[1].id
            local: Dict[str, ast.AST] = {}
            inner = None
            ok = True
            for st in outer.body:
                if isinstance(st, ast.Assign) and len(st.targets) == 1 and isinstance(st.targets[0], ast.Name):
                    local[st.targets[0].id] = st.value
                elif isinstance(st, ast.For) and inner is None:
                    inner = st
                else:
                    ok = False
            if not ok or inner is None or not isinstance(inner.target, ast.Name) or inner.orelse or len(inner.body) != 1:
                continue
            W_ = inner.target.id
            try:
                from .src import fold as _fold
                wts = _fold(inner.iter, mod.consts)
            except Exception:
                continue
            if not (isinstance(wts, (tuple, list)) and all(isinstance(w, int) and 0 <= w < 8 for w in wts)):
                continue
            cond = inner.body[0]
            if not (isinstance(cond, ast.If) and not cond.orelse and len(cond.body) == 1 and isinstance(cond.test, ast.Call) and ast.unparse(cond.test.func) == "_wire_type_matches"
                    and len(cond.test.args) == 3 and not cond.test.keywords):
                continue
            a0, a1, a2 = [local.get(a.id, a) if isinstance(a, ast.Name) else a for a in cond.test.args]
            if not (isinstance(cond.test.args[0], ast.Name) and cond.test.args[0].id == W_):
                continue
            if not (isinstance(a1, ast.Attribute) and a1.attr == "proto_type" and isinstance(a1.value, ast.Subscript) and is_table(a1.value.value, "meta_by_field_name")
                    and isinstance(a1.value.slice, ast.Name) and a1.value.slice.id == F_):
                continue
            if not (isinstance(a2, ast.Compare) and len(a2.ops) == 1 and isinstance(a2.ops[0], ast.Is) and ast.unparse(a2.comparators[0]) == "list"
                    and isinstance(a2.left, ast.Subscript) and is_table(a2.left.value, "default_gen") and isinstance(a2.left.slice, ast.Name) and a2.left.slice.id == F_):
                continue
            store = cond.body[0]
            if not (isinstance(store, ast.Assign) and len(store.targets) == 1 and isinstance(store.targets[0], ast.Subscript) and isinstance(store.targets[0].value, ast.Name)
                    and isinstance(store.value, ast.Name) and store.value.id == F_ and ast.unparse(store.targets[0].slice) == f"{N_} << 3 | {W_}"):
                continue
            T_ = store.targets[0].value.id
            # T starts empty and nothing else writes it
            inits = [x for x in ast.walk(init) if isinstance(x, (ast.Assign, ast.AnnAssign)) and isinstance(x.targets[0] if isinstance(x, ast.Assign) else x.target, ast.Name)
                     and (x.targets[0] if isinstance(x, ast.Assign) else x.target).id == T_]
            writes = [x for x in ast.walk(init) if isinstance(x, ast.Subscript) and isinstance(x.ctx, (ast.Store, ast.Del)) and isinstance(x.value, ast.Name) and x.value.id == T_]
            calls = [x for x in ast.walk(init) if isinstance(x, ast.Call) and isinstance(x.func, ast.Attribute) and isinstance(x.func.value, ast.Name) and x.func.value.id == T_]
            if len(inits) != 1 or not (isinstance(inits[0].value, ast.Dict) and not inits[0].value.keys) or len(writes) != 1 or calls:
                continue
            for attr in attr_of_local.get(T_, ()):
                out[attr] = {"wire_types": tuple(wts)}
    try:
        mod._vt_tag_tables = out
    except Exception:
        pass
    return out


def tag_lookup_as_two_steps(fn: ast.AST, tables: Dict[str, Dict[str, Any]], load_wire_types=(0, 1, 2, 5)) -> bool:
    """`X = T.get((R.number << 3) | R.wire_type)` + `if X is None: BODY` (BODY ends the iteration) over a tag table T (see
    _tag_tables) whose wire types cover what the record readers can yield, rewritten as the two steps the table folds together:
         X = M.field_name_by_number.get(R.number);  if not X: BODY
         if not _wire_type_matches(R.wire_type, M.meta_by_field_name[X].proto_type, M.default_gen[X] is list): BODY
    In place; True when something was rewritten."""
    changed = False
    alias: Dict[str, Tuple[ast.AST, str]] = {}      # local -> (metadata expression, attr)
    for st in ast.walk(fn):
        if isinstance(st, ast.Assign) and len(st.targets) == 1 and isinstance(st.targets[0], ast.Name) and isinstance(st.value, ast.Attribute) and st.value.attr in tables:
            alias[st.targets[0].id] = (st.value.value, st.value.attr)

    def table_of(e: ast.AST):
        if isinstance(e, ast.Name) and e.id in alias:
            return alias[e.id]
        if isinstance(e, ast.Attribute) and e.attr in tables:
            return (e.value, e.attr)
        return None

    def visit(block: List[ast.stmt]) -> None:
        nonlocal changed
        i = 0
        while i + 1 < len(block):
            st, nx = block[i], block[i + 1]
            hit = None
            if isinstance(st, ast.Assign) and len(st.targets) == 1 and isinstance(st.targets[0], ast.Name) and isinstance(st.value, ast.Call) and isinstance(st.value.func, ast.Attribute) \
                    and st.value.func.attr == "get" and len(st.value.args) == 1 and not st.value.keywords:
                tb = table_of(st.value.func.value)
                key = st.value.args[0]
                if tb is not None and isinstance(key, ast.BinOp) and isinstance(key.op, ast.BitOr) and isinstance(key.left, ast.BinOp) and isinstance(key.left.op, ast.LShift) \
                        and isinstance(key.left.right, ast.Constant) and key.left.right.value == 3 and isinstance(key.left.left, ast.Attribute) and key.left.left.attr == "number" \
                        and isinstance(key.right, ast.Attribute) and key.right.attr == "wire_type" and ast.unparse(key.left.left.value) == ast.unparse(key.right.value) \
                        and set(load_wire_types) <= set(tables[tb[1]]["wire_types"]):
                    x = st.targets[0].id
                    if isinstance(nx, ast.If) and not nx.orelse and ast.unparse(nx.test) in (f"{x} is None", f"not {x}") and _terminates(nx.body):
                        hit = (tb[0], key.left.left.value, x, nx)
            if hit is not None:
                meta_e, rec, x, nx = hit
                src = (f"{x} = M.field_name_by_number.get(R.number)\n"
                       f"if not {x}:\n    pass\n"
                       f"if not _wire_type_matches(R.wire_type, M.meta_by_field_name[{x}].proto_type, M.default_gen[{x}] is list):\n    pass\n")
                new = ast.parse(src).body

                class Sub(ast.NodeTransformer):
                    def visit_Name(self, n):
                        if n.id == "M":
                            return copy.deepcopy(meta_e)
                        if n.id == "R":
                            return copy.deepcopy(rec)
                        return n
                new = [Sub().visit(n_) for n_ in new]
                new[1].body = copy.deepcopy(nx.body)
                new[2].body = copy.deepcopy(nx.body)
                for n_ in new:
                    ast.copy_location(n_, st)
                    ast.fix_missing_locations(n_)
                block[i:i + 2] = new
                changed = True
                i += 3
                continue
            for fld in ("body", "orelse", "finalbody"):
                sub = getattr(st, fld, None)
                if isinstance(sub, list) and sub and isinstance(sub[0], ast.stmt) and not isinstance(st, (ast.FunctionDef, ast.AsyncFunctionDef, ast.ClassDef)):
                    visit(sub)
            i += 1
        if block:
            st = block[-1]
            for fld in ("body", "orelse", "finalbody"):
                sub = getattr(st, fld, None)
                if isinstance(sub, list) and sub and isinstance(sub[0], ast.stmt) and not isinstance(st, (ast.FunctionDef, ast.AsyncFunctionDef, ast.ClassDef)):
                    visit(sub)

    visit(fn.body)
    return changed


def _thin_generators(mod) -> Dict[str, Tuple[str, List[str]]]:
    """single-record readers R that a generator G of the module wraps one to one:
    `def G(a, b): while True: v = R(a, b); if v is None: return; yield v`  ->  {R: (G, [a, b])}.
    Elsewhere `R(x, y)` is then `next(G(x, y), None)`, the form the rules know a record to be taken in."""
    out: Dict[str, Tuple[str, List[str]]] = {}
    for q, nodes in mod.defs.items():
        if "." in q or len(nodes) != 1 or not isinstance(nodes[0], ast.FunctionDef):
            continue
        g = nodes[0]
        body = list(g.body)
        if body and isinstance(body[0], ast.Expr) and isinstance(body[0].value, ast.Constant) and isinstance(body[0].value.value, str):
            body = body[1:]
        if len(body) != 1 or not isinstance(body[0], ast.While) or not (isinstance(body[0].test, ast.Constant) and body[0].test.value is True) or body[0].orelse:
            continue
        lb = body[0].body
        if len(lb) != 3:
            continue
        a, t, y = lb
        params = [p.arg for p in g.args.args]
        if not (isinstance(a, ast.Assign) and len(a.targets) == 1 and isinstance(a.targets[0], ast.Name) and isinstance(a.value, ast.Call) and isinstance(a.value.func, ast.Name)
                and not a.value.keywords and [ast.unparse(x) for x in a.value.args] == params):
            continue
        v = a.targets[0].id
        if not (isinstance(t, ast.If) and not t.orelse and len(t.body) == 1 and isinstance(t.body[0], ast.Return) and t.body[0].value is None
                and ast.unparse(t.test) in (f"{v} is None", f"not {v}")):
            continue
        if not (isinstance(y, ast.Expr) and isinstance(y.value, ast.Yield) and isinstance(y.value.value, ast.Name) and y.value.value.id == v):
            continue
        r = a.value.func.id
        if r in mod.defs and len(mod.defs[r]) == 1 and isinstance(mod.defs[r][0], ast.FunctionDef):
            out[r] = (q, params)
    return out


class _ReaderAsNext(ast.NodeTransformer):
    def __init__(self, table: Dict[str, Tuple[str, List[str]]]):
        self.table = table
        self.changed = False

    def visit_Call(self, n: ast.Call):
        self.generic_visit(n)
        if isinstance(n.func, ast.Name) and n.func.id in self.table and not n.keywords and len(n.args) == len(self.table[n.func.id][1]):
            self.changed = True
            g = ast.Call(ast.Name(self.table[n.func.id][0], ast.Load()), list(n.args), [])
            return ast.copy_location(ast.Call(ast.Name("next", ast.Load()), [g, ast.Constant(None)], []), n)
        return n


class Expander:
    def __init__(self, mod):
        self.mod = mod
        self.known = _known(mod.rel)
        self.cache: Dict[Tuple[str, int], ast.AST] = {}

    # -- resolution ---------------------------------------------------------
    def _resolve(self, call: ast.Call, cls: Optional[str], awaited: bool, stack: Tuple[str, ...], generator: bool = False):
        f = call.func
        qual = None
        recv: Optional[ast.AST] = None
        if isinstance(f, ast.Name):
            qual = f.id
        elif isinstance(f, ast.Attribute) and isinstance(f.value, ast.Name) and cls is not None and f.value.id in ("self", "cls", cls):
            qual = f"{cls}.{f.attr}"
            recv = f.value
        local = getattr(self, "_locals", {}).get(f.id) if isinstance(f, ast.Name) else None
        if isinstance(local, (ast.FunctionDef, ast.AsyncFunctionDef)):
            # a nested def of the function being expanded (possibly reached through a local alias): its free variables are the
            # enclosing function's locals, read at call time - exactly what inlining at the call site does
            if f"<local>{local.name}" in stack:
                return None
            qual = f"<local>{local.name}"
            h = local
            if any(isinstance(n, (ast.Return,)) and n.value is not None for n in ast.walk(h)) and False:
                return None
        else:
            if qual is None or qual in self.known or qual in stack or qual not in self.mod.defs:
                return None
            cands = [x for x in self.mod.defs[qual] if isinstance(x, (ast.FunctionDef, ast.AsyncFunctionDef))]
            if len(cands) != 1 or len(self.mod.defs[qual]) != 1:
                return None
            h = cands[0]
        if isinstance(h, ast.AsyncFunctionDef) != awaited:
            return None
        if h.name.startswith("__") and h.name.endswith("__"):
            return None
        decos = [ast.unparse(d).split("(")[0].split(".")[-1] for d in h.decorator_list]
        if any(d not in ("staticmethod", "classmethod") for d in decos):
            return None
        if h.args.vararg or h.args.kwarg:
            return None
        inner = [n for n in ast.walk(h) if n is not h]
        if any(isinstance(n, (ast.Global, ast.Nonlocal, ast.AsyncFunctionDef, ast.ClassDef)) for n in inner):
            return None
        # a nested `def f(..): return EXPR` directly in the helper's body is a lambda bound to a local (rewritten as such after the expansion)
        if any(isinstance(n, ast.FunctionDef) and not (n in h.body and _local_def_as_lambda(n) is not None) for n in inner):
            return None
        is_gen = any(isinstance(n, (ast.Yield, ast.YieldFrom)) for n in inner)
        if is_gen != generator:
            return None
        if any(isinstance(a, ast.Starred) for a in call.args) or any(k.arg is None for k in call.keywords):
            return None
        # bind parameters
        params = [p.arg for p in h.args.posonlyargs + h.args.args]
        defaults: Dict[str, ast.AST] = dict(zip(params[len(params) - len(h.args.defaults):], h.args.defaults))
        for p, d in zip(h.args.kwonlyargs, h.args.kw_defaults):
            params.append(p.arg)
            if d is not None:
                defaults[p.arg] = d
        binding: Dict[str, ast.AST] = {}
        plist = list(params)
        if recv is not None and "staticmethod" not in decos:
            if not plist:
                return None
            first = plist.pop(0)
            if "classmethod" in decos:
                # cls.h() / Class.h(): the class object; self.h() would need type(self)
                if isinstance(recv, ast.Name) and recv.id == "self":
                    return None
                binding[first] = recv
            else:
                if isinstance(recv, ast.Name) and recv.id != "self":
                    return None        # Class.h(obj, ...) / cls.h(obj): rare, leave alone
                binding[first] = recv
        pos_params = [p for p in plist if p not in {k.arg for k in h.args.kwonlyargs}]
        if len(call.args) > len(pos_params):
            return None
        for p, a in zip(pos_params, call.args):
            binding[p] = a
        for k in call.keywords:
            if k.arg not in plist or k.arg in binding:
                return None
            binding[k.arg] = k.value
        for p in plist:
            if p not in binding:
                if p not in defaults:
                    return None
                binding[p] = defaults[p]
        return qual, h, binding

    # -- expansion of one statement ----------------------------------------------
    def _inline(self, h: ast.AST, binding: Dict[str, ast.AST], caller_names: Set[str], mode: str, target: Optional[List[ast.AST]], at: ast.stmt,
                tail_ok: bool) -> Optional[List[ast.stmt]]:
        body = list(h.body)
        if body and isinstance(body[0], ast.Expr) and isinstance(body[0].value, ast.Constant) and isinstance(body[0].value.value, str):
            body = body[1:]
        body = [x for st in body for x in ((_local_def_as_lambda(st) or [st]) if isinstance(st, ast.FunctionDef) else [st])]
        returns = [n for st in body for n in ast.walk(st) if isinstance(n, ast.Return)]
        ret_expr: Optional[ast.AST] = None
        if mode != "return":
            last = body[-1] if body else None
            if isinstance(last, ast.Return) and not any(r is not last for r in returns):
                ret_expr = last.value
                body = body[:-1]
            elif returns:
                # early returns that end `if` branches: restructured into if / else (with the value assigned in assign mode)
                if mode == "assign" and target is not None and len(target) == 1 and isinstance(target[0], ast.Name):
                    restructured = _structure_early_returns(copy.deepcopy(body), ast.Name(f"_ret__{h.name.strip('_')}", ast.Store()))
                    if restructured is None or any(isinstance(x, ast.Return) for s_ in restructured for x in ast.walk(s_)):
                        return None
                    body = restructured
                    ret_expr = ast.Name(f"_ret__{h.name.strip('_')}", ast.Load())
                elif mode != "expr":
                    return None
                else:
                    restructured = _structure_early_returns(copy.deepcopy(body))
                    if restructured is None or any(isinstance(x, ast.Return) for s_ in restructured for x in ast.walk(s_)):
                        return None
                    body = restructured
            if mode == "assign" and ret_expr is None:
                ret_expr = ast.Constant(None)
        assigned = _assigned_names(h)
        subst: Dict[str, ast.AST] = {}
        prologue: List[ast.stmt] = []
        renames: Dict[str, str] = {}
        for p, a in binding.items():
            if isinstance(a, ast.Name) and a.id == p and p not in assigned:
                continue
            if isinstance(a, ast.Name) and a.id == p and mode == "return" and getattr(self, "_load_counts", {}).get(p, 0) <= 1:
                # the caller's variable of the same name is read nowhere but in this call: the helper may go on using it
                continue
            if _simple(a) and p not in assigned and not (isinstance(a, ast.Name) and a.id in assigned):
                subst[p] = a
            else:
                new = p
                if p in caller_names:
                    new = f"{p}__{h.name.strip('_')}"
                    renames[p] = new
                prologue.append(ast.copy_location(ast.Assign([ast.Name(new, ast.Store())], copy.deepcopy(a)), at))
        for name in assigned:
            if name in caller_names and name not in binding and name not in renames:
                renames[name] = f"{name}__{h.name.strip('_')}"
        sub = _Subst(subst, renames)
        new_body = [sub.visit(copy.deepcopy(st)) for st in body]
        out = prologue + new_body
        if mode == "assign":
            assert target is not None and ret_expr is not None
            rv = sub.visit(copy.deepcopy(ret_expr))
            tg = target[0] if len(target) == 1 else None
            if isinstance(tg, (ast.Tuple, ast.List)) and isinstance(rv, ast.Tuple) and len(tg.elts) == len(rv.elts) \
                    and not any(isinstance(e, ast.Starred) for e in tg.elts + rv.elts) and all(isinstance(e, ast.Name) for e in tg.elts) \
                    and not ({e.id for e in tg.elts} & {n.id for n in ast.walk(rv) if isinstance(n, ast.Name)}):
                # a, b = (x, y) with x, y not mentioning a or b: two plain assignments
                for e, v in zip(tg.elts, rv.elts):
                    out.append(ast.copy_location(ast.Assign([e], v), at))
            else:
                out.append(ast.copy_location(ast.Assign(target, rv), at))
        elif mode == "expr" and ret_expr is not None and not isinstance(ret_expr, ast.Constant):
            out.append(ast.copy_location(ast.Expr(sub.visit(copy.deepcopy(ret_expr))), at))
        elif mode == "return":
            # falling off the end of the helper returns None
            if not new_body or not isinstance(new_body[-1], (ast.Return, ast.Raise)):
                out.append(ast.copy_location(ast.Return(ast.Constant(None)), at))
        if not out:
            out = [ast.copy_location(ast.Pass(), at)]
        for st in out:
            ast.fix_missing_locations(st)
        return out

    def _inline_generator(self, h: ast.AST, binding: Dict[str, ast.AST], caller_names: Set[str], loop: ast.For) -> Optional[List[ast.stmt]]:
        """`for T in G(args): BODY` with G a generator that is not a known unit: G's body with `T = <yielded>; BODY` in
        place of every `yield` and `for T in X: BODY` in place of `yield from X`.  Only when that is exactly behaviour
        preserving: yields are plain statements outside try / with; BODY has no `break`; a `continue` in BODY is allowed
        only when every yield is the last thing its enclosing generator loop does; the generator returns early only in
        the form `if C: ...; return` at its top level (rewritten as if / else) or at its very end"""
        body = list(h.body)
        if body and isinstance(body[0], ast.Expr) and isinstance(body[0].value, ast.Constant) and isinstance(body[0].value.value, str):
            body = body[1:]

        def own(stmts):
            """statements of these blocks, not descending into nested loops of the *consumer* body"""
            for s_ in stmts:
                yield s_
                for fld in ("body", "orelse", "finalbody"):
                    sub = getattr(s_, fld, None)
                    if isinstance(sub, list) and sub and isinstance(sub[0], ast.stmt) and not isinstance(s_, (ast.For, ast.While, ast.AsyncFor, ast.FunctionDef, ast.AsyncFunctionDef)):
                        yield from own(sub)
                if isinstance(s_, ast.Try):
                    for hd in s_.handlers:
                        yield from own(hd.body)

        consumer = list(own(loop.body))
        if any(isinstance(x, ast.Break) for x in consumer):
            return None
        has_continue = any(isinstance(x, ast.Continue) for x in consumer)
        # yields must be statements; none inside try / with
        for n in ast.walk(h):
            if isinstance(n, (ast.Yield, ast.YieldFrom)):
                pass
        stmts_with_yield = [n for n in ast.walk(h) if isinstance(n, ast.Expr) and isinstance(n.value, (ast.Yield, ast.YieldFrom))]
        all_yields = [n for n in ast.walk(h) if isinstance(n, (ast.Yield, ast.YieldFrom))]
        if len(stmts_with_yield) != len(all_yields) or not all_yields or len(all_yields) > 3:
            return None
        for n in ast.walk(h):
            if isinstance(n, (ast.Try, ast.With, ast.AsyncWith)) and any(isinstance(x, (ast.Yield, ast.YieldFrom)) for x in ast.walk(n)):
                return None
        if any(isinstance(y.value, ast.Yield) and y.value.value is None for y in stmts_with_yield):
            return None

        # early returns of the generator: `if C: ...; return` at top level -> if / else; trailing return dropped
        def strip_returns(stmts: List[ast.stmt]) -> Optional[List[ast.stmt]]:
            out: List[ast.stmt] = []
            for i, s_ in enumerate(stmts):
                if isinstance(s_, ast.Return):
                    if s_.value is not None:
                        return None
                    return out           # everything after a top-level return is dead
                if isinstance(s_, ast.If) and s_.body and isinstance(s_.body[-1], ast.Return) and s_.body[-1].value is None and not s_.orelse \
                        and not any(isinstance(x, ast.Return) for b in s_.body[:-1] for x in ast.walk(b)):
                    rest = strip_returns(stmts[i + 1:])
                    if rest is None:
                        return None
                    new_if = ast.copy_location(ast.If(s_.test, list(s_.body[:-1]) or [ast.copy_location(ast.Pass(), s_)], rest), s_)
                    out.append(new_if)
                    return out
                if any(isinstance(x, ast.Return) for x in ast.walk(s_)):
                    return None
                out.append(s_)
            return out

        body2 = strip_returns(body)
        if body2 is None:
            return None

        # position of every yield: last statement of its innermost generator loop (or of if-branches in that position)?
        def tail_ok(stmts: List[ast.stmt], in_loop: bool) -> bool:
            for i, s_ in enumerate(stmts):
                last = i == len(stmts) - 1
                if isinstance(s_, ast.Expr) and isinstance(s_.value, (ast.Yield, ast.YieldFrom)):
                    if isinstance(s_.value, ast.Yield) and not (in_loop and last):
                        return False
                    if isinstance(s_.value, ast.YieldFrom) and False:
                        return False
                elif isinstance(s_, (ast.For, ast.While)):
                    if not tail_ok(s_.body, True):
                        return False
                elif isinstance(s_, ast.If):
                    if not tail_ok(s_.body, in_loop and last) or not tail_ok(s_.orelse, in_loop and last):
                        return False
            return True

        if has_continue and not tail_ok(body2, False):
            return None

        assigned = _assigned_names(h)
        subst: Dict[str, ast.AST] = {}
        prologue: List[ast.stmt] = []
        renames: Dict[str, str] = {}
        target_names = {x.id for x in ast.walk(loop.target) if isinstance(x, ast.Name)}
        for p_, a in binding.items():
            if isinstance(a, ast.Name) and a.id == p_ and p_ not in assigned:
                continue
            if _simple(a) and p_ not in assigned and not (isinstance(a, ast.Name) and a.id in assigned):
                subst[p_] = a
            else:
                new = p_
                if p_ in caller_names:
                    new = f"{p_}__{h.name.strip('_')}"
                    renames[p_] = new
                prologue.append(ast.copy_location(ast.Assign([ast.Name(new, ast.Store())], copy.deepcopy(a)), loop))
        for name in assigned:
            if name in caller_names and name not in binding and name not in renames and name not in target_names:
                renames[name] = f"{name}__{h.name.strip('_')}"
        sub = _Subst(subst, renames)

        def rewrite(stmts: List[ast.stmt]) -> List[ast.stmt]:
            out: List[ast.stmt] = []
            for s_ in stmts:
                if isinstance(s_, ast.Expr) and isinstance(s_.value, ast.Yield):
                    val = sub.visit(copy.deepcopy(s_.value.value))
                    out.append(ast.copy_location(ast.Assign([copy.deepcopy(loop.target)], val), s_))
                    out.extend(copy.deepcopy(loop.body))
                elif isinstance(s_, ast.Expr) and isinstance(s_.value, ast.YieldFrom):
                    it = sub.visit(copy.deepcopy(s_.value.value))
                    out.append(ast.copy_location(ast.For(copy.deepcopy(loop.target), it, copy.deepcopy(loop.body), []), s_))
                else:
                    s2 = copy.copy(s_)
                    for fld in ("body", "orelse", "finalbody"):
                        subl = getattr(s_, fld, None)
                        if isinstance(subl, list) and subl and isinstance(subl[0], ast.stmt):
                            setattr(s2, fld, rewrite(subl))
                    # expressions of this statement (not its blocks) get the parameter substitution
                    for fld, val in ast.iter_fields(s2):
                        if fld in ("body", "orelse", "finalbody", "handlers"):
                            continue
                        if isinstance(val, ast.AST):
                            setattr(s2, fld, sub.visit(copy.deepcopy(val)))
                        elif isinstance(val, list) and val and isinstance(val[0], ast.AST) and not isinstance(val[0], ast.stmt):
                            setattr(s2, fld, [sub.visit(copy.deepcopy(v)) for v in val])
                    out.append(s2)
            return out

        out = prologue + rewrite(body2)
        for s_ in out:
            ast.fix_missing_locations(s_)
        return out or None

    def _block(self, stmts: List[ast.stmt], cls: Optional[str], caller_names: Set[str], stack: Tuple[str, ...], changed: List[bool]) -> List[ast.stmt]:
        out: List[ast.stmt] = []
        if any(isinstance(st, ast.For) and isinstance(st.iter, ast.Name) for st in stmts):
            split = _split_selected_source(stmts, lambda c: isinstance(c, ast.Call) and self._resolve(c, cls, False, stack, generator=True) is not None,
                                           getattr(self, "_load_counts", {}))
            if split is not None:
                stmts = split
                changed[0] = True
        for st in stmts:
            rep: Optional[List[ast.stmt]] = None
            if isinstance(st, ast.Return) and st.value is not None:
                call, aw = _call_of(st.value)
                if call is not None:
                    r = self._resolve(call, cls, aw, stack)
                    if r:
                        rep = self._inline(r[1], r[2], caller_names, "return", None, st, True)
            elif isinstance(st, ast.Assign) and len(st.targets) == 1:
                call, aw = _call_of(st.value)
                if call is not None:
                    r = self._resolve(call, cls, aw, stack)
                    if r:
                        rep = self._inline(r[1], r[2], caller_names, "assign", st.targets, st, False)
            elif isinstance(st, ast.Expr):
                call, aw = _call_of(st.value)
                if call is not None:
                    r = self._resolve(call, cls, aw, stack)
                    if r:
                        rep = self._inline(r[1], r[2], caller_names, "expr", None, st, False)
            if rep is None and isinstance(st, ast.For) and not st.orelse and isinstance(st.iter, ast.Call):
                r = self._resolve(st.iter, cls, False, stack, generator=True)
                if r:
                    rep = self._inline_generator(r[1], r[2], caller_names, st)
            if rep is None and isinstance(st, (ast.With, ast.AsyncWith)):
                rep = self._with_contextmanager(st, cls)
            if rep is None:
                rep = _iter_sentinel_loop(st)
            if rep is None:
                rep = _dict_update_as_stores(st)
            if rep is None:
                rep = _walrus_loop(st)
            if rep is None and stack:
                rep = _local_def_as_lambda(st)
            if rep is not None:
                changed[0] = True
                out.extend(rep)
                continue
            for fld in ("body", "orelse", "finalbody"):
                sub = getattr(st, fld, None)
                if isinstance(sub, list) and sub and isinstance(sub[0], ast.stmt) and not isinstance(st, (ast.FunctionDef, ast.AsyncFunctionDef, ast.ClassDef)):
                    setattr(st, fld, self._block(sub, cls, caller_names, stack, changed))
            if isinstance(st, ast.Try):
                for hd in st.handlers:
                    hd.body = self._block(hd.body, cls, caller_names, stack, changed)
            if hasattr(ast, "Match") and isinstance(st, getattr(ast, "Match")):
                for case in st.cases:
                    case.body = self._block(case.body, cls, caller_names, stack, changed)
            out.append(st)
        return out

    def _contextmanager_parts(self, call: ast.AST, cls: Optional[str]):
        """`self.M()` with M a @contextmanager generator method of the class, without parameters, of the form
        `pre; try: yield  finally: post` (or `pre; yield; post`) that binds no local: (pre, post, guarded)"""
        if not (isinstance(call, ast.Call) and not call.args and not call.keywords and isinstance(call.func, ast.Attribute) and isinstance(call.func.value, ast.Name)
                and call.func.value.id == "self" and cls is not None):
            return None
        q = f"{cls}.{call.func.attr}"
        if q not in self.mod.defs or len(self.mod.defs[q]) != 1 or not isinstance(self.mod.defs[q][0], ast.FunctionDef):
            return None
        h = self.mod.defs[q][0]
        decos = [ast.unparse(d).split(".")[-1] for d in h.decorator_list]
        if decos != ["contextmanager"] or len(h.args.args) != 1 or h.args.vararg or h.args.kwarg or h.args.kwonlyargs:
            return None
        body = list(h.body)
        if body and isinstance(body[0], ast.Expr) and isinstance(body[0].value, ast.Constant) and isinstance(body[0].value.value, str):
            body = body[1:]
        yields = [n for n in ast.walk(h) if isinstance(n, (ast.Yield, ast.YieldFrom))]
        if len(yields) != 1 or not isinstance(yields[0], ast.Yield) or yields[0].value is not None:
            return None
        if any(isinstance(n, ast.Name) and isinstance(n.ctx, ast.Store) for n in ast.walk(h)) or any(isinstance(n, (ast.Return, ast.FunctionDef, ast.Lambda)) for n in ast.walk(h) if n is not h):
            return None

        def is_yield(st_):
            return isinstance(st_, ast.Expr) and st_.value is yields[0]

        for k, st_ in enumerate(body):
            if is_yield(st_):
                return body[:k], body[k + 1:], False
            if isinstance(st_, ast.Try) and len(st_.body) == 1 and is_yield(st_.body[0]) and not st_.handlers and not st_.orelse and k == len(body) - 1:
                return body[:k], list(st_.finalbody), True
            if any(n is yields[0] for n in ast.walk(st_)):
                return None
        return None

    def _with_contextmanager(self, st: ast.AST, cls: Optional[str]) -> Optional[List[ast.stmt]]:
        """`with self.M(): BODY` for such an M is `pre; try: BODY  finally: post` - what contextlib does with the generator"""
        if isinstance(st, ast.AsyncWith) or len(st.items) != 1 or st.items[0].optional_vars is not None:
            return None
        parts = self._contextmanager_parts(st.items[0].context_expr, cls)
        if parts is None:
            return None
        pre, post, guarded = parts
        pre, post = copy.deepcopy(pre), copy.deepcopy(post)
        if guarded:
            inner: List[ast.stmt] = [ast.Try(body=list(st.body), handlers=[], orelse=[], finalbody=post)]
        else:
            inner = list(st.body) + post
        out = pre + inner
        for x in out:
            ast.copy_location(x, st)
            ast.fix_missing_locations(x)
        return out

    def expand(self, qual: str, index: int, fn: ast.AST) -> ast.AST:
        key = (qual, index)
        if key in self.cache:
            return self.cache[key]
        result = fn
        cls = qual.rsplit(".", 1)[0] if "." in qual else None
        if cls is not None and cls not in self.mod.defs:
            cls = None
        # a single-record reader called outside the generator that wraps it: written as next(<generator>(..), None)
        thin = getattr(self, "_thin", None)
        if thin is None:
            thin = self._thin = _thin_generators(self.mod)
        if thin and qual not in thin and qual not in {g for g, _ in thin.values()} and any(
                isinstance(c, ast.Call) and isinstance(c.func, ast.Name) and c.func.id in thin for c in ast.walk(fn)):
            cp = copy.deepcopy(fn)
            tr = _ReaderAsNext(thin)
            cp = tr.visit(cp)
            if tr.changed:
                ast.fix_missing_locations(cp)
                cp._vt_qual = qual
                cp._vt_origin = fn
                fn = result = cp
        if any(isinstance(n_, ast.Name) and n_.id == "ParsedField" for n_ in ast.walk(fn)) or any(
                isinstance(n_, ast.Assign) and len(n_.targets) == 1 and isinstance(n_.targets[0], ast.Tuple) and len(n_.targets[0].elts) == 4 and isinstance(n_.value, ast.Name) for n_ in ast.walk(fn)):
            cp = copy.deepcopy(fn)
            if normalise_records(cp, self.mod):
                cp._vt_qual = qual
                cp._vt_origin = getattr(fn, "_vt_origin", fn)
                fn = result = cp
        tagt = _tag_tables(self.mod)
        if tagt and any(isinstance(n_, ast.Attribute) and n_.attr in tagt for n_ in ast.walk(fn)):
            cp = copy.deepcopy(fn)
            if tag_lookup_as_two_steps(cp, tagt):
                cp._vt_qual = qual
                cp._vt_origin = getattr(fn, "_vt_origin", fn)
                fn = result = cp
        if any(isinstance(n_, ast.Attribute) and n_.attr == "_group_current" for n_ in ast.walk(fn)) and any(
                isinstance(n_, ast.Call) and isinstance(n_.func, ast.Name) and n_.func.id == "getattr" for n_ in ast.walk(fn)):
            cp = copy.deepcopy(fn)
            if unselected_tests_as_try(cp):
                cp._vt_qual = qual
                cp._vt_origin = getattr(fn, "_vt_origin", fn)
                fn = result = cp
        # quick exit: no call to an unknown unit anywhere
        if self._has_candidate(fn, cls, qual):
            work = copy.deepcopy(fn)
            any_change = False
            for _ in range(MAX_ROUNDS):
                changed = [False]
                names = {n.id for n in ast.walk(work) if isinstance(n, ast.Name)} | {a.arg for a in ast.walk(work) if isinstance(a, ast.arg)}
                self._locals = _local_callables(work)
                self._load_counts = {}
                for n_ in ast.walk(work):
                    if isinstance(n_, ast.Name) and isinstance(n_.ctx, ast.Load):
                        self._load_counts[n_.id] = self._load_counts.get(n_.id, 0) + 1
                if any(isinstance(v, ast.Lambda) for v in self._locals.values()):
                    ap = _ApplyLambdas(self._locals)
                    work.body = [ap.visit(st) for st in work.body]
                    if ap.changed:
                        changed[0] = True
                        ast.fix_missing_locations(work)
                work.body = self._block(work.body, cls, names, (qual,), changed)
                self._caller_locals = _assigned_names(work) | {a.arg for a in ast.walk(work) if isinstance(a, ast.arg)}
                eh = _ApplyExprHelpers(self, cls, (qual,))
                work.body = [eh.visit(st) for st in work.body]
                if eh.changed:
                    changed[0] = True
                    ast.fix_missing_locations(work)
                self._locals = {}
                if changed[0] and any(isinstance(n_, ast.Name) and n_.id.startswith("_ret__") for n_ in ast.walk(work)):
                    thread_none_tests(work)
                    sent = _module_sentinels(self.mod)
                    if sent:
                        thread_sentinel_tests(work, sent)
                if not changed[0]:
                    break
                any_change = True
            if any_change:
                work._vt_qual = qual          # where the copy came from (class context, recursion guard)
                work._vt_origin = fn
                result = work
        self.cache[key] = result
        return result

    def _has_candidate(self, fn: ast.AST, cls: Optional[str], qual: str) -> bool:
        loc = _local_callables(fn)
        if loc and any(isinstance(n, ast.Call) and isinstance(n.func, ast.Name) and n.func.id in loc for n in ast.walk(fn)):
            return True
        for n in ast.walk(fn):
            if isinstance(n, ast.Expr) and _dict_update_as_stores(n) is not None:
                return True
            if isinstance(n, ast.With) and len(n.items) == 1 and self._contextmanager_parts(n.items[0].context_expr, cls) is not None:
                return True
            if isinstance(n, ast.For) and _iter_sentinel_loop(n) is not None:
                return True
            if isinstance(n, ast.While) and _walrus_loop(n) is not None:
                return True
            if n is not fn and isinstance(n, ast.FunctionDef) and _local_def_as_lambda(n) is not None:
                return True
            if isinstance(n, ast.Call):
                f = n.func
                q = None
                if isinstance(f, ast.Name):
                    q = f.id
                elif isinstance(f, ast.Attribute) and isinstance(f.value, ast.Name) and cls is not None and f.value.id in ("self", "cls", cls):
                    q = f"{cls}.{f.attr}"
                if q and q != qual and q in self.mod.defs and q not in self.known:
                    return True
        return False


def split_conditional_returns(fn: ast.AST) -> ast.AST:
    """a copy of fn in which `return A if T else B` is written `if T: return A` / `return B` (same behaviour; gives
    statement-level rules the test as a branch)"""
    if not any(isinstance(n, ast.Return) and isinstance(n.value, ast.IfExp) for n in ast.walk(fn)):
        return fn
    root = copy.deepcopy(fn)

    class R(ast.NodeTransformer):
        def visit_FunctionDef(self, n):
            if n is not root:
                return n
            self.generic_visit(n)
            return n

        visit_AsyncFunctionDef = visit_FunctionDef

        def visit_Lambda(self, n):
            return n

        def visit_Return(self, n: ast.Return):
            v = n.value
            if isinstance(v, ast.IfExp):
                a = self.visit_Return(ast.copy_location(ast.Return(v.body), n))
                b = self.visit_Return(ast.copy_location(ast.Return(v.orelse), n))
                iff = ast.copy_location(ast.If(v.test, a if isinstance(a, list) else [a], []), n)
                return [iff] + (b if isinstance(b, list) else [b])
            return n

    out = R().visit(root)
    ast.fix_missing_locations(out)
    return out


def propagate_pure_flags(fn: ast.AST) -> ast.AST:
    """a copy of fn in which a local flag `b = <comparison / boolean combination of names and constants>` that is assigned
    exactly once, at the top level of the function, from names that are not assigned afterwards, is replaced by its
    definition wherever it is read (same behaviour; lets statement-level rules see what a test asks)"""
    def pure(e: ast.AST) -> bool:
        if isinstance(e, (ast.Name, ast.Constant)):
            return True
        if isinstance(e, ast.Compare):
            return pure(e.left) and all(pure(c) for c in e.comparators)
        if isinstance(e, ast.BoolOp):
            return all(pure(v) for v in e.values)
        if isinstance(e, ast.UnaryOp) and isinstance(e.op, ast.Not):
            return pure(e.operand)
        return False

    stores: Dict[str, List[ast.AST]] = {}
    for n in ast.walk(fn):
        if isinstance(n, ast.Name) and isinstance(n.ctx, (ast.Store, ast.Del)):
            stores.setdefault(n.id, []).append(n)
    params = {a.arg for a in ast.walk(fn.args) if isinstance(a, ast.arg)}
    flags: Dict[str, Tuple[ast.AST, int]] = {}
    for st in fn.body:
        if isinstance(st, ast.Assign) and len(st.targets) == 1 and isinstance(st.targets[0], ast.Name) and isinstance(st.value, (ast.Compare, ast.BoolOp, ast.UnaryOp)) \
                and pure(st.value) and len(stores.get(st.targets[0].id, [])) == 1 and st.targets[0].id not in params:
            used = {x.id for x in ast.walk(st.value) if isinstance(x, ast.Name)}
            if all(all(s.lineno < st.lineno for s in stores.get(u, [])) for u in used):
                flags[st.targets[0].id] = (st.value, st.lineno)
    if not flags:
        return fn
    root = copy.deepcopy(fn)

    class R(ast.NodeTransformer):
        def visit_Name(self, n: ast.Name):
            if isinstance(n.ctx, ast.Load) and n.id in flags and n.lineno > flags[n.id][1]:
                return ast.copy_location(copy.deepcopy(flags[n.id][0]), n)
            return n

    out = R().visit(root)
    ast.fix_missing_locations(out)
    return out


def propagate_method_aliases(fn: ast.AST) -> ast.AST:
    """a copy of fn in which a local that is bound exactly once to an attribute of a stable receiver
    (`raw_get = super().__getattribute__`, `put = self._queue.put`) is replaced by that attribute wherever it is read
    afterwards (looking the attribute up once or at each use is the same)"""
    def stable(e: ast.AST) -> bool:
        if isinstance(e, ast.Name):
            return True
        if isinstance(e, ast.Attribute):
            return stable(e.value)
        return isinstance(e, ast.Call) and isinstance(e.func, ast.Name) and e.func.id == "super" and not e.args and not e.keywords

    stores: Dict[str, int] = {}
    for n in ast.walk(fn):
        if isinstance(n, ast.Name) and isinstance(n.ctx, (ast.Store, ast.Del)):
            stores[n.id] = stores.get(n.id, 0) + 1
    params = {a.arg for a in ast.walk(fn.args) if isinstance(a, ast.arg)}
    aliases: Dict[str, Tuple[ast.AST, int]] = {}
    for n in ast.walk(fn):
        if isinstance(n, ast.Assign) and len(n.targets) == 1 and isinstance(n.targets[0], ast.Name) and isinstance(n.value, ast.Attribute) and stable(n.value):
            x = n.targets[0].id
            used = {y.id for y in ast.walk(n.value) if isinstance(y, ast.Name)}
            if stores.get(x) == 1 and x not in params and not any(stores.get(u) for u in used if u not in ("self", "cls")):
                aliases[x] = (n.value, n.lineno)
    if not aliases:
        return fn
    root = copy.deepcopy(fn)

    class R(ast.NodeTransformer):
        def visit_Name(self, n: ast.Name):
            if isinstance(n.ctx, ast.Load) and n.id in aliases and n.lineno > aliases[n.id][1]:
                return ast.copy_location(copy.deepcopy(aliases[n.id][0]), n)
            return n

    out = R().visit(root)
    ast.fix_missing_locations(out)
    for attr in ("_vt_qual", "_vt_origin"):
        if hasattr(fn, attr):
            setattr(out, attr, getattr(fn, attr))
    return out
