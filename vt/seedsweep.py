"""Run the checks against every seeded change in /verif/seeded (each applied to a
scratch copy of /repo's sources, never to /repo itself) and tabulate which rule
reports which change.  python -m vt.seedsweep [--all-props] [seed ids...]"""
from __future__ import annotations

import contextlib
import io
import json
import os
import sys
from concurrent.futures import ProcessPoolExecutor
from pathlib import Path
from typing import Dict, List, Tuple

VERIF = Path(__file__).resolve().parent.parent


def run_seed(args: Tuple[str, List[str]]) -> Tuple[str, Dict[str, Tuple[int, List[str]]]]:
    sid, props = args
    os.environ["VT_NO_EVIDENCE"] = "1"
    from .cli import run_one
    from .mut import variant_from_patch

    out: Dict[str, Tuple[int, List[str]]] = {}
    with variant_from_patch(VERIF / "seeded" / sid / "patch.diff") as root:
        for p in props:
            buf = io.StringIO()
            with contextlib.redirect_stdout(buf), contextlib.redirect_stderr(buf):
                code = run_one(p, "quick", str(root))
            lines = [l.strip() for l in buf.getvalue().splitlines() if l.startswith("  refuted:") or l.startswith("ANALYSIS")]
            out[p] = (code, lines)
    return sid, out


def main() -> int:
    from .cli import PROPS

    argv = sys.argv[1:]
    all_props = "--all-props" in argv
    ids = [a for a in argv if not a.startswith("--")]
    seeds = sorted(d.name for d in (VERIF / "seeded").iterdir() if d.is_dir() and (not ids or d.name in ids))
    jobs = []
    for s in seeds:
        meta = json.loads((VERIF / "seeded" / s / "meta.json").read_text())
        jobs.append((s, PROPS if all_props else [meta["property"]]))
    caught = 0
    with ProcessPoolExecutor(max_workers=min(16, len(jobs) or 1)) as ex:
        for sid, res in ex.map(run_seed, jobs):
            own = json.loads((VERIF / "seeded" / sid / "meta.json").read_text())["property"]
            viol = {p: (c, l) for p, (c, l) in res.items() if c != 0}
            own_code = res[own][0]
            status = "CAUGHT" if own_code == 1 else ("INCONCLUSIVE" if own_code == 2 else "missed")
            if own_code == 1:
                caught += 1
            rules = sorted({l.split()[1] for p, (c, ls) in viol.items() for l in ls if l.startswith("refuted:")})
            others = sorted(p for p in viol if p != own and viol[p][0] == 1)
            print(f"{sid:7s} {status:12s} rules={','.join(rules) or '-':30s} also-flagged-by={','.join(others) or '-'}")
            if own_code == 2:
                for l in res[own][1][:2]:
                    print("          ", l[:160])
    print(f"{caught}/{len(jobs)} seeded changes reported as VIOLATION by the check of their own property")
    return 0


if __name__ == "__main__":
    sys.exit(main())
