"""Run ALL checks against every behaviour-preserving refactor in /verif/kept (each applied to a scratch copy of /repo's
sources, never to /repo itself): every check must still exit 0.  A non-zero exit is a false alarm (exit 1) or a rule that
does not recognise a legitimate way of writing the code (exit 2) - both are defects of the checker.
python -m vt.keepsweep [ids...]"""
from __future__ import annotations

import contextlib
import io
import os
import sys
from concurrent.futures import ProcessPoolExecutor
from pathlib import Path
from typing import Dict, List, Tuple

VERIF = Path(__file__).resolve().parent.parent


def run_keep(kid: str) -> Tuple[str, Dict[str, Tuple[int, List[str]]]]:
    os.environ["VT_NO_EVIDENCE"] = "1"
    from .cli import PROPS, run_one
    from .mut import variant_from_patch

    out: Dict[str, Tuple[int, List[str]]] = {}
    try:
        with variant_from_patch(VERIF / "kept" / kid / "patch.diff") as root:
            for p in PROPS:
                buf = io.StringIO()
                with contextlib.redirect_stdout(buf), contextlib.redirect_stderr(buf):
                    code = run_one(p, "quick", str(root))
                if code != 0:
                    lines = [l.strip() for l in buf.getvalue().splitlines() if l.startswith("  refuted:") or l.startswith("ANALYSIS")]
                    out[p] = (code, lines)
    except Exception as e:  # patch no longer applies etc.
        out["*"] = (3, [f"{type(e).__name__}: {e}"])
    return kid, out


def main() -> int:
    ids = [a for a in sys.argv[1:] if not a.startswith("--")]
    kept = sorted(d.name for d in (VERIF / "kept").iterdir() if d.is_dir() and (not ids or d.name in ids)) if (VERIF / "kept").exists() else []
    bad = 0
    with ProcessPoolExecutor(max_workers=min(16, len(kept) or 1)) as ex:
        for kid, res in ex.map(run_keep, kept):
            if not res:
                print(f"{kid:10s} silent")
                continue
            bad += 1
            for p, (code, lines) in sorted(res.items()):
                kind = {1: "FALSE-ALARM", 2: "NOT-RECOGNISED", 3: "PATCH"}[code]
                print(f"{kid:10s} {kind:15s} {p}: " + (lines[0][:200] if lines else ""))
                for l in lines[1:3]:
                    print(" " * 27 + l[:200])
    print(f"{len(kept) - bad}/{len(kept)} behaviour-preserving refactors leave every check silent")
    return 0 if bad == 0 else 1


if __name__ == "__main__":
    sys.exit(main())
