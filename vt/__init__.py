"""Static verification toolkit for python-betterproto (see /verif/DESIGN.md).

Nothing in this package imports or executes code under /repo: sources are read
as text and analysed as syntax trees.
"""
