"""Scratch-copy variants of the repository sources for testing the checkers
both ways (must-fire mutants and must-stay-silent refactors).

A variant is a list of text edits (relpath, old, new[, count]).  The variant is
materialised under a temporary directory outside /repo and /verif (only
src/betterproto is copied) and removed afterwards."""
from __future__ import annotations

import contextlib
import os
import shutil
import sys
import tempfile
from pathlib import Path
from typing import Iterator, List, Sequence, Tuple

from .src import PKG, repo_root

Edit = Tuple[str, str, str]


class EditError(Exception):
    pass


@contextlib.contextmanager
def variant(edits: Sequence[Edit], base: Path | None = None) -> Iterator[Path]:
    base = base or repo_root()
    tmp = Path(tempfile.mkdtemp(prefix="vt-variant-"))
    try:
        shutil.copytree(base / PKG, tmp / PKG, ignore=shutil.ignore_patterns("__pycache__"))
        for rel, old, new in edits:
            p = tmp / rel
            s = p.read_text()
            if s.count(old) != 1:
                raise EditError(f"{rel}: pattern occurs {s.count(old)} times: {old[:60]!r}")
            p.write_text(s.replace(old, new))
        yield tmp
    finally:
        shutil.rmtree(tmp, ignore_errors=True)


def main() -> int:
    # python -m vt.mut C09 file old new [file old new ...]
    from .cli import run_one

    prop = sys.argv[1]
    a = sys.argv[2:]
    edits = [(a[i], a[i + 1], a[i + 2]) for i in range(0, len(a), 3)]
    with variant(edits) as root:
        return run_one(prop, "quick", str(root))




@contextlib.contextmanager
def variant_from_patch(patch: Path, base: Path | None = None) -> Iterator[Path]:
    """scratch copy of the sources with a unified diff applied (used for the seeded changes)"""
    import subprocess

    base = base or repo_root()
    tmp = Path(tempfile.mkdtemp(prefix="vt-variant-"))
    try:
        shutil.copytree(base / PKG, tmp / PKG, ignore=shutil.ignore_patterns("__pycache__"))
        r = subprocess.run(["patch", "-p1", "-s", "-d", str(tmp), "-i", str(patch)], capture_output=True, text=True)
        if r.returncode != 0:
            raise EditError(f"patch does not apply: {r.stdout} {r.stderr}")
        yield tmp
    finally:
        shutil.rmtree(tmp, ignore_errors=True)


if __name__ == "__main__":
    sys.exit(main())
