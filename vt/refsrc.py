"""E7 - reference tables read from the *source text* of the reference
implementations installed next to the repository (never imported), with an
embedded spec table as fallback and cross-check."""
from __future__ import annotations

import ast
import glob
import os
from pathlib import Path
from typing import Any, Dict, Optional, Tuple

from .src import AnalysisError, fold, _Unfoldable

# (a) spec tables embedded in the checker ------------------------------------
# protobuf encoding guide: wire type per scalar type
SPEC_WIRE = {
    "double": 1, "float": 5, "int64": 0, "uint64": 0, "int32": 0, "fixed64": 1, "fixed32": 5, "bool": 0,
    "string": 2, "message": 2, "bytes": 2, "uint32": 0, "enum": 0, "sfixed32": 5, "sfixed64": 1,
    "sint32": 0, "sint64": 0, "map": 2,
}
SPEC_WIRETYPES = {"VARINT": 0, "FIXED64": 1, "LENGTH_DELIMITED": 2, "START_GROUP": 3, "END_GROUP": 4, "FIXED32": 5}
SPEC_TAG_BITS = 3
SPEC_FMT = {"fixed32": "<I", "fixed64": "<Q", "sfixed32": "<i", "sfixed64": "<q", "float": "<f", "double": "<d"}
SPEC_ZIGZAG = {"sint32", "sint64"}
SPEC_SIGNED_VARINT = {"int32", "int64", "sint32", "sint64", "enum"}   # decoders must be able to yield negatives
SPEC_INT64_JSON = {"int64", "uint64", "sint64", "fixed64", "sfixed64"}
SPEC_JSON_SPECIALS = {"INFINITY": "Infinity", "NEG_INFINITY": "-Infinity", "NAN": "NaN"}
SPEC_STRUCT_SIZE = {"d": 8, "q": 8, "Q": 8, "f": 4, "i": 4, "I": 4}
SPEC_PACKABLE = {t for t, w in SPEC_WIRE.items() if w != 2}
SPEC_CARDINALITY = {  # (client_streaming, server_streaming)
    "UNARY_UNARY": (False, False), "UNARY_STREAM": (False, True), "STREAM_UNARY": (True, False), "STREAM_STREAM": (True, True),
}


def site_packages() -> Optional[Path]:
    env = os.environ.get("VERIF_SITE_PACKAGES")
    if env:
        return Path(env)
    for p in glob.glob("/venv/lib/python3*/site-packages"):
        return Path(p)
    return None


def _parse(rel: str) -> Optional[ast.Module]:
    sp = site_packages()
    if sp is None:
        return None
    p = sp / rel
    if not p.exists():
        return None
    try:
        return ast.parse(p.read_text())
    except SyntaxError:
        return None


def _module_consts(tree: ast.Module) -> Dict[str, Any]:
    env: Dict[str, Any] = {}
    for st in tree.body:
        if isinstance(st, ast.Assign) and len(st.targets) == 1 and isinstance(st.targets[0], ast.Name):
            try:
                env[st.targets[0].id] = fold(st.value, env)
            except _Unfoldable:
                pass
    return env


class Reference:
    """tables extracted from google.protobuf / grpclib sources; each accessor
    returns (table, origin) and verifies agreement with the embedded spec table"""

    def __init__(self) -> None:
        self.notes = []

    def wire_tables(self) -> Tuple[Dict[str, int], Dict[str, int], int, str]:
        wf = _parse("google/protobuf/internal/wire_format.py")
        tc = _parse("google/protobuf/internal/type_checkers.py")
        if wf is None or tc is None:
            return dict(SPEC_WIRE), dict(SPEC_WIRETYPES), SPEC_TAG_BITS, "embedded spec table (reference source not present)"
        wenv = _module_consts(wf)
        wiretypes = {k[len("WIRETYPE_"):]: v for k, v in wenv.items() if k.startswith("WIRETYPE_") and isinstance(v, int)}
        tag_bits = wenv.get("TAG_TYPE_BITS")
        table: Dict[str, int] = {}
        for st in tc.body:
            if isinstance(st, ast.Assign) and len(st.targets) == 1 and isinstance(st.targets[0], ast.Name) \
                    and st.targets[0].id == "FIELD_TYPE_TO_WIRE_TYPE" and isinstance(st.value, ast.Dict):
                for k, v in zip(st.value.keys, st.value.values):
                    if isinstance(k, ast.Attribute) and isinstance(v, ast.Attribute) and k.attr.startswith("TYPE_"):
                        t = k.attr[len("TYPE_"):].lower()
                        w = wenv.get(v.attr)
                        if isinstance(w, int):
                            table[t] = w
        if not table or tag_bits is None:
            return dict(SPEC_WIRE), dict(SPEC_WIRETYPES), SPEC_TAG_BITS, "embedded spec table (reference tables not extractable)"
        # the oracle must agree with the embedded spec on what they share
        for t, w in table.items():
            if t in SPEC_WIRE and SPEC_WIRE[t] != w:
                raise AnalysisError(f"oracle inconsistent: reference says {t}->{w}, spec table {SPEC_WIRE[t]}")
        for k, v in wiretypes.items():
            if k in SPEC_WIRETYPES and SPEC_WIRETYPES[k] != v:
                raise AnalysisError(f"oracle inconsistent: WIRETYPE_{k}")
        if tag_bits != SPEC_TAG_BITS:
            raise AnalysisError("oracle inconsistent: TAG_TYPE_BITS")
        table.setdefault("map", 2)
        table.pop("group", None)
        return table, wiretypes, tag_bits, "google/protobuf/internal/{type_checkers,wire_format}.py (source text)"

    def struct_formats(self) -> Tuple[Dict[str, str], str]:
        enc = _parse("google/protobuf/internal/encoder.py")
        if enc is None:
            return dict(SPEC_FMT), "embedded spec table"
        names = {"Fixed32Encoder": "fixed32", "Fixed64Encoder": "fixed64", "SFixed32Encoder": "sfixed32",
                 "SFixed64Encoder": "sfixed64", "FloatEncoder": "float", "DoubleEncoder": "double"}
        out: Dict[str, str] = {}
        for st in enc.body:
            if isinstance(st, ast.Assign) and len(st.targets) == 1 and isinstance(st.targets[0], ast.Name) \
                    and st.targets[0].id in names and isinstance(st.value, ast.Call) and len(st.value.args) == 2 \
                    and isinstance(st.value.args[1], ast.Constant):
                out[names[st.targets[0].id]] = st.value.args[1].value
        if len(out) != 6:
            return dict(SPEC_FMT), "embedded spec table (reference formats not extractable)"
        if out != SPEC_FMT:
            raise AnalysisError("oracle inconsistent: struct formats")
        return out, "google/protobuf/internal/encoder.py (source text)"

    def json_constants(self) -> Tuple[Dict[str, str], str]:
        jf = _parse("google/protobuf/json_format.py")
        if jf is None:
            return dict(SPEC_JSON_SPECIALS), "embedded spec table"
        env = _module_consts(jf)
        out = {"INFINITY": env.get("_INFINITY"), "NEG_INFINITY": env.get("_NEG_INFINITY"), "NAN": env.get("_NAN")}
        if any(v is None for v in out.values()):
            return dict(SPEC_JSON_SPECIALS), "embedded spec table (reference constants not extractable)"
        if out != SPEC_JSON_SPECIALS:
            raise AnalysisError("oracle inconsistent: JSON special float names")
        return out, "google/protobuf/json_format.py (source text)"

    def cardinality(self) -> Tuple[Dict[str, Tuple[bool, bool]], str]:
        gc = _parse("grpclib/const.py")
        if gc is None:
            return dict(SPEC_CARDINALITY), "embedded spec table"
        out: Dict[str, Tuple[bool, bool]] = {}
        for st in gc.body:
            if isinstance(st, ast.ClassDef) and st.name == "Cardinality":
                # members are _Cardinality(client_streaming, server_streaming)
                for b in st.body:
                    if isinstance(b, ast.Assign) and len(b.targets) == 1 and isinstance(b.targets[0], ast.Name) and isinstance(b.value, ast.Call):
                        vals = []
                        for a in b.value.args:
                            if isinstance(a, ast.Constant):
                                vals.append(a.value)
                        for k in b.value.keywords:
                            if isinstance(k.value, ast.Constant):
                                vals.append(k.value.value)
                        if len(vals) == 2:
                            out[b.targets[0].id] = (bool(vals[0]), bool(vals[1]))
        if set(out) != set(SPEC_CARDINALITY):
            return dict(SPEC_CARDINALITY), "embedded spec table (grpclib Cardinality not extractable)"
        if out != SPEC_CARDINALITY:
            raise AnalysisError("oracle inconsistent: grpclib Cardinality")
        return out, "grpclib/const.py (source text)"

    def handler_fields(self) -> Tuple[Tuple[str, ...], str]:
        gc = _parse("grpclib/const.py")
        spec = ("func", "cardinality", "request_type", "reply_type")
        if gc is None:
            return spec, "embedded"
        for st in ast.walk(gc):
            if isinstance(st, ast.Assign) and len(st.targets) == 1 and isinstance(st.targets[0], ast.Name) and st.targets[0].id == "Handler" \
                    and isinstance(st.value, ast.Call):
                for a in st.value.args:
                    if isinstance(a, ast.Constant) and isinstance(a.value, str) and "func" in a.value:
                        got = tuple(a.value.replace(",", " ").split())
                        if got != spec:
                            raise AnalysisError(f"oracle inconsistent: grpclib Handler fields {got}")
                        return got, "grpclib/const.py (source text)"
        return spec, "embedded"

    def channel_request_params(self) -> Tuple[Tuple[str, ...], str]:
        gc = _parse("grpclib/client.py")
        spec = ("name", "cardinality", "request_type", "reply_type", "timeout", "deadline", "metadata")
        if gc is None:
            return spec, "embedded"
        for st in ast.walk(gc):
            if isinstance(st, ast.ClassDef) and st.name == "Channel":
                for b in st.body:
                    if isinstance(b, ast.FunctionDef) and b.name == "request":
                        got = tuple(a.arg for a in b.args.args[1:] + b.args.kwonlyargs)
                        return got, "grpclib/client.py (source text)"
        return spec, "embedded"
