"""E4 - the length homomorphism L and canonical forms for length terms.

L maps a bytes-valued term to the canonical term for its length, so that the
"writer" sibling (dump / _serialize_single / _preprocess_single / dump_varint)
can be compared with the "sizer" sibling (__len__ / _len_single / ...).

Canonical length term: ('sum', (summand, ...)) with summands sorted, integer
constants folded into one ('c', n); a summand is one of
  ('c', n)
  ('call', size_varint|_len_single|_len_preprocessed_single, ...)   sizer calls
  ('len', x)             length of an opaque bytes-like / message value x
  ('ife', t, A, B)       A, B canonical
  ('or', A, B)           python `A or B` on lengths (A if A else B)
"""
from __future__ import annotations

from typing import Dict, List, Optional, Tuple

from .sym import A, C, N, OP, Sym, dotted, show, simplify

# writer -> sizer correspondence (function names); part of the declared map phi
WRITER_TO_SIZER = {
    "encode_varint": "size_varint",
    "_serialize_single": "_len_single",
    "_preprocess_single": "_len_preprocessed_single",
}
SIZERS = set(WRITER_TO_SIZER.values())


def _sum(parts: List[Sym]) -> Sym:
    flat: List[Sym] = []
    const = 0
    for p in parts:
        if p[0] == "sum":
            for q in p[1]:
                if q[0] == "c" and isinstance(q[1], int):
                    const += q[1]
                else:
                    flat.append(q)
        elif p[0] == "c" and isinstance(p[1], int) and not isinstance(p[1], bool):
            const += p[1]
        else:
            flat.append(p)
    flat.sort(key=repr)
    if const:
        flat.append(C(const))
    return ("sum", tuple(flat))


def norm_arith(s: Sym) -> Sym:
    """light canonicalisation of integer arithmetic inside sizer arguments:
    commutativity of | & ^ + *, ~0 == -1, x ^ -1 == ~x, constant folding"""
    if not isinstance(s, tuple) or not s:
        return s
    if s[0] == "op":
        op = s[1]
        xs = tuple(norm_arith(x) for x in s[2:])
        t = simplify(("op", op) + xs)
        if t[0] != "op":
            return t
        op, xs = t[1], t[2:]
        if op == "^" and len(xs) == 2:
            a, b = xs
            if b == C(-1):
                return ("op", "~", a)
            if a == C(-1):
                return ("op", "~", b)
        if op == "+" and len(xs) == 2:
            # an empty buffer is the unit of concatenation: bytearray() + <what the loop appended>
            empty = lambda x: (x[0] == "call" and x[1] in (N("bytearray"), N("bytes")) and not x[2] and not x[3]) or (x[0] == "c" and x[1] in (b"", ""))
            if empty(xs[0]) and xs[1][0] == "acc":
                return xs[1]
            if empty(xs[1]) and xs[0][0] == "acc":
                return xs[0]
        if op in ("|", "&", "^", "+", "*") and len(xs) == 2:
            a, b = sorted(xs, key=repr)
            return ("op", op, a, b)
        return ("op", op) + xs
    if s[0] == "call":
        # b"".join([E for x in IT]) / b"".join(E for x in IT) is the concatenation that `buf = bytearray(); for x in IT: buf += E` builds
        if s[1][0] == "a" and s[1][2] == "join" and s[1][1][0] == "c" and s[1][1][1] in (b"", "") and len(s[2]) == 1 and not s[3] \
                and s[2][0][0] == "call" and s[2][0][1] in (N("$listcomp"), N("$genexp")) and len(s[2][0][2]) == 2 and not s[2][0][3]:
            elt, it = s[2][0][2]
            return ("acc", it, norm_arith(elt))
        return ("call", s[1], tuple(norm_arith(a) for a in s[2]), tuple((k, norm_arith(v)) for k, v in s[3]))
    if s[0] == "ife":
        return simplify(("ife", norm_arith(s[1]), norm_arith(s[2]), norm_arith(s[3])))
    if s[0] == "acc" and len(s) == 3:
        return ("acc", s[1], norm_arith(s[2]))
    return s


def _key_norm(arg: Sym) -> Sym:
    """size_varint((n << 3) | k) does not depend on k for 0 <= k < 8"""
    a = norm_arith(arg)
    if a[0] == "op" and a[1] == "|" and len(a) == 4:
        for x, y in ((a[2], a[3]), (a[3], a[2])):
            if y[0] == "c" and isinstance(y[1], int) and 0 <= y[1] < 8 and x[0] == "op" and x[1] == "<<" and x[3] == C(3):
                return x
    return a


# optional unfolding of a sizer call whose dispatch arguments are constants (set by the rule that owns the source model):
# callback(name, args, kwargs) -> integer expression equal to the call, or None
UNFOLD = None


def sizer_call(name: str, args: Tuple[Sym, ...], kw: Tuple[Tuple[str, Sym], ...]) -> Sym:
    if name == "size_varint" and len(args) == 1:
        return ("call", N(name), (_key_norm(L_value(args[0])),), ())
    if UNFOLD is not None:
        r = UNFOLD(name, args, kw)
        if r is not None:
            return size_term(r)
    # defaults made explicit so that omitted == default
    kwd = dict(kw)
    if name in ("_len_single",):
        kwd.setdefault("serialize_empty", C(False))
        kwd.setdefault("wraps", C(""))
    return ("call", N(name), tuple(norm_arith(a) for a in args), tuple(sorted((k, norm_arith(v)) for k, v in kwd.items())))


def L_value(s: Sym) -> Sym:
    """normalise an *integer* term that may contain len(...) sub-terms"""
    if s[0] == "call" and s[1] == N("len") and len(s[2]) == 1:
        r = L(s[2][0])
        if r[0] == "sum" and len(r[1]) == 1:
            return r[1][0]
        return r
    if (s[0] == "op" and s[1] == "+") or (s[0] == "call" and dotted(s[1]) in SIZERS):
        # a sum of sizes written out by hand is the same integer as the length of the concatenation
        r = size_term(s)
        if r[0] == "sum" and len(r[1]) == 1:
            return r[1][0]
        return r
    if s[0] == "op":
        return ("op", s[1]) + tuple(L_value(x) for x in s[2:])
    return s


def _merge_ife(cond: Sym, a: Sym, b: Sym) -> Sym:
    """length of `x if cond else y`: when cond bounds a variable (v < K / v <= K) and, under that bound, every
    size_varint(..) of the else-length is a constant that turns it into the then-length, both branches have the
    else-length (a fixed-width fast path next to the general varint path)"""
    from .numeric import interval
    from .sym import simplify
    c = simplify(cond)
    neg = False
    if c[0] == "op" and c[1] == "not":
        c, neg = c[2], True
    if neg:
        a, b = b, a          # `not (v < K)`: the bounded branch is the else branch
    bound = None
    if c[0] == "op" and c[1] == "<" and c[3][0] == "c" and isinstance(c[3][1], int) and c[2][0] in ("n", "a"):
        bound = (c[2], c[3][1] - 1)
    if bound is not None:
        var, hi = bound

        def env(t):
            return (0, hi) if t == var else None

        def spec(t: Sym) -> Sym:
            if t[0] == "call" and t[1] == N("size_varint") and len(t[2]) == 1:
                lo_, hi_ = interval(t[2][0], env)
                if lo_ >= 0 and hi_ != float("inf"):
                    n_lo = max(1, -(-int(lo_).bit_length() // 7))
                    n_hi = max(1, -(-int(hi_).bit_length() // 7))
                    if n_lo == n_hi:
                        return C(n_hi)
                return t
            if t[0] == "sum":
                return _sum([spec(x) for x in t[1]])
            return t

        if spec(b) == a:
            return b
    if neg:
        a, b = b, a
    return _sum([("ife", cond, a, b)])


def L(s: Sym) -> Sym:
    """length of the bytes-like term s as canonical sum"""
    k = s[0]
    if k == "c":
        if isinstance(s[1], (bytes, str)):
            return _sum([C(len(s[1]))])
        return _sum([("len", s)])
    if k == "op" and s[1] == "+":
        return _sum([L(x) for x in s[2:]])
    if k == "op" and s[1] == "or" and len(s) == 4:
        return _sum([("or", L(s[2]), L(s[3]))])
    if k == "ife":
        return _merge_ife(s[1], L(s[2]), L(s[3]))
    if k == "acc":
        return _sum([("acc", s[1], L(s[2]))])
    if k == "call":
        name = dotted(s[1])
        base = name.split(".")[-1]
        if base == "join" and s[1][0] == "a" and s[1][1][0] == "c" and isinstance(s[1][1][1], (bytes, str)) and len(s[2]) == 1 and s[2][0][0] in ("tuple", "list"):
            # sep.join((a, b, c)) is len(a) + len(b) + len(c) + (n - 1) * len(sep)
            parts = list(s[2][0][1])
            extra = len(s[1][1][1]) * max(0, len(parts) - 1)
            return _sum([L(x) for x in parts] + ([C(extra)] if extra else []))
        if base == "to_bytes" and s[1][0] == "a" and s[2] and s[2][0][0] == "c" and isinstance(s[2][0][1], int):
            return _sum([C(s[2][0][1])])          # int.to_bytes(k, ...) is k bytes long
        if name in WRITER_TO_SIZER:
            return _sum([sizer_call(WRITER_TO_SIZER[name], s[2], s[3])])
        if name in ("bytes", "bytearray", "memoryview"):
            if not s[2]:
                return _sum([])
            if len(s[2]) == 1:
                return L(s[2][0])
        if base == "getvalue":
            return _sum([("len", s)])
    return _sum([("len", s)])


def size_term(s: Sym) -> Sym:
    """canonical form of an integer *size* expression (the sizer side)"""
    k = s[0]
    if k == "c" and isinstance(s[1], int) and not isinstance(s[1], bool):
        return _sum([s])
    if k == "op" and s[1] == "+":
        return _sum([size_term(x) for x in s[2:]])
    if k == "op" and s[1] == "or" and len(s) == 4:
        return _sum([("or", size_term(s[2]), size_term(s[3]))])
    if k == "ife":
        return _sum([("ife", s[1], size_term(s[2]), size_term(s[3]))])
    if k == "acc":
        return _sum([("acc", s[1], size_term(s[2]))])
    if k == "call":
        name = dotted(s[1])
        if name == "len" and len(s[2]) == 1:
            return L(s[2][0])
        if name in SIZERS:
            return _sum([sizer_call(name, s[2], s[3])])
    return _sum([("int", norm_arith(s))])


def show_len(t: Sym) -> str:
    if t[0] == "sum":
        return " + ".join(show_len(x) for x in t[1]) or "0"
    if t[0] == "len":
        return f"len({show(t[1])})"
    if t[0] == "or":
        return f"({show_len(t[1])} or {show_len(t[2])})"
    if t[0] == "ife":
        return f"({show_len(t[2])} if {show(t[1])} else {show_len(t[3])})"
    if t[0] == "int":
        return show(t[1])
    if t[0] == "acc":
        return f"SUM[{show(t[1])}]({show_len(t[2])})"
    return show(t)


def heads(t: Sym) -> List[str]:
    """the non-arithmetic skeleton of a canonical length term (callee classes and
    constants) - a difference here is a definite difference; a difference only in
    arithmetic arguments is not decided"""
    out: List[str] = []
    if t[0] == "sum":
        for x in t[1]:
            out.extend(heads(x))
        return sorted(out)
    if t[0] == "c":
        return [f"const:{t[1]}"]
    if t[0] == "call":
        name = dotted(t[1])
        if name == "size_varint":
            inner = t[2][0]
            return [f"size_varint[{_arith_head(inner)}]"]
        # sizer with its non-arithmetic arguments
        return [f"{name}({', '.join(_arith_head(a) for a in t[2])}; {', '.join(k + '=' + _arith_head(v) for k, v in t[3])})"]
    if t[0] == "len":
        return [f"len:{_arith_head(t[1])}"]
    if t[0] == "or":
        return ["or(" + "+".join(heads(t[1])) + " | " + "+".join(heads(t[2])) + ")"]
    if t[0] == "ife":
        return ["ife(" + show(t[1]) + ": " + "+".join(heads(t[2])) + " | " + "+".join(heads(t[3])) + ")"]
    if t[0] == "int":
        return [f"int:{_arith_head(t[1])}"]
    if t[0] == "acc":
        return [f"SUM[{show(t[1])}](" + "+".join(heads(t[2])) + ")"]
    return [show(t)]


def _arith_head(s: Sym) -> str:
    """text of s with opaque integer arithmetic collapsed to '#' """
    if s[0] == "op" and s[1] in ("+", "-", "*", "<<", ">>", "|", "&", "^", "~", "neg", "//", "%"):
        return "#"
    if s[0] == "ife" and (_arith_head(s[2]) == "#" or _arith_head(s[3]) == "#"):
        return "#"
    if s[0] == "call":
        return f"{dotted(s[1])}({', '.join(_arith_head(a) for a in s[2])}{''.join(', ' + str(k) + '=' + _arith_head(v) for k, v in s[3])})"
    if s[0] in ("sum", "len", "or", "acc"):
        return "+".join(heads(s))
    return show(s)
