"""Shared helpers for the per-field emitters of Message (dump, __len__, to_dict,
to_pydict): semantic *roles* so that atoms of sibling functions are comparable
whatever the local variable names are."""
from __future__ import annotations

from typing import Any, Dict, List, Optional, Tuple

from .absint import Interp, Path, feasible
from .src import M_INIT, Module, Repo
from .sym import A, C, CALL, N, Sym, dotted, show

FIELD_NAME = N("$field_name")
META = N("$meta")
VALUE = N("$value")
SELF = N("self")

TYPE_NAMES = [
    "enum", "bool", "int32", "int64", "uint32", "uint64", "sint32", "sint64", "float", "double",
    "fixed32", "sfixed32", "fixed64", "sfixed64", "string", "bytes", "message", "map",
]


def _ends_with_attr(s: Sym, attr: str) -> bool:
    return s[0] == "a" and s[2] == attr


def field_loop_roles(it: Sym, depth: int) -> Optional[List[Sym]]:
    # for field_name, meta in X.meta_by_field_name.items()
    if it[0] == "call" and it[1][0] == "a" and it[1][2] == "items" and _ends_with_attr(it[1][1], "meta_by_field_name"):
        return [FIELD_NAME, META]
    # for field_name in X.meta_by_field_name / X.sorted_field_names / .keys()
    if _ends_with_attr(it, "meta_by_field_name") or _ends_with_attr(it, "sorted_field_names"):
        return [FIELD_NAME]
    if it[0] == "call" and it[1][0] == "a" and it[1][2] == "keys" and _ends_with_attr(it[1][1], "meta_by_field_name"):
        return [FIELD_NAME]
    return None


def field_aliases() -> Dict[Sym, Sym]:
    bp = A(SELF, "_betterproto")
    al: Dict[Sym, Sym] = {
        CALL(N("getattr"), SELF, FIELD_NAME): VALUE,
        ("sub", A(bp, "meta_by_field_name"), FIELD_NAME): META,
        CALL(A(SELF, "_Message__raw_get"), FIELD_NAME): N("$raw"),
        CALL(A(SELF, "__raw_get"), FIELD_NAME): N("$raw"),
    }
    return al


def interp_for(mod: Module, **kw: Any) -> Interp:
    kw.setdefault("aliases", field_aliases())
    kw.setdefault("replay_logs", True)
    kw.setdefault("loop_roles", field_loop_roles)
    return Interp(mod, **kw)


def type_binding(t: str) -> Dict[Sym, Any]:
    return {A(META, "proto_type"): t}


def compatible(v1: Dict[Sym, bool], v2: Dict[Sym, bool]) -> Optional[Dict[Sym, bool]]:
    m = dict(v1)
    for k, v in v2.items():
        if k in m and m[k] != v:
            return None
        m[k] = v
    if not feasible(m):
        return None
    return m


def atom_text(k: Sym) -> str:
    if isinstance(k, tuple) and k and k[0] == "raises":
        return f"raises[{'|'.join(k[1])}]({show(k[2]) if isinstance(k[2], tuple) else k[2]})"
    if isinstance(k, tuple) and k and k[0] == "truthy-len":
        from .lenalg import show_len
        return f"nonzero({show_len(k[1])})"
    return show(k)


def val_text(v: Dict[Sym, bool], only_true: bool = False) -> str:
    items = sorted(((atom_text(k), b) for k, b in v.items()), key=lambda p: p[0])
    return "{" + ", ".join(f"{k}={'T' if b else 'F'}" for k, b in items if b or not only_true) + "}"


def common_core(vals: List[Dict[Sym, bool]]) -> Dict[Sym, bool]:
    """atoms that have the same value in every valuation of the list"""
    if not vals:
        return {}
    core = dict(vals[0])
    for v in vals[1:]:
        for k in list(core):
            if k not in v or v[k] != core[k]:
                del core[k]
    return core


def field_loop_events(p: Path):
    """events of the path that lie inside the per-field loop (or after it)"""
    return p.events
