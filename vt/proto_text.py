"""E8 - .proto text model: tokenizer + recursive-descent parser for the subset
used by descriptor.proto, plugin.proto and the well-known-type files; and a
reader for the bundled betterproto classes (ast, never imported)."""
from __future__ import annotations

import ast
import re
from dataclasses import dataclass, field
from pathlib import Path
from typing import Dict, Iterator, List, Optional, Tuple

from .refsrc import site_packages
from .src import AnalysisError, Module


@dataclass
class PField:
    name: str
    number: int
    type: str
    label: str            # '', 'optional', 'repeated', 'required'
    oneof: Optional[str] = None
    map_types: Optional[Tuple[str, str]] = None


@dataclass
class PMessage:
    name: str             # flattened name as the plugin produces it (Outer + Inner)
    full: str
    fields: Dict[str, PField] = field(default_factory=dict)


@dataclass
class PEnum:
    name: str
    full: str
    values: Dict[str, int] = field(default_factory=dict)


_TOKEN = re.compile(r"""
    \s+ | //[^\n]* | /\*.*?\*/ |
    (?P<str>"(?:\\.|[^"\\])*"|'(?:\\.|[^'\\])*') |
    (?P<num>-?(?:0[xX][0-9a-fA-F]+|\d+(?:\.\d+)?(?:[eE][-+]?\d+)?)) |
    (?P<id>[A-Za-z_][A-Za-z0-9_.]*) |
    (?P<sym>[{}\[\]()<>=;,.\-+:/])
""", re.X | re.S)


def tokenize(text: str) -> List[str]:
    out = []
    pos = 0
    while pos < len(text):
        m = _TOKEN.match(text, pos)
        if not m:
            raise AnalysisError(f".proto tokenizer stuck at {text[pos:pos + 30]!r}")
        pos = m.end()
        if m.lastgroup:
            out.append(m.group(m.lastgroup))
    return out


class ProtoParser:
    def __init__(self, text: str):
        self.t = tokenize(text)
        self.i = 0
        self.package = ""
        self.messages: Dict[str, PMessage] = {}
        self.enums: Dict[str, PEnum] = {}

    def peek(self) -> Optional[str]:
        return self.t[self.i] if self.i < len(self.t) else None

    def next(self) -> str:
        tok = self.t[self.i]
        self.i += 1
        return tok

    def expect(self, tok: str) -> None:
        got = self.next()
        if got != tok:
            raise AnalysisError(f".proto parser: expected {tok!r}, got {got!r} near token {self.i}")

    def skip_statement(self) -> None:
        depth = 0
        while self.i < len(self.t):
            tok = self.next()
            if tok in "{[(":
                depth += 1
            elif tok in "}])":
                depth -= 1
                if depth == 0 and tok == "}":
                    if self.peek() == ";":
                        self.next()
                    return
            elif tok == ";" and depth == 0:
                return

    def skip_options(self) -> None:
        if self.peek() == "[":
            depth = 0
            while True:
                tok = self.next()
                if tok == "[":
                    depth += 1
                elif tok == "]":
                    depth -= 1
                    if depth == 0:
                        return

    def parse(self) -> None:
        while self.peek() is not None:
            tok = self.peek()
            if tok == "package":
                self.next()
                self.package = self.next()
                self.expect(";")
            elif tok == "message":
                self.message("", "")
            elif tok == "enum":
                self.enum("", "")
            else:
                self.skip_statement()

    def message(self, prefix_flat: str, prefix_full: str) -> None:
        self.expect("message")
        name = self.next()
        flat = prefix_flat + name
        full = (prefix_full + "." if prefix_full else "") + name
        msg = PMessage(flat, full)
        self.messages[flat] = msg
        self.expect("{")
        self.body(msg, flat, full, None)

    def body(self, msg: PMessage, flat: str, full: str, oneof: Optional[str]) -> None:
        while True:
            tok = self.peek()
            if tok is None:
                raise AnalysisError(".proto parser: unexpected end of file")
            if tok == "}":
                self.next()
                if self.peek() == ";":
                    self.next()
                return
            if tok == "message":
                self.message(flat, full)
            elif tok == "enum":
                self.enum(flat, full)
            elif tok == "oneof":
                self.next()
                oname = self.next()
                self.expect("{")
                self.body(msg, flat, full, oname)
            elif tok in ("option", "reserved", "extensions", "extend"):
                self.skip_statement()
            elif tok == ";":
                self.next()
            else:
                self.field(msg, oneof)

    def field(self, msg: PMessage, oneof: Optional[str]) -> None:
        label = ""
        if self.peek() in ("optional", "repeated", "required"):
            label = self.next()
        ty = self.next()
        map_types = None
        if ty == "map":
            self.expect("<")
            k = self.next()
            self.expect(",")
            v = self.next()
            self.expect(">")
            map_types = (k, v)
        if ty == "group":
            # group Name = N { ... }
            self.next()
            self.expect("=")
            self.next()
            self.skip_options()
            self.skip_statement()
            return
        name = self.next()
        self.expect("=")
        num = self.next()
        self.skip_options()
        self.expect(";")
        msg.fields[name] = PField(name, int(num, 0), ty, label, oneof, map_types)

    def enum(self, prefix_flat: str, prefix_full: str) -> None:
        self.expect("enum")
        name = self.next()
        flat = prefix_flat + name
        en = PEnum(flat, (prefix_full + "." if prefix_full else "") + name)
        self.enums[flat] = en
        self.expect("{")
        while True:
            tok = self.peek()
            if tok == "}":
                self.next()
                if self.peek() == ";":
                    self.next()
                return
            if tok in ("option", "reserved"):
                self.skip_statement()
                continue
            if tok == ";":
                self.next()
                continue
            vname = self.next()
            self.expect("=")
            num = self.next()
            self.skip_options()
            self.expect(";")
            en.values[vname] = int(num, 0)


def proto_dir() -> Optional[Path]:
    sp = site_packages()
    if sp is None:
        return None
    d = sp / "grpc_tools" / "_proto" / "google" / "protobuf"
    return d if d.exists() else None


def load_protos(names: List[str]) -> Tuple[Dict[str, PMessage], Dict[str, PEnum], List[str]]:
    d = proto_dir()
    msgs: Dict[str, PMessage] = {}
    enums: Dict[str, PEnum] = {}
    used = []
    if d is None:
        return msgs, enums, used
    for n in names:
        p = d / n
        if not p.exists():
            continue
        pp = ProtoParser(p.read_text())
        pp.parse()
        msgs.update(pp.messages)
        enums.update(pp.enums)
        used.append(str(p))
    return msgs, enums, used


# ---------------------------------------------------------------------------
# bundled betterproto classes


@dataclass
class LField:
    name: str
    number: int
    kind: str              # int32 | message | enum | map | ...
    annotation: str
    group: Optional[str] = None
    optional: bool = False
    wraps: Optional[str] = None
    map_types: Optional[Tuple[str, str]] = None
    line: int = 0

    @property
    def repeated(self) -> bool:
        return self.annotation.startswith("List[") or self.annotation.startswith("typing.List[") or self.annotation.startswith('"list[')


@dataclass
class LClass:
    name: str
    kind: str              # message | enum
    fields: Dict[str, LField] = field(default_factory=dict)
    values: Dict[str, int] = field(default_factory=dict)
    line: int = 0


def read_lib(mod: Module) -> Dict[str, LClass]:
    out: Dict[str, LClass] = {}
    for st in mod.tree.body:
        if not isinstance(st, ast.ClassDef):
            continue
        bases = [ast.unparse(b) for b in st.bases]
        if any(b.endswith("Enum") for b in bases):
            c = LClass(st.name, "enum", line=st.lineno)
            for b in st.body:
                if isinstance(b, ast.Assign) and len(b.targets) == 1 and isinstance(b.targets[0], ast.Name):
                    try:
                        c.values[b.targets[0].id] = ast.literal_eval(b.value)
                    except Exception:
                        pass
            out[st.name] = c
        elif any(b.endswith("Message") for b in bases):
            c = LClass(st.name, "message", line=st.lineno)
            for b in st.body:
                if isinstance(b, ast.AnnAssign) and isinstance(b.target, ast.Name) and isinstance(b.value, ast.Call):
                    f = ast.unparse(b.value.func)
                    if f.startswith("betterproto.") and f.endswith("_field"):
                        kind = f[len("betterproto."):-len("_field")]
                        args = b.value.args
                        kw = {k.arg: k.value for k in b.value.keywords}
                        try:
                            num = ast.literal_eval(args[0])
                        except Exception:
                            continue
                        lf = LField(b.target.id, num, kind, ast.unparse(b.annotation), line=b.lineno)
                        if "group" in kw and isinstance(kw["group"], ast.Constant):
                            lf.group = kw["group"].value
                        if "optional" in kw and isinstance(kw["optional"], ast.Constant):
                            lf.optional = bool(kw["optional"].value)
                        if "wraps" in kw:
                            lf.wraps = ast.unparse(kw["wraps"]).split(".")[-1]
                        if kind == "map" and len(args) >= 3:
                            lf.map_types = (ast.unparse(args[1]).split(".")[-1].replace("TYPE_", "").lower(),
                                            ast.unparse(args[2]).split(".")[-1].replace("TYPE_", "").lower())
                        c.fields[b.target.id] = lf
            out[st.name] = c
    return out
