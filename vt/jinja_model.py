"""E6 - template model: Jinja AST (Jinja's own parser, no rendering), attribute
paths typed against plugin/models.py, and *specialisation*: partial evaluation
of the template over a valuation of its flags with abstract placeholders in the
holes, producing a residual Python module that is parsed with ast."""
from __future__ import annotations

import ast
from dataclasses import dataclass, field
from typing import Any, Callable, Dict, Iterator, List, Optional, Set, Tuple

import jinja2
from jinja2 import nodes as jn

from .absint import Interp
from .src import AnalysisError, M_MODELS, M_PCOMPILER, M_TYPING, Repo, T_BODY, T_HEADER, fold, _Unfoldable
from .sym import C, N, show


def env_options(repo: Repo) -> Dict[str, Any]:
    """the Environment(...) keyword arguments used by plugin/compiler.py (read from its AST)"""
    mod = repo.mod(M_PCOMPILER)
    for n in ast.walk(mod.tree):
        if isinstance(n, ast.Call) and ast.unparse(n.func) in ("jinja2.Environment", "Environment"):
            out = {}
            for k in n.keywords:
                if k.arg in ("trim_blocks", "lstrip_blocks", "keep_trailing_newline"):
                    try:
                        out[k.arg] = fold(k.value, {})
                    except _Unfoldable:
                        raise AnalysisError(f"compiler.py: Environment option {k.arg} is not a constant")
                if k.arg == "undefined":
                    out["undefined"] = ast.unparse(k.value)
            return out
    raise AnalysisError("plugin/compiler.py: jinja2.Environment(...) call not found")


def jtext(n: jn.Node) -> str:
    """canonical text of a Jinja expression node"""
    if isinstance(n, jn.Name):
        return n.name
    if isinstance(n, jn.Getattr):
        return f"{jtext(n.node)}.{n.attr}"
    if isinstance(n, jn.Getitem):
        return f"{jtext(n.node)}[{jtext(n.arg)}]"
    if isinstance(n, jn.Const):
        return repr(n.value)
    if isinstance(n, jn.Call):
        args = [jtext(a) for a in n.args] + [f"{k.key}={jtext(k.value)}" for k in n.kwargs]
        return f"{jtext(n.node)}({', '.join(args)})"
    if isinstance(n, jn.Filter):
        return f"{jtext(n.node)}|{n.name}"
    if isinstance(n, jn.Not):
        return f"not {jtext(n.node)}"
    if isinstance(n, jn.And):
        return f"({jtext(n.left)} and {jtext(n.right)})"
    if isinstance(n, jn.Or):
        return f"({jtext(n.left)} or {jtext(n.right)})"
    if isinstance(n, jn.TemplateData):
        return repr(n.data)
    return type(n).__name__


class TemplateModel:
    def __init__(self, repo: Repo):
        self.repo = repo
        self.options = env_options(repo)
        self.env = jinja2.Environment(trim_blocks=bool(self.options.get("trim_blocks")), lstrip_blocks=bool(self.options.get("lstrip_blocks")))
        try:
            self.body = self.env.parse(repo.text(T_BODY))
            self.header = self.env.parse(repo.text(T_HEADER))
        except jinja2.TemplateSyntaxError as e:
            raise AnalysisError(f"template does not parse: {e}")

    # -- attribute paths ---------------------------------------------------
    def getattr_chains(self, tree: jn.Template) -> List[Tuple[str, List[str], int, Optional[int]]]:
        """(root variable, attribute chain, line, call arity or None) for every maximal Getattr chain"""
        out = []
        inner: Set[int] = set()
        for n in tree.find_all(jn.Getattr):
            if isinstance(n.node, jn.Getattr):
                inner.add(id(n.node))
            if isinstance(n.node, jn.Call) :
                pass
        calls = {id(c.node): len(c.args) + len(c.kwargs) for c in tree.find_all(jn.Call)}
        for n in tree.find_all(jn.Getattr):
            if id(n) in inner:
                continue
            chain = []
            cur: jn.Node = n
            while isinstance(cur, jn.Getattr):
                chain.append(cur.attr)
                cur = cur.node
            if isinstance(cur, jn.Name):
                out.append((cur.name, list(reversed(chain)), n.lineno, calls.get(id(n))))
            elif isinstance(cur, jn.Call):
                # method result followed by attribute access, e.g. x.y().strip(...)
                base = cur.node
                sub = []
                while isinstance(base, jn.Getattr):
                    sub.append(base.attr)
                    base = base.node
                if isinstance(base, jn.Name):
                    out.append((base.name, list(reversed(sub)) + ["()"] + list(reversed(chain)), n.lineno, calls.get(id(n))))
        return out

    def loop_vars(self, tree: jn.Template) -> Dict[str, List[str]]:
        """loop variable -> texts of the iterables it ranges over"""
        out: Dict[str, List[str]] = {}
        for f in tree.find_all(jn.For):
            if isinstance(f.target, jn.Name):
                it = f.iter
                while isinstance(it, jn.Filter):
                    it = it.node
                out.setdefault(f.target.name, []).append(jtext(it))
        return out


# ---------------------------------------------------------------------------
# typing compiler shapes (abstract evaluation of typing_compiler.py on string tokens)


class TypingShapes:
    COMPILERS = {"direct": "DirectImportTypingCompiler", "root": "TypingImportTypingCompiler", "310": "NoTyping310TypingCompiler"}
    METHODS = ("optional", "list", "dict", "union", "iterable", "async_iterable", "async_iterator")

    def __init__(self, repo: Repo):
        self.mod = repo.mod(M_TYPING)
        self.used: Dict[str, List[Tuple[str, Optional[str]]]] = {}

    def apply(self, compiler: str, method: str, args: List[str]) -> Tuple[str, List[Tuple[str, Optional[str]]]]:
        """-> (result string, import effects [(module, name|None)])"""
        cls = self.COMPILERS[compiler]
        q = f"{cls}.{method}"
        fn = self.mod.func(q)
        inl = {}
        # helpers of the compiler: the private methods of the class and of its base classes in this module, and its other
        # public methods when one is written in terms of another (optional(t) = union(t, "None"))
        chain = [cls]
        seen_cls = set()
        while chain:
            c_ = chain.pop(0)
            if c_ in seen_cls or c_ not in self.mod.defs:
                continue
            seen_cls.add(c_)
            node_ = self.mod.defs[c_][0]
            for name, fns in self.mod.methods(c_).items():
                if name == method and c_ == cls:
                    continue
                if (name.startswith("_") and not name.startswith("__")) or (not name.startswith("_") and name in self.METHODS):
                    inl.setdefault(f"self.{name}", (self.mod, fns[0]))
            for b_ in getattr(node_, "bases", []):
                if isinstance(b_, ast.Name):
                    chain.append(b_.id)
        params = [a.arg for a in fn.args.args[1:]]
        argmap: Dict[str, Any] = {}
        if fn.args.vararg is not None:
            argmap[fn.args.vararg.arg] = C(tuple(args))
        else:
            if len(params) != len(args):
                raise AnalysisError(f"{q} takes {len(params)} arguments, template passes {len(args)}")
            for p, a in zip(params, args):
                argmap[p] = C(a)
        paths = Interp(self.mod, inline=inl).run(fn, argmap)
        rets = {p.value for p in paths if p.outcome == "return"}
        if len(rets) != 1 or next(iter(rets)) is None or next(iter(rets))[0] != "c":
            raise AnalysisError(f"{q}{tuple(args)} does not fold to a constant string: {[show(r) for r in rets if r]}")
        effects: List[Tuple[str, Optional[str]]] = []
        for p in paths:
            for e in p.events:
                if e.kind == "call" and e.data[1][0] == "a" and e.data[1][2] == "add" and e.data[1][1][0] == "sub" and "_imports" in show(e.data[1][1]):
                    k = e.data[1][1][2]
                    v = e.data[2][0]
                    if k[0] == "c" and v[0] == "c":
                        effects.append((k[1], v[1]))
                if e.kind == "store" and e.data[0][0] == "a" and e.data[0][2] == "_imported" and e.data[1] == C(True):
                    effects.append(("typing", None))
        return next(iter(rets))[1], effects


# ---------------------------------------------------------------------------
# specialisation


# (template loop variable, property name) -> attribute chain the property forwards to; filled from plugin/models.py by the rules
PROPERTY_CHAINS: Dict[Tuple[str, str], str] = {}


@dataclass
class Config:
    compiler: str = "direct"                    # direct | root | 310
    flags: Dict[str, bool] = field(default_factory=dict)
    counts: Dict[str, int] = field(default_factory=dict)   # iterable text -> number of abstract elements (default 1)
    name: str = ""

    def flag(self, text: str) -> bool:
        if text not in self.flags:
            # a forwarding property of the plugin model (`method.deprecated` -> `method.proto_obj.options.deprecated`)
            var, _, chain = text.partition(".")
            head, _, rest = chain.partition(".")
            fwd = PROPERTY_CHAINS.get((var, head))
            if fwd is not None:
                alt = f"{var}.{fwd}" + ("." + rest if rest else "")
                if alt in self.flags:
                    return self.flags[alt]
            raise AnalysisError(f"template condition `{text}` is not covered by the configuration space")
        return self.flags[text]


class Specialiser:
    def __init__(self, tm: TemplateModel, shapes: TypingShapes, cfg: Config, tc_only_imports: List[str]):
        self.tm = tm
        self.shapes = shapes
        self.cfg = cfg
        self.tc_only = tc_only_imports
        self.typing_effects: List[Tuple[str, Optional[str]]] = []
        self.holes: List[Tuple[str, str]] = []       # (expression text, filled text)
        self.line_map: List[int] = []

    # abstract objects are strings such as 'message0'; attribute values are produced on demand
    def render(self, tree: jn.Template) -> str:
        out: List[str] = []
        self._nodes(tree.body, {"output_file": "output_file"}, out, {})
        return "".join(out)

    def _nodes(self, body: List[jn.Node], env: Dict[str, str], out: List[str], loop: Dict[str, bool]) -> None:
        for n in body:
            if isinstance(n, jn.Output):
                for c in n.nodes:
                    if isinstance(c, jn.TemplateData):
                        out.append(c.data)
                    else:
                        out.append(self.value(c, env, loop))
            elif isinstance(n, jn.If):
                if self.cond(n.test, env, loop):
                    self._nodes(n.body, env, out, loop)
                else:
                    done = False
                    for el in n.elif_:
                        if self.cond(el.test, env, loop):
                            self._nodes(el.body, env, out, loop)
                            done = True
                            break
                    if not done:
                        self._nodes(n.else_, env, out, loop)
            elif isinstance(n, jn.For):
                it = n.iter
                while isinstance(it, jn.Filter):
                    it = it.node
                key = self._generic(jtext(it), env)
                items = self.elements(key, env)
                for i, item in enumerate(items):
                    env2 = dict(env)
                    if isinstance(n.target, jn.Name):
                        env2[n.target.name] = item
                    self._nodes(n.body, env2, out, {"last": i == len(items) - 1})
            elif isinstance(n, jn.Assign):
                if isinstance(n.target, jn.Name):
                    env[n.target.name] = "<assigned:" + jtext(n.node) + ">"
                    if isinstance(n.node, (jn.Concat, jn.CondExpr, jn.Const, jn.Add, jn.Getattr, jn.Name, jn.Filter, jn.Call)):
                        # a text computed from the configuration ({% set helper = ("_stream" if .. else "_unary") ~ .. %})
                        holes = len(self.holes)
                        try:
                            env[n.target.name] = self._value(n.node, env, loop)
                        except AnalysisError:
                            del self.holes[holes:]
            elif isinstance(n, jn.Macro):
                # {% macro name(params) %}...{% endmacro %}: expanded where it is called
                if not hasattr(self, "macros"):
                    self.macros = {}
                self.macros[n.name] = n
            else:
                raise AnalysisError(f"template statement {type(n).__name__} not supported by the specialiser (line {n.lineno})")

    def _generic(self, text: str, env: Dict[str, str]) -> str:
        return text

    def elements(self, key: str, env: Dict[str, str]) -> List[str]:
        n = self.cfg.counts.get(key, 1)
        if key == "output_file.typing_compiler.import_lines()":
            return self.typing_import_lines()
        if key == "output_file.imports_type_checking_only":
            return list(self.tc_only)
        if key == "output_file.imports_end":
            return ["from .xpkg import sub as xpkg__"][:n]
        if key == "output_file.python_module_imports":
            mods = []
            if self.cfg.flags.get("$deprecated-anything"):
                mods.append("warnings")
            if self.cfg.flags.get("$builtins"):
                mods.append("builtins")
            return mods
        if key == "output_file.datetime_imports":
            return ["datetime", "timedelta"]
        if key == "output_file.pydantic_imports":
            return ["model_validator"]
        if key == "output_file.input_filenames":
            return ["a.proto"]
        base = key.split(".")[-1].rstrip("s")
        return [f"{base}{i}" for i in range(n)]

    def typing_import_lines(self) -> List[str]:
        mods: Dict[str, Optional[Set[str]]] = {}
        for m, name in self.typing_effects:
            if name is None:
                mods[m] = None
            else:
                if mods.get(m, set()) is not None:
                    mods.setdefault(m, set()).add(name)  # type: ignore[union-attr]
        lines = []
        for m, names in mods.items():
            if names is None:
                lines.append(f"import {m}")
            else:
                lines.append(f"from {m} import (")
                for v in sorted(names):
                    lines.append(f"    {v},")
                lines.append(")")
        return lines

    def cond(self, t: jn.Node, env: Dict[str, str], loop: Dict[str, bool]) -> bool:
        if isinstance(t, jn.Not):
            return not self.cond(t.node, env, loop)
        if isinstance(t, jn.And):
            return self.cond(t.left, env, loop) and self.cond(t.right, env, loop)
        if isinstance(t, jn.Or):
            return self.cond(t.left, env, loop) or self.cond(t.right, env, loop)
        text = jtext(t)
        if text == "loop.last":
            return loop.get("last", True)
        if isinstance(t, jn.Name) and env.get(t.name, "").startswith("<assigned:"):
            src = env[t.name][len("<assigned:"):-1]
            if src == "output_file.typing_compiler.imports()":
                return bool(self.typing_effects)
            return self.cfg.flag(src)
        return self.cfg.flag(text)

    def value(self, e: jn.Node, env: Dict[str, str], loop: Dict[str, bool]) -> str:
        text = jtext(e)
        v = self._value(e, env, loop)
        self.holes.append((text, v))
        return v

    def _value(self, e: jn.Node, env: Dict[str, str], loop: Dict[str, bool]) -> str:
        if isinstance(e, jn.Const):
            return str(e.value)
        if isinstance(e, jn.Name):
            return env.get(e.name, e.name)
        if isinstance(e, jn.Call) and isinstance(e.node, jn.Name) and e.node.name in getattr(self, "macros", {}):
            m = self.macros[e.node.name]
            params = [a.name for a in m.args]
            if len(e.args) > len(params) or e.dyn_args or e.dyn_kwargs:
                raise AnalysisError(f"macro call `{jtext(e)}` not supported by the specialiser")
            env2 = dict(env)
            for p_, a in zip(params, e.args):
                env2[p_] = self._value(a, env, loop)
            for kw in e.kwargs:
                env2[kw.key] = self._value(kw.value, env, loop)
            missing = [p_ for p_ in params[len(e.args):] if p_ not in {kw.key for kw in e.kwargs}]
            for p_, d in zip(params[len(params) - len(m.defaults):], m.defaults):
                if p_ in missing:
                    env2[p_] = self._value(d, env, loop)
            out2: List[str] = []
            self._nodes(m.body, env2, out2, loop)
            return "".join(out2)
        if isinstance(e, jn.Call):
            f = e.node
            ftxt = jtext(f)
            if ftxt.startswith("output_file.typing_compiler.") and isinstance(f, jn.Getattr):
                meth = f.attr
                if meth in TypingShapes.METHODS:
                    args = [self._value(a, env, loop) for a in e.args]
                    res, eff = self.shapes.apply(self.cfg.compiler, meth, args)
                    self.typing_effects.extend(eff)
                    return res
            if isinstance(f, jn.Getattr) and f.attr == "strip" and len(e.args) == 1 and isinstance(e.args[0], jn.Const):
                return self._value(f.node, env, loop).strip(e.args[0].value)
            if isinstance(f, jn.Getattr) and f.attr == "join" and isinstance(f.node, jn.Const) and len(e.args) == 1:
                key = jtext(e.args[0])
                return str(f.node.value).join(self.elements(key, env))
            if ftxt.endswith(".get_field_string"):
                obj = self._value(f.node, env, loop) if isinstance(f, jn.Getattr) else "field"
                return f'{obj}: "xpkg__.HFieldType" = betterproto.message_field(1)'
        if isinstance(e, jn.Filter) and e.name == "join" and len(e.args) <= 1 and not e.kwargs and (not e.args or isinstance(e.args[0], jn.Const)):
            # {{ collection|sort|join(', ') }}: the elements the corresponding {% for %} would enumerate, joined
            src = e.node
            while isinstance(src, jn.Filter) and src.name in ("sort", "list", "unique"):
                src = src.node
            if not isinstance(src, jn.Filter):
                sep = str(e.args[0].value) if e.args else ""
                return sep.join(self.elements(jtext(src), env))
        if isinstance(e, jn.Getattr):
            obj = self._value(e.node, env, loop) if not isinstance(e.node, jn.Name) else env.get(e.node.name, e.node.name)
            return self.attr_value(obj, e.attr, jtext(e))
        if isinstance(e, jn.CondExpr):
            # {{ a if test else b }}: the test is decided by the configuration like an {% if %}
            if self.cond(e.test, env, loop):
                return self._value(e.expr1, env, loop)
            return self._value(e.expr2, env, loop) if e.expr2 is not None else ""
        if isinstance(e, jn.Concat):
            return "".join(self._value(x, env, loop) for x in e.nodes)
        if isinstance(e, jn.Add) and isinstance(e.left, (jn.Const, jn.CondExpr, jn.Concat, jn.Add)) :
            return self._value(e.left, env, loop) + self._value(e.right, env, loop)
        raise AnalysisError(f"template expression `{jtext(e)}` not supported by the specialiser")

    def attr_value(self, obj: str, attr: str, text: str) -> str:
        kind = obj.rstrip("0123456789")
        idx = obj[len(kind):]
        if attr == "py_name":
            if kind in ("enum", "message", "service"):
                return kind.capitalize() + idx
            return f"{kind}{idx}"
        if attr == "comment":
            indent = 8 if kind == "method" else 4
            return " " * indent + '"""comment"""'
        if attr == "name" and kind == "entrie":
            return f"ENTRY{idx}"
        if attr == "value" and kind == "entrie":
            return idx or "0"
        if attr == "route":
            return f"/pkg.Service/Method{idx}"
        if attr == "py_input_message_param":
            return f"in_msg{idx}"
        if attr == "py_input_message_type":
            return f"xpkg__.HIn{idx}"
        if attr == "py_output_message_type":
            return f"xpkg__.HOut{idx}"
        raise AnalysisError(f"template attribute `{text}` has no abstract value in the specialiser")


def parse_residual(text: str) -> Tuple[Optional[ast.Module], Optional[SyntaxError]]:
    try:
        return ast.parse(text), None
    except SyntaxError as e:
        return None, e
