"""E1 - source model: loads /repo sources as ast, indexes definitions, folds
module-level constant tables.  Nothing is imported or executed."""
from __future__ import annotations

import ast
import hashlib
import os
from pathlib import Path
from typing import Any, Dict, Iterator, List, Optional, Tuple


class AnalysisError(Exception):
    """Anchor vanished / construct outside what a rule understands -> exit 2."""


def repo_root() -> Path:
    return Path(os.environ.get("VERIF_REPO", "/repo"))


PKG = "src/betterproto"

# short names for the modules the rules anchor in
M_INIT = f"{PKG}/__init__.py"
M_ENUM = f"{PKG}/enum.py"
M_CASING = f"{PKG}/casing.py"
M_CHANNEL = f"{PKG}/grpc/util/async_channel.py"
M_CLIENT = f"{PKG}/grpc/grpclib_client.py"
M_SERVER = f"{PKG}/grpc/grpclib_server.py"
M_NAMING = f"{PKG}/compile/naming.py"
M_IMPORTING = f"{PKG}/compile/importing.py"
M_MODELS = f"{PKG}/plugin/models.py"
M_PARSER = f"{PKG}/plugin/parser.py"
M_PCOMPILER = f"{PKG}/plugin/compiler.py"
M_PMAIN = f"{PKG}/plugin/main.py"
M_TYPING = f"{PKG}/plugin/typing_compiler.py"
M_LIB_STD = f"{PKG}/lib/std/google/protobuf/__init__.py"
M_LIB_STD_COMPILER = f"{PKG}/lib/std/google/protobuf/compiler/__init__.py"
M_LIB_PYD = f"{PKG}/lib/pydantic/google/protobuf/__init__.py"
M_LIB_PYD_COMPILER = f"{PKG}/lib/pydantic/google/protobuf/compiler/__init__.py"
T_BODY = f"{PKG}/templates/template.py.j2"
T_HEADER = f"{PKG}/templates/header.py.j2"


class _Unfoldable(Exception):
    pass


class Module:
    def __init__(self, rel: str, path: Path):
        self.rel = rel
        self.path = path
        if not path.exists():
            raise AnalysisError(f"anchor file missing: {rel}")
        self.source = path.read_text(encoding="utf-8")
        try:
            self.tree = ast.parse(self.source, filename=str(path))
        except SyntaxError as e:  # the tree must at least parse
            raise AnalysisError(f"{rel} does not parse: {e}")
        self.defs: Dict[str, List[ast.AST]] = {}
        self._index(self.tree.body, "")
        self._consts: Optional[Dict[str, Any]] = None

    # -- definitions ------------------------------------------------------
    def _index(self, body: List[ast.stmt], prefix: str) -> None:
        for st in body:
            if isinstance(st, (ast.FunctionDef, ast.AsyncFunctionDef)):
                self.defs.setdefault(prefix + st.name, []).append(st)
            elif isinstance(st, ast.ClassDef):
                self.defs.setdefault(prefix + st.name, []).append(st)
                self._index(st.body, prefix + st.name + ".")
            elif isinstance(st, ast.If):
                self._index(st.body, prefix)
                self._index(st.orelse, prefix)
            elif isinstance(st, ast.Try):
                self._index(st.body, prefix)
                for h in st.handlers:
                    self._index(h.body, prefix)
                self._index(st.orelse, prefix)
                self._index(st.finalbody, prefix)

    def has(self, qual: str) -> bool:
        return qual in self.defs

    def get_all(self, qual: str) -> List[ast.AST]:
        if qual not in self.defs:
            raise AnalysisError(f"anchor missing: {self.rel}::{qual}")
        return self.defs[qual]

    def func(self, qual: str, index: int = 0) -> ast.FunctionDef:
        d = self.get_all(qual)
        fs = [x for x in d if isinstance(x, (ast.FunctionDef, ast.AsyncFunctionDef))]
        if len(fs) <= index:
            raise AnalysisError(f"anchor missing: function {self.rel}::{qual}[{index}]")
        if os.environ.get("VT_NO_EXPAND"):
            return fs[index]  # type: ignore
        # calls to helpers that are not units known to the rules are expanded in place (vt/expand.py)
        if getattr(self, "_expander", None) is None:
            from .expand import Expander
            self._expander = Expander(self)
        out = self._expander.expand(qual, index, fs[index])
        key = ("alias", qual, index)
        if key not in self._expander.cache:
            from .expand import propagate_method_aliases
            res = propagate_method_aliases(out)
            if res is not out and not hasattr(res, "_vt_qual"):
                res._vt_qual = qual          # type: ignore[attr-defined]
                res._vt_origin = fs[index]   # type: ignore[attr-defined]
            if res is not out:
                # reading through an alias may have uncovered a call of a helper (`buffer = self._buffer; await buffer(x)`)
                res2 = self._expander.expand(qual, index + 100000, res)
                if res2 is not res:
                    res2._vt_qual = qual         # type: ignore[attr-defined]
                    res2._vt_origin = fs[index]  # type: ignore[attr-defined]
                    res = res2
            # a loop over a local comprehension is that comprehension's loop nest
            comp_locals = {t.id for a in ast.walk(res) if isinstance(a, ast.Assign) and isinstance(a.value, (ast.GeneratorExp, ast.ListComp)) for t in a.targets if isinstance(t, ast.Name)}
            if comp_locals and any(isinstance(f_, ast.For) and isinstance(f_.iter, ast.Name) and f_.iter.id in comp_locals for f_ in ast.walk(res)):
                import copy as _copy
                from .expand import fuse_comprehension_loops
                cp = _copy.deepcopy(res)
                if fuse_comprehension_loops(cp):
                    cp._vt_qual = qual           # type: ignore[attr-defined]
                    cp._vt_origin = fs[index]    # type: ignore[attr-defined]
                    res = cp
            self._expander.cache[key] = res
        return self._expander.cache[key]  # type: ignore

    def cls(self, qual: str) -> ast.ClassDef:
        d = self.get_all(qual)
        cs = [x for x in d if isinstance(x, ast.ClassDef)]
        if not cs:
            raise AnalysisError(f"anchor missing: class {self.rel}::{qual}")
        return cs[0]

    def methods(self, cls: str) -> Dict[str, List[ast.FunctionDef]]:
        out: Dict[str, List[ast.FunctionDef]] = {}
        p = cls + "."
        for k, v in self.defs.items():
            if k.startswith(p) and "." not in k[len(p):]:
                fs = [x for x in v if isinstance(x, (ast.FunctionDef, ast.AsyncFunctionDef))]
                if fs:
                    out[k[len(p):]] = fs  # type: ignore
        return out

    def functions(self) -> Iterator[Tuple[str, ast.FunctionDef]]:
        for k, v in self.defs.items():
            for x in v:
                if isinstance(x, (ast.FunctionDef, ast.AsyncFunctionDef)):
                    yield k, x  # type: ignore

    def loc(self, node: ast.AST) -> str:
        return f"{self.rel}:{getattr(node, 'lineno', 0)}"

    def text(self, node: ast.AST) -> str:
        try:
            return ast.unparse(node)
        except Exception:
            return "<?>"

    # -- constants --------------------------------------------------------
    @property
    def consts(self) -> Dict[str, Any]:
        if self._consts is None:
            self._consts = {}
            self._fold_body(self.tree.body)
        return self._consts

    def _fold_body(self, body: List[ast.stmt]) -> None:
        assert self._consts is not None
        _FOLD_FUNCS.append({k: v for k, v in self.defs.items() if "." not in k})
        try:
            self._fold_body_(body)
        finally:
            _FOLD_FUNCS.pop()

    def _fold_body_(self, body: List[ast.stmt]) -> None:
        assert self._consts is not None
        for st in body:
            tgt = None
            val = None
            if isinstance(st, ast.Assign) and len(st.targets) == 1 and isinstance(st.targets[0], ast.Name):
                tgt, val = st.targets[0].id, st.value
            elif isinstance(st, ast.AnnAssign) and isinstance(st.target, ast.Name) and st.value is not None:
                tgt, val = st.target.id, st.value
            if isinstance(st, ast.Assign) and len(st.targets) == 1 and isinstance(st.targets[0], (ast.Tuple, ast.List)) and all(isinstance(e, ast.Name) for e in st.targets[0].elts):
                # A, B, C = range(3) / = (1, 2, 3)
                try:
                    vals = fold(st.value, self._consts)
                    if isinstance(vals, tuple) and len(vals) == len(st.targets[0].elts):
                        for e, v_ in zip(st.targets[0].elts, vals):
                            self._consts[e.id] = v_
                except _Unfoldable:
                    for e in st.targets[0].elts:
                        self._consts.pop(e.id, None)
                continue
            # a module-level statement that changes a table after it was bound: NAME.update({...}) / NAME[K] = V / del NAME[K] /
            # NAME.setdefault / pop / clear ... - applied when it folds, otherwise the name is no constant any more
            mut = None
            if isinstance(st, ast.Expr) and isinstance(st.value, ast.Call) and isinstance(st.value.func, ast.Attribute) and isinstance(st.value.func.value, ast.Name) \
                    and st.value.func.value.id in self._consts and isinstance(self._consts[st.value.func.value.id], dict) \
                    and st.value.func.attr in ("update", "setdefault", "pop", "popitem", "clear", "__setitem__"):
                mut = st.value.func.value.id
                if st.value.func.attr == "update" and len(st.value.args) == 1 and not st.value.keywords:
                    try:
                        extra = fold(st.value.args[0], _SymEnv(self._consts))
                        if isinstance(extra, dict):
                            merged = dict(self._consts[mut])
                            merged.update(extra)
                            self._consts[mut] = merged
                            mut = None
                    except _Unfoldable:
                        pass
            elif isinstance(st, (ast.Assign, ast.AugAssign, ast.Delete)):
                tgts = st.targets if isinstance(st, (ast.Assign, ast.Delete)) else [st.target]
                for t_ in tgts:
                    if isinstance(t_, ast.Subscript) and isinstance(t_.value, ast.Name) and t_.value.id in self._consts and isinstance(self._consts[t_.value.id], (dict, list)):
                        mut = t_.value.id
                        if isinstance(st, ast.Assign) and len(tgts) == 1 and isinstance(self._consts[mut], dict):
                            try:
                                k_ = fold(t_.slice, self._consts)
                                v_ = fold(st.value, _SymEnv(self._consts))
                                merged = dict(self._consts[mut])
                                merged[k_] = v_
                                self._consts[mut] = merged
                                mut = None
                            except _Unfoldable:
                                pass
            if mut is not None:
                self._consts.pop(mut, None)
                continue
            if tgt is not None:
                try:
                    self._consts[tgt] = fold(val, self._consts)
                except _Unfoldable:
                    self._consts.pop(tgt, None)
                    if isinstance(val, (ast.Tuple, ast.List)) and val.elts and all(isinstance(e, (ast.Tuple, ast.List)) for e in val.elts):
                        # a table of rows whose cells are references to classes / functions ((Union, NoneType), (list, list)): kept symbolically
                        try:
                            self._consts[tgt] = fold(val, _SymEnv(self._consts))
                        except _Unfoldable:
                            pass
                    # NAME = helper(): a table built by a module-level initialiser function (loops over folded tables
                    # filling a local dict / list) is folded by evaluating that function on constants
                    if isinstance(val, ast.Call) and isinstance(val.func, ast.Name) and not val.keywords and val.func.id in self.defs:
                        fns = [x for x in self.defs[val.func.id] if isinstance(x, ast.FunctionDef)]
                        if len(fns) == 1:
                            try:
                                args = [fold(a, self._consts) for a in val.args]
                                self._consts[tgt] = eval_initialiser(fns[0], args, self._consts)
                            except _Unfoldable:
                                pass

    def table_function(self, qual: str) -> Dict[Any, Any]:
        """A function of the form ``return {K: V, ...}[arg]`` -> the folded dict
        with values kept as ast when they are not constants."""
        f = self.func(qual)
        rets = [n for n in ast.walk(f) if isinstance(n, ast.Return)]
        d = None
        if len(rets) == 1 and isinstance(rets[0].value, ast.Subscript) and isinstance(rets[0].value.value, ast.Dict):
            d = rets[0].value.value
        elif len(rets) == 1:
            # the table may be a module-level constant that the function indexes (NAME[arg] / NAME.get(arg))
            v = rets[0].value
            nm = v.value if isinstance(v, ast.Subscript) and isinstance(v.value, ast.Name) else (
                v.func.value if isinstance(v, ast.Call) and isinstance(v.func, ast.Attribute) and v.func.attr == "get" and isinstance(v.func.value, ast.Name) else None)
            if nm is not None:
                for st in self.tree.body:
                    tgt = st.targets[0] if isinstance(st, ast.Assign) and len(st.targets) == 1 else (st.target if isinstance(st, ast.AnnAssign) else None)
                    if isinstance(tgt, ast.Name) and tgt.id == nm.id and isinstance(getattr(st, "value", None), ast.Dict):
                        d = st.value
        if d is None:
            raise AnalysisError(f"{self.rel}::{qual} is no longer a literal table lookup")
        out = {}
        for k, v in zip(d.keys, d.values):
            if k is None:
                raise AnalysisError(f"{self.rel}::{qual}: dict unpacking in table")
            try:
                kk = fold(k, self.consts)
            except _Unfoldable:
                raise AnalysisError(f"{self.rel}::{qual}: non-constant key {ast.unparse(k)}")
            try:
                vv = fold(v, self.consts)
            except _Unfoldable:
                vv = v
            out[kk] = vv
        return out


class SymName(str):
    """a reference to a function / class kept symbolically inside a folded table"""

    def __repr__(self) -> str:
        return f"SymName({str.__repr__(self)})"


class SymLambda(SymName):
    """a lambda kept symbolically inside a folded table (its text; the node is kept for the evaluator)"""
    node: Any = None

    def __repr__(self) -> str:
        return f"SymLambda({str.__repr__(self)})"


class SymCall(SymName):
    """a constructor call with constant arguments kept symbolically inside a folded table (struct.Struct("<d"))"""
    func: str = ""
    args: tuple = ()

    def __repr__(self) -> str:
        return f"SymCall({str.__repr__(self)})"


class _SymEnv(dict):
    """environment in which unknown plain names / dotted names evaluate to SymName"""

    def __init__(self, base: Dict[str, Any]):
        super().__init__(base)

    def __contains__(self, k: object) -> bool:
        return True

    def __getitem__(self, k: str) -> Any:
        if dict.__contains__(self, k):
            return dict.__getitem__(self, k)
        return SymName(k)


# module functions available to fold() while a module's constants are being folded (a stack: nested modules / calls)
_FOLD_FUNCS: List[Dict[str, Any]] = []


class _Ret(Exception):
    def __init__(self, v):
        self.v = v


def eval_initialiser(fn: ast.FunctionDef, args: List[Any], consts: Dict[str, Any], budget: int = 20000) -> Any:
    """Evaluates a module-level initialiser function on constant arguments with the analyser's own evaluator: straight-line
    assignments, for-loops over folded iterables, if with folded tests, stores into / method calls on local containers,
    return.  Anything else is _Unfoldable.  (This is constant propagation through an initialiser, not execution of repo
    code: every expression goes through fold().)"""
    params = [a.arg for a in fn.args.args]
    if fn.args.vararg or fn.args.kwarg or fn.args.kwonlyargs or len(args) > len(params) or fn.decorator_list:
        raise _Unfoldable("signature")
    env: Dict[str, Any] = dict(consts)
    defaults = fn.args.defaults
    for i, p in enumerate(params):
        if i < len(args):
            env[p] = args[i]
        else:
            j = i - (len(params) - len(defaults))
            if j < 0:
                raise _Unfoldable("missing argument")
            env[p] = fold(defaults[j], consts)
    steps = [0]

    def ev(e: ast.AST) -> Any:
        # local mutable containers are kept as Python dict / list / set objects in env
        if isinstance(e, ast.Name) and e.id in env:
            return env[e.id]
        if isinstance(e, ast.Dict) and not e.keys:
            return {}
        if isinstance(e, ast.List) and not e.elts:
            return []
        if isinstance(e, ast.Call) and isinstance(e.func, ast.Name) and e.func.id in ("dict", "list", "set") and not e.args and not e.keywords:
            return {"dict": dict, "list": list, "set": set}[e.func.id]()
        return fold(e, _SymEnv(env) if False else env)

    def assign(t: ast.AST, v: Any) -> None:
        if isinstance(t, ast.Name):
            env[t.id] = v
        elif isinstance(t, (ast.Tuple, ast.List)):
            vs = list(v)
            if len(vs) != len(t.elts):
                raise _Unfoldable("unpack")
            for tt, vv in zip(t.elts, vs):
                assign(tt, vv)
        elif isinstance(t, ast.Subscript) and isinstance(t.value, ast.Name) and isinstance(env.get(t.value.id), (dict, list)):
            env[t.value.id][ev(t.slice)] = v
        else:
            raise _Unfoldable("target")

    def run(body: List[ast.stmt]) -> None:
        for st in body:
            steps[0] += 1
            if steps[0] > budget:
                raise _Unfoldable("budget")
            if isinstance(st, ast.Expr) and isinstance(st.value, ast.Constant):
                continue
            if isinstance(st, ast.Assign):
                v = ev(st.value)
                for t in st.targets:
                    assign(t, v)
            elif isinstance(st, ast.AnnAssign):
                if st.value is not None:
                    assign(st.target, ev(st.value))
            elif isinstance(st, ast.For) and not st.orelse:
                it = ev(st.iter)
                if isinstance(it, dict):
                    it = tuple(it)
                if not isinstance(it, (tuple, list, frozenset)):
                    raise _Unfoldable("iter")
                for x in list(it):
                    assign(st.target, x)
                    run(st.body)
            elif isinstance(st, ast.If):
                run(st.body if ev(st.test) else st.orelse)
            elif isinstance(st, ast.Expr) and isinstance(st.value, ast.Call) and isinstance(st.value.func, ast.Attribute) and isinstance(st.value.func.value, ast.Name) \
                    and isinstance(env.get(st.value.func.value.id), (dict, list, set)) and st.value.func.attr in ("append", "add", "update", "setdefault", "extend") and not st.value.keywords:
                getattr(env[st.value.func.value.id], st.value.func.attr)(*[ev(a) for a in st.value.args])
            elif isinstance(st, ast.Return):
                raise _Ret(ev(st.value) if st.value is not None else None)
            elif isinstance(st, ast.Pass):
                continue
            else:
                raise _Unfoldable(type(st).__name__)

    try:
        run(fn.body)
    except _Ret as r:
        v = r.v
        if isinstance(v, list):
            return tuple(v)
        if isinstance(v, set):
            return frozenset(v)
        return v
    except _Unfoldable:
        raise
    except Exception as e:
        raise _Unfoldable(f"initialiser: {type(e).__name__}")
    return None


def _is_member_ref(e: ast.AST, env: Dict[str, Any]) -> bool:
    """Name.ATTR (one level) where Name is not a folded constant and ATTR is spelled like a constant member"""
    return isinstance(e, ast.Attribute) and isinstance(e.value, ast.Name) and not dict.__contains__(env, e.value.id) and e.attr.isupper()


def fold(node: ast.AST, env: Dict[str, Any]) -> Any:
    """Constant folding of literal expressions (the analyser's own evaluator)."""
    if isinstance(node, ast.Constant):
        return node.value
    if isinstance(node, ast.Name):
        if node.id in env:
            return env[node.id]
        if node.id in ("True", "False", "None"):
            return {"True": True, "False": False, "None": None}[node.id]
        raise _Unfoldable(node.id)
    if isinstance(node, ast.Attribute) and isinstance(node.value, ast.Name) and node.value.id == "math" and node.attr in ("inf", "nan", "pi", "e", "tau") \
            and not dict.__contains__(env, "math"):
        import math as _m
        return getattr(_m, node.attr)
    if isinstance(node, ast.Call) and isinstance(node.func, ast.Name) and node.func.id == "float" and not dict.__contains__(env, "float") and len(node.args) == 1 \
            and not node.keywords and isinstance(node.args[0], ast.Constant) and isinstance(node.args[0].value, (str, int, float)):
        try:
            return float(node.args[0].value)
        except ValueError:
            raise _Unfoldable("float()")
    if isinstance(node, ast.Call) and isinstance(node.func, ast.Name) and node.func.id == "range" and not dict.__contains__(env, "range") and 1 <= len(node.args) <= 3 \
            and not node.keywords:
        args = [fold(a, env) for a in node.args]
        if all(isinstance(a, int) and not isinstance(a, bool) for a in args):
            r = range(*args)
            if len(r) <= 4096:
                return tuple(r)
        raise _Unfoldable("range")
    if isinstance(node, ast.Dict) and node.keys and all(k is not None or True for k in node.keys):
        # a table whose *values* are references to functions / classes (decoder tables): keep those as symbolic names
        out2 = {}
        for k, v in zip(node.keys, node.values):
            if k is None:
                sub = fold(v, _SymEnv(env))
                if not isinstance(sub, dict):
                    raise _Unfoldable("**")
                out2.update(sub)
            else:
                try:
                    kk = fold(k, env)
                except _Unfoldable:
                    # a key that is a reference to a class / function (Union, list, datetime): kept symbolically
                    if isinstance(k, (ast.Name, ast.Attribute)):
                        kk = fold(k, _SymEnv(env))
                    else:
                        raise
                out2[kk] = fold(v, _SymEnv(env))
        return out2
    if isinstance(node, ast.Call) and isinstance(node.func, ast.Name) and not node.keywords and _FOLD_FUNCS and node.func.id in _FOLD_FUNCS[-1] \
            and not dict.__contains__(env, node.func.id):
        # a call of a small module-level function on constants (a table function such as `return {...}[arg]`)
        fns = [x for x in _FOLD_FUNCS[-1][node.func.id] if isinstance(x, ast.FunctionDef)]
        if len(fns) == 1 and len(_FOLD_FUNCS) < 4:
            args = [fold(a, env) for a in node.args]
            try:
                return eval_initialiser(fns[0], args, dict(env), budget=2000)
            except _Unfoldable:
                # a factory whose result is not a constant (it returns a closure): kept as the call it is, inside a table
                if isinstance(env, _SymEnv) and all(isinstance(a, (str, int, bool, type(None))) and not isinstance(a, SymName) for a in args):
                    sc = SymCall(f"{node.func.id}({', '.join(repr(a) for a in args)})")
                    sc.func = node.func.id
                    sc.args = tuple(args)
                    return sc
                raise
    if isinstance(node, ast.Call) and ast.unparse(node.func) in ("partial", "functools.partial") and isinstance(env, _SymEnv) and node.args and not node.keywords \
            and not dict.__contains__(env, "partial"):
        # partial(F, <constants>) inside a table of callables: kept as the call it is; applied, it is F(<constants>, args)
        f_ = fold(node.args[0], env)
        rest = [fold(a, env) for a in node.args[1:]]
        if isinstance(f_, SymName) and all(isinstance(a, (str, int, bool, bytes, type(None))) and not isinstance(a, SymName) for a in rest):
            sc = SymCall(f"partial({f_}, {', '.join(repr(a) for a in rest)})")
            sc.func = "partial"
            sc.args = (f_,) + tuple(rest)
            return sc
        raise _Unfoldable("partial")
    if isinstance(node, ast.Call) and isinstance(node.func, ast.Attribute) and isinstance(node.func.value, ast.Name) \
            and node.func.value.id == "struct" and node.func.attr == "Struct" and len(node.args) == 1 and not node.keywords:
        sc = SymCall(f"struct.Struct({fold(node.args[0], env)!r})")
        sc.func = "struct.Struct"
        sc.args = (fold(node.args[0], env),)
        return sc
    if isinstance(node, ast.Call) and isinstance(node.func, ast.Name) and node.func.id == "type" and not dict.__contains__(env, "type") and len(node.args) == 1 \
            and not node.keywords and isinstance(node.args[0], ast.Constant) and node.args[0].value is None and isinstance(env, _SymEnv):
        sc = SymCall("type(None)")
        sc.func = "type"
        sc.args = (None,)
        return sc
    if isinstance(node, ast.Lambda) and isinstance(env, _SymEnv):
        sl = SymLambda(ast.unparse(node))
        sl.node = node
        return sl
    if isinstance(node, ast.Attribute) and isinstance(env, _SymEnv):
        base = fold(node.value, env)
        if isinstance(base, SymName):
            return SymName(f"{base}.{node.attr}")
        raise _Unfoldable("attribute")
    if isinstance(node, (ast.List, ast.Tuple, ast.Set)):
        items = []
        for e in node.elts:
            if isinstance(e, ast.Starred):
                items.extend(fold(e.value, env))
            elif isinstance(e, ast.Attribute) and not isinstance(env, _SymEnv) and _is_member_ref(e, env):
                # Enum.MEMBER inside a table of members: kept as a symbolic reference (compared by spelling)
                items.append(fold(e, _SymEnv(env)))
            else:
                items.append(fold(e, env))
        if isinstance(node, ast.Set):
            return frozenset(items)
        return tuple(items)
    if isinstance(node, ast.Dict):
        out = {}
        for k, v in zip(node.keys, node.values):
            if k is None:
                out.update(fold(v, env))
            else:
                out[fold(k, env)] = fold(v, env)
        return out
    if isinstance(node, ast.UnaryOp):
        v = fold(node.operand, env)
        try:
            if isinstance(node.op, ast.USub):
                return -v
            if isinstance(node.op, ast.UAdd):
                return +v
            if isinstance(node.op, ast.Invert):
                return ~v
            if isinstance(node.op, ast.Not):
                return not v
        except Exception:
            raise _Unfoldable("unary")
    if isinstance(node, ast.BinOp):
        a = fold(node.left, env)
        b = fold(node.right, env)
        try:
            return _binop(node.op, a, b)
        except _Unfoldable:
            raise
        except Exception:
            raise _Unfoldable("binop")
    if isinstance(node, ast.Call) and isinstance(node.func, ast.Name) and not node.keywords:
        if node.func.id in ("tuple", "list", "frozenset", "set") and len(node.args) <= 1:
            items = fold(node.args[0], env) if node.args else ()
            return frozenset(items) if node.func.id in ("frozenset", "set") else tuple(items)
        if node.func.id == "dict" and len(node.args) <= 1:
            src = fold(node.args[0], env) if node.args else {}
            return dict(src) if isinstance(src, dict) else dict(tuple(src))
        if node.func.id == "range" and 1 <= len(node.args) <= 3:
            a = [fold(x, env) for x in node.args]
            if all(isinstance(x, int) for x in a) and len(range(*a)) <= 4096:
                return tuple(range(*a))
        if node.func.id == "len" and len(node.args) == 1:
            return len(fold(node.args[0], env))
        if node.func.id in ("zip", "enumerate", "sorted", "reversed") and node.args:
            a = [fold(x, env) for x in node.args]
            if all(isinstance(x, (tuple, frozenset, dict)) for x in a):
                seqs = [tuple(x) for x in a]
                if node.func.id == "zip":
                    return tuple(zip(*seqs))
                if node.func.id == "enumerate" and len(seqs) == 1:
                    return tuple(enumerate(seqs[0]))
                try:
                    if node.func.id == "sorted" and len(seqs) == 1:
                        return tuple(sorted(seqs[0]))
                except TypeError:
                    raise _Unfoldable("sorted")
                if node.func.id == "reversed" and len(seqs) == 1:
                    return tuple(reversed(seqs[0]))
    if isinstance(node, ast.Call) and isinstance(node.func, ast.Attribute) and not node.keywords:
        # dict.fromkeys(KEYS[, V]);  <const dict>.items() / .keys() / .values()
        if isinstance(node.func.value, ast.Name) and node.func.value.id == "dict" and node.func.attr == "fromkeys" and 1 <= len(node.args) <= 2:
            keys = fold(node.args[0], env)
            val = fold(node.args[1], env) if len(node.args) == 2 else None
            return {k: val for k in keys}
        if node.func.attr in ("items", "keys", "values") and not node.args:
            d = fold(node.func.value, env)
            if isinstance(d, dict):
                return tuple(getattr(d, node.func.attr)())
    if isinstance(node, ast.Subscript):
        base = fold(node.value, env)
        if isinstance(node.slice, ast.Slice):
            lo = fold(node.slice.lower, env) if node.slice.lower is not None else None
            hi = fold(node.slice.upper, env) if node.slice.upper is not None else None
            st = fold(node.slice.step, env) if node.slice.step is not None else None
            try:
                return base[lo:hi:st]
            except Exception:
                raise _Unfoldable("slice")
        try:
            return base[fold(node.slice, env)]
        except Exception:
            raise _Unfoldable("subscript")
    if isinstance(node, ast.IfExp):
        return fold(node.body, env) if fold(node.test, env) else fold(node.orelse, env)
    if isinstance(node, ast.Compare) and len(node.ops) == 1:
        a, b = fold(node.left, env), fold(node.comparators[0], env)
        op = node.ops[0]
        try:
            if isinstance(op, ast.Eq):
                return a == b
            if isinstance(op, ast.NotEq):
                return a != b
            if isinstance(op, ast.In):
                return a in b
            if isinstance(op, ast.NotIn):
                return a not in b
            if isinstance(op, ast.Lt):
                return a < b
            if isinstance(op, ast.LtE):
                return a <= b
            if isinstance(op, ast.Gt):
                return a > b
            if isinstance(op, ast.GtE):
                return a >= b
            if isinstance(op, ast.Is):
                return a is b
            if isinstance(op, ast.IsNot):
                return a is not b
        except Exception:
            raise _Unfoldable("compare")
    if isinstance(node, (ast.ListComp, ast.SetComp, ast.DictComp, ast.GeneratorExp)):
        out_items: List[Any] = []

        def assign(t: ast.AST, v: Any, e: Dict[str, Any]) -> None:
            if isinstance(t, ast.Name):
                e[t.id] = v
            elif isinstance(t, (ast.Tuple, ast.List)):
                vs = tuple(v)
                if len(vs) != len(t.elts):
                    raise _Unfoldable("unpack")
                for tt, vv in zip(t.elts, vs):
                    assign(tt, vv, e)
            else:
                raise _Unfoldable("target")

        def gen(k: int, e: Dict[str, Any]) -> None:
            if len(out_items) > 20000:
                raise _Unfoldable("too large")
            if k == len(node.generators):
                if isinstance(node, ast.DictComp):
                    out_items.append((fold(node.key, e), fold(node.value, e)))
                else:
                    out_items.append(fold(node.elt, e))
                return
            g = node.generators[k]
            if g.is_async:
                raise _Unfoldable("async")
            it = fold(g.iter, e)
            if isinstance(it, dict):
                it = tuple(it)
            for v in it:
                e2 = type(e)(e) if isinstance(e, _SymEnv) else dict(e)
                assign(g.target, v, e2)
                if all(fold(c, e2) for c in g.ifs):
                    gen(k + 1, e2)

        gen(0, type(env)(env) if isinstance(env, _SymEnv) else dict(env))
        if isinstance(node, ast.DictComp):
            return dict(out_items)
        if isinstance(node, ast.SetComp):
            return frozenset(out_items)
        return tuple(out_items)
    raise _Unfoldable(type(node).__name__)


def _binop(op: ast.operator, a: Any, b: Any) -> Any:
    if isinstance(op, ast.Add):
        return a + b
    if isinstance(op, ast.Sub):
        return a - b
    if isinstance(op, ast.Mult):
        if isinstance(a, int) and isinstance(b, int) or isinstance(a, float) or isinstance(b, float):
            return a * b
        raise _Unfoldable("mult")
    if isinstance(op, ast.LShift):
        if b > 4096:
            raise _Unfoldable("shift")
        return a << b
    if isinstance(op, ast.RShift):
        return a >> b
    if isinstance(op, ast.BitOr):
        return a | b
    if isinstance(op, ast.BitAnd):
        return a & b
    if isinstance(op, ast.BitXor):
        return a ^ b
    if isinstance(op, ast.Pow):
        if isinstance(b, int) and abs(b) <= 256:
            return a ** b
        raise _Unfoldable("pow")
    if isinstance(op, ast.FloorDiv):
        return a // b
    if isinstance(op, ast.Mod):
        if isinstance(a, str):
            raise _Unfoldable("strmod")
        return a % b
    if isinstance(op, ast.Div):
        return a / b
    raise _Unfoldable("op")


class Repo:
    def __init__(self, root: Optional[Path] = None):
        self.root = Path(root) if root else repo_root()
        self._mods: Dict[str, Module] = {}
        self.consulted: List[str] = []

    def mod(self, rel: str) -> Module:
        if rel not in self._mods:
            self._mods[rel] = Module(rel, self.root / rel)
            self.consulted.append(rel)
        return self._mods[rel]

    def text(self, rel: str) -> str:
        p = self.root / rel
        if not p.exists():
            raise AnalysisError(f"anchor file missing: {rel}")
        if rel not in self.consulted:
            self.consulted.append(rel)
        return p.read_text(encoding="utf-8")

    def all_py(self) -> List[str]:
        base = self.root / PKG
        return sorted(str(p.relative_to(self.root)) for p in base.rglob("*.py"))

    def digest(self) -> str:
        h = hashlib.sha256()
        for rel in sorted(set(self.consulted)):
            h.update(rel.encode())
            h.update((self.root / rel).read_bytes())
        return h.hexdigest()[:16]


def const_name_map(consts: Dict[str, Any], prefix: str) -> Dict[str, Any]:
    return {k: v for k, v in consts.items() if k.startswith(prefix)}
