"""E5 - write-effect and alias analysis for Message methods.

* state_writes(repo): every store to the three presence/bookkeeping attributes
  and every *raw* (untracked) field store in the package, with its enclosing
  function.
* effects(mod, fn): stores to self state and mutations of field-aliased objects
  performed by one function (transitively closed over same-class callees by the
  caller).
"""
from __future__ import annotations

import ast
from dataclasses import dataclass
from typing import Dict, Iterator, List, Optional, Set, Tuple

from .src import Module, Repo

STATE_ATTRS = ("_serialized_on_wire", "_unknown_fields", "_group_current")
MUTATORS = {"append", "extend", "insert", "pop", "clear", "update", "setdefault", "sort", "remove", "popitem", "reverse", "__setitem__", "__delitem__"}


@dataclass
class Write:
    module: str
    func: str
    attr: str            # state attribute name, or '<field>' for a raw field store
    form: str            # attr | aug | dict | item | setattr | object.__setattr__ | super().__setattr__ | del
    line: int
    target: str
    tracked: bool = False


def _enclosing(mod: Module) -> Dict[int, str]:
    """map id(ast node) -> qualified name of the enclosing function (or '<module>')"""
    out: Dict[int, str] = {}

    def visit(node: ast.AST, qual: str) -> None:
        for child in ast.iter_child_nodes(node):
            q = qual
            if isinstance(child, (ast.FunctionDef, ast.AsyncFunctionDef, ast.ClassDef)):
                q = (qual + "." if qual != "<module>" else "") + child.name
            out[id(child)] = q
            visit(child, q)

    visit(mod.tree, "<module>")
    return out


def _const_str(n: ast.AST) -> Optional[str]:
    return n.value if isinstance(n, ast.Constant) and isinstance(n.value, str) else None


def _state_aliases(mod: Module) -> Dict[int, ast.AST]:
    """id(Name node) -> the expression the local stands for, for locals bound exactly once in their function to the instance
    dict (`X.__dict__`) or to one of the state attributes (`X._group_current`, `X.__dict__["_group_current"]`,
    `X.__dict__.get("_group_current")`): a store through such a local is a store to the state itself"""
    out: Dict[int, ast.AST] = {}
    for fn in ast.walk(mod.tree):
        if not isinstance(fn, (ast.FunctionDef, ast.AsyncFunctionDef)):
            continue
        binds: Dict[str, List[ast.AST]] = {}
        for n in ast.walk(fn):
            if isinstance(n, ast.Name) and isinstance(n.ctx, (ast.Store, ast.Del)):
                binds.setdefault(n.id, []).append(n)
            elif isinstance(n, ast.arg):
                binds.setdefault(n.arg, []).append(n)
        alias: Dict[str, ast.AST] = {}
        for n in ast.walk(fn):
            if isinstance(n, ast.Assign) and len(n.targets) == 1 and isinstance(n.targets[0], ast.Name) and len(binds.get(n.targets[0].id, [])) == 1:
                v = n.value
                if isinstance(v, ast.Attribute) and v.attr == "__dict__":
                    alias[n.targets[0].id] = v
                elif isinstance(v, ast.Attribute) and v.attr in STATE_ATTRS:
                    alias[n.targets[0].id] = v
                elif isinstance(v, ast.Subscript) and _const_str(v.slice) in STATE_ATTRS and (
                        (isinstance(v.value, ast.Attribute) and v.value.attr == "__dict__") or (isinstance(v.value, ast.Name) and isinstance(alias.get(v.value.id), ast.Attribute)
                                                                                                   and alias[v.value.id].attr == "__dict__")):
                    base = v.value if isinstance(v.value, ast.Attribute) else alias[v.value.id]
                    alias[n.targets[0].id] = ast.Attribute(base.value, _const_str(v.slice), ast.Load())
                elif isinstance(v, ast.Call) and isinstance(v.func, ast.Attribute) and v.func.attr == "get" and v.args and _const_str(v.args[0]) in STATE_ATTRS:
                    recv = v.func.value
                    if isinstance(recv, ast.Name) and isinstance(alias.get(recv.id), ast.Attribute) and alias[recv.id].attr == "__dict__":
                        recv = alias[recv.id]
                    if isinstance(recv, ast.Attribute) and recv.attr == "__dict__":
                        alias[n.targets[0].id] = ast.Attribute(recv.value, _const_str(v.args[0]), ast.Load())
        if alias:
            for n in ast.walk(fn):
                if isinstance(n, ast.Name) and isinstance(n.ctx, ast.Load) and n.id in alias:
                    out[id(n)] = alias[n.id]
    return out


def state_writes(mod: Module) -> List[Write]:
    enc = _enclosing(mod)
    out: List[Write] = []
    aliases = _state_aliases(mod)

    def res(node: ast.AST) -> ast.AST:
        return aliases.get(id(node), node)

    def add(node, attr, form, target, tracked=False):
        out.append(Write(mod.rel, enc.get(id(node), "<module>"), attr, form, getattr(node, "lineno", 0), target, tracked))

    for n in ast.walk(mod.tree):
        targets: List[Tuple[ast.AST, str]] = []
        if isinstance(n, ast.Assign):
            targets = [(t, "attr") for t in n.targets]
        elif isinstance(n, ast.AugAssign):
            targets = [(n.target, "aug")]
        elif isinstance(n, ast.AnnAssign) and n.value is not None:
            targets = [(n.target, "attr")]
        elif isinstance(n, ast.Delete):
            targets = [(t, "del") for t in n.targets]
        for t, form in targets:
            for tt in (t.elts if isinstance(t, (ast.Tuple, ast.List)) else [t]):
                if isinstance(tt, ast.Attribute) and tt.attr in STATE_ATTRS:
                    add(n, tt.attr, form, ast.unparse(tt))
                elif isinstance(tt, ast.Subscript):
                    base = res(tt.value)
                    if isinstance(base, ast.Attribute) and base.attr == "__dict__":
                        key = _const_str(tt.slice)
                        if key in STATE_ATTRS:
                            add(n, key, "dict", ast.unparse(tt))
                        elif key is None or not key.startswith("__"):
                            add(n, "<field>", "dict", ast.unparse(tt))
                    elif isinstance(base, ast.Attribute) and base.attr in STATE_ATTRS:
                        add(n, base.attr, "item", ast.unparse(tt))
        if isinstance(n, ast.Call):
            f = n.func
            try:
                ftxt = ast.unparse(f)
            except Exception:
                ftxt = ""
            if ftxt == "setattr" and len(n.args) == 3:
                key = _const_str(n.args[1])
                if key in STATE_ATTRS:
                    add(n, key, "setattr", ast.unparse(n.args[0]) + "." + key)
            elif ftxt in ("object.__setattr__", "super().__setattr__", "type.__setattr__") and len(n.args) >= 2:
                a = n.args[1:] if ftxt != "super().__setattr__" else n.args
                if ftxt == "super().__setattr__" and len(n.args) == 2:
                    key = _const_str(n.args[0])
                    add(n, key if key in STATE_ATTRS else "<field>", ftxt, ast.unparse(n.args[0]))
                elif ftxt != "super().__setattr__" and len(n.args) == 3:
                    key = _const_str(n.args[1])
                    add(n, key if key in STATE_ATTRS else "<field>", ftxt, ast.unparse(n.args[0]) + "." + (key or ast.unparse(n.args[1])))
            elif isinstance(f, ast.Attribute) and f.attr in MUTATORS and isinstance(res(f.value), ast.Attribute) and res(f.value).attr in STATE_ATTRS:
                add(n, res(f.value).attr, "item", ast.unparse(f))
            elif isinstance(f, ast.Attribute) and f.attr in ("update", "setdefault", "__setitem__") and isinstance(res(f.value), ast.Attribute) and res(f.value).attr == "__dict__":
                # X.__dict__.update(k=v, ...) / .update({"k": v}) / .setdefault("k", v) / .__setitem__("k", v): raw stores like X.__dict__["k"] = v
                keys: List[Optional[str]] = [k.arg for k in n.keywords]
                if f.attr == "update":
                    for a in n.args:
                        if isinstance(a, ast.Dict):
                            keys += [_const_str(k) if k is not None else None for k in a.keys]
                        else:
                            keys.append(None)
                elif n.args:
                    keys.append(_const_str(n.args[0]))
                for key in keys:
                    if key in STATE_ATTRS:
                        add(n, key, "dict", f"{ast.unparse(f.value)}[{key!r}]")
                    elif key is None or not key.startswith("__"):
                        add(n, "<field>", "dict", f"{ast.unparse(f.value)}[{key!r}]")
    return out


# ---------------------------------------------------------------------------
# per-function effects with simple alias tracking


@dataclass
class Effect:
    kind: str      # tracked-store | raw-store | state-store | alias-mutation
    detail: str
    line: int


def _is_self_field_read(n: ast.AST, selfname: str) -> bool:
    """getattr(self, x) / self.__raw_get(x) / self.<name> / super().__getattribute__(x)"""
    if isinstance(n, ast.Call):
        try:
            f = ast.unparse(n.func)
        except Exception:
            return False
        if f == "getattr" and n.args and isinstance(n.args[0], ast.Name) and n.args[0].id == selfname:
            return True
        if f in (f"{selfname}.__raw_get", f"{selfname}._Message__raw_get", "super().__getattribute__"):
            return True
    return False


def function_effects(fn: ast.FunctionDef) -> List[Effect]:
    """Effects of one function body on `self` (first parameter). Aliases: a local
    becomes an alias of a field value only by name binding (assignment, unpacking,
    loop target over an alias or over alias.items()/.values())."""
    if not fn.args.args:
        return []
    selfname = fn.args.args[0].arg
    aliases: Set[str] = set()
    out: List[Effect] = []

    def is_alias_expr(e: ast.AST) -> bool:
        if isinstance(e, ast.Name):
            return e.id in aliases
        if _is_self_field_read(e, selfname):
            return True
        if isinstance(e, ast.Subscript):
            return is_alias_expr(e.value)           # element of an aliased container
        if isinstance(e, ast.Call) and isinstance(e.func, ast.Attribute) and e.func.attr in ("items", "values", "keys", "get") and is_alias_expr(e.func.value):
            return e.func.attr != "keys"
        if isinstance(e, ast.Attribute) and isinstance(e.value, ast.Name) and e.value.id == selfname and not e.attr.startswith("_"):
            return True
        return False

    def bind(t: ast.AST, v_is_alias: bool) -> None:
        if isinstance(t, ast.Name):
            if v_is_alias:
                aliases.add(t.id)
            else:
                aliases.discard(t.id)
        elif isinstance(t, (ast.Tuple, ast.List)):
            for e in t.elts:
                bind(e, v_is_alias)

    def visit(stmts: List[ast.stmt]) -> None:
        nonlocal aliases
        for st in stmts:
            if isinstance(st, (ast.FunctionDef, ast.AsyncFunctionDef, ast.ClassDef)):
                continue
            if isinstance(st, ast.Assign):
                for t in st.targets:
                    record_store(t, st)
                fresh = isinstance(st.value, (ast.List, ast.Dict, ast.Set, ast.ListComp, ast.DictComp, ast.SetComp, ast.Constant, ast.JoinedStr, ast.BinOp))
                for t in st.targets:
                    if isinstance(t, (ast.Name, ast.Tuple, ast.List)):
                        bind(t, (not fresh) and is_alias_expr(st.value))
            elif isinstance(st, ast.AugAssign):
                record_store(st.target, st, aug=True)
            elif isinstance(st, (ast.For, ast.AsyncFor)):
                bind(st.target, is_alias_expr(st.iter))
            elif isinstance(st, ast.Delete):
                for t in st.targets:
                    record_store(t, st, delete=True)
            for n in _own_calls(st):
                record_call(n)
            # may-alias: branches are analysed on copies and merged by union
            before = set(aliases)
            merged = set(aliases) if not isinstance(st, (ast.If, ast.Try)) else set()
            had_branch = False
            for body in _bodies(st):
                had_branch = True
                aliases = set(before)
                visit(body)
                merged |= aliases
            if had_branch:
                if isinstance(st, ast.If) and not st.orelse:
                    merged |= before
                if isinstance(st, ast.Try):
                    merged |= before
                aliases = merged

    def record_store(t: ast.AST, st: ast.AST, aug: bool = False, delete: bool = False) -> None:
        for tt in (t.elts if isinstance(t, (ast.Tuple, ast.List)) else [t]):
            if isinstance(tt, ast.Attribute) and isinstance(tt.value, ast.Name) and tt.value.id == selfname:
                kind = "state-store" if tt.attr in STATE_ATTRS else "tracked-store"
                out.append(Effect(kind, ast.unparse(tt), st.lineno))
            elif isinstance(tt, ast.Subscript):
                base = tt.value
                if isinstance(base, ast.Attribute) and base.attr == "__dict__" and isinstance(base.value, ast.Name) and base.value.id == selfname:
                    key = _const_str(tt.slice)
                    out.append(Effect("state-store" if key in STATE_ATTRS else "raw-store", ast.unparse(tt), st.lineno))
                elif isinstance(base, ast.Attribute) and base.attr in STATE_ATTRS and isinstance(base.value, ast.Name) and base.value.id == selfname:
                    out.append(Effect("state-store", ast.unparse(tt), st.lineno))
                elif is_alias_expr(base):
                    out.append(Effect("alias-mutation", ast.unparse(tt) + (" (del)" if delete else " = ..."), st.lineno))
            elif isinstance(tt, ast.Name) and aug and tt.id in aliases:
                out.append(Effect("alias-mutation", f"{tt.id} {type(st.op).__name__}= ...", st.lineno))  # type: ignore[attr-defined]
            elif isinstance(tt, ast.Attribute) and is_alias_expr(tt.value):
                out.append(Effect("alias-mutation", ast.unparse(tt) + " = ...", st.lineno))

    def record_call(n: ast.Call) -> None:
        try:
            ftxt = ast.unparse(n.func)
        except Exception:
            return
        if ftxt == "setattr" and n.args and isinstance(n.args[0], ast.Name) and n.args[0].id == selfname:
            key = _const_str(n.args[1]) if len(n.args) > 1 else None
            out.append(Effect("state-store" if key in STATE_ATTRS else "tracked-store", f"setattr({selfname}, {ast.unparse(n.args[1]) if len(n.args) > 1 else '?'}, ...)", n.lineno))
        elif ftxt in ("super().__setattr__",):
            out.append(Effect("raw-store", ast.unparse(n)[:60], n.lineno))
        elif ftxt == "object.__setattr__" and n.args and isinstance(n.args[0], ast.Name) and n.args[0].id == selfname:
            out.append(Effect("raw-store", ast.unparse(n)[:60], n.lineno))
        elif isinstance(n.func, ast.Attribute) and n.func.attr in MUTATORS and is_alias_expr(n.func.value):
            out.append(Effect("alias-mutation", ast.unparse(n)[:60], n.lineno))

    visit(fn.body)
    return out


def _bodies(st: ast.stmt):
    for name in ("body", "orelse", "finalbody"):
        b = getattr(st, name, None)
        if isinstance(b, list) and b and isinstance(b[0], ast.stmt):
            yield b
    if isinstance(st, ast.Try):
        for h in st.handlers:
            yield h.body


def _own_calls(st: ast.stmt) -> Iterator[ast.Call]:
    from .cfg import own_nodes

    for n in own_nodes(st):
        if isinstance(n, ast.Call):
            yield n


def self_callees(fn: ast.FunctionDef) -> Set[str]:
    """names of methods called on self / cls inside fn"""
    if not fn.args.args:
        return set()
    selfname = fn.args.args[0].arg
    out = set()
    for n in ast.walk(fn):
        if isinstance(n, ast.Call) and isinstance(n.func, ast.Attribute) and isinstance(n.func.value, ast.Name) and n.func.value.id == selfname:
            out.add(n.func.attr)
    return out
