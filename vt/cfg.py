"""E3 - statement-level control-flow graph with exceptional, finally and
cancellation edges; dominance and must-pass-through queries.

Nodes are small integers; node.stmt is the ast statement (finally bodies are
copied per exit kind, so several nodes may share one ast statement).
Edge labels: next | true | false | iter | done | exc:<Class or ?> | cancel |
return | break | continue.
"""
from __future__ import annotations

import ast
from dataclasses import dataclass, field
from typing import Callable, Dict, Iterable, List, Optional, Sequence, Set, Tuple


@dataclass
class Node:
    id: int
    kind: str                 # entry | exit | raise | stmt | test | loop | handler | join | withexit
    stmt: Optional[ast.AST] = None
    label: str = ""
    ctx: Tuple[str, ...] = ()  # ('try-body', 'finally:exc', 'handler:KeyError', ...)

    @property
    def line(self) -> int:
        return getattr(self.stmt, "lineno", 0) if self.stmt is not None else 0


BASE_CATCHERS = {"BaseException", "asyncio.CancelledError", "CancelledError"}


class CFG:
    def __init__(self, fn: ast.AST, implicit_exc: bool = True):
        self.fn = fn
        self.nodes: List[Node] = []
        self.succ: Dict[int, List[Tuple[int, str]]] = {}
        self.pred: Dict[int, List[Tuple[int, str]]] = {}
        self.implicit_exc = implicit_exc
        self.entry = self._new("entry")
        self.exit = self._new("exit")
        self.raise_exit = self._new("raise")
        # context stacks
        self._loops: List[Tuple[int, int, int]] = []   # (continue target, break target, try depth)
        self._tries: List[dict] = []
        last = self._block(fn.body, [self.entry.id], ())  # type: ignore[attr-defined]
        for n in last:
            self._edge(n, self.exit.id, "next")

    # -- construction ------------------------------------------------------
    def _new(self, kind: str, stmt: Optional[ast.AST] = None, label: str = "", ctx: Tuple[str, ...] = ()) -> Node:
        n = Node(len(self.nodes), kind, stmt, label, ctx)
        self.nodes.append(n)
        self.succ[n.id] = []
        self.pred[n.id] = []
        return n

    def _edge(self, a: int, b: int, label: str) -> None:
        if (b, label) not in self.succ[a]:
            self.succ[a].append((b, label))
            self.pred[b].append((a, label))

    def _connect(self, frm: Sequence[int], to: int, label: str = "next") -> None:
        for f in frm:
            self._edge(f, to, label)

    def _block(self, body: Sequence[ast.stmt], frm: List[int], ctx: Tuple[str, ...], label: str = "next") -> List[int]:
        cur = list(frm)
        first = True
        for st in body:
            if not cur:
                break  # unreachable code
            cur = self._stmt(st, cur, ctx, label if first else "next")
            first = False
        return cur

    def _may_raise(self, node: ast.AST) -> bool:
        for n in ast.walk(node):
            if isinstance(n, (ast.Call, ast.Subscript, ast.Attribute, ast.Await, ast.BinOp, ast.Yield, ast.YieldFrom)):
                return True
        return False

    def _has_await(self, node: ast.AST) -> bool:
        for n in ast.walk(node):
            if isinstance(n, (ast.Await, ast.Yield, ast.YieldFrom)):
                return True
        return False

    def _exc_targets(self, exc_class: Optional[str], cancel: bool = False) -> List[Tuple[int, str]]:
        """where an exception raised *here* goes, given the current try stack"""
        label = "cancel" if cancel else f"exc:{exc_class or '?'}"
        out: List[Tuple[int, str]] = []
        for depth in range(len(self._tries) - 1, -1, -1):
            t = self._tries[depth]
            if t["phase"] == "body":
                caught_all = False
                for names, hnode in t["handlers"]:
                    if self._catches(names, exc_class, cancel) is not False:
                        out.append((hnode, label))
                        if self._catches(names, exc_class, cancel) is True:
                            caught_all = True
                            break
                if caught_all:
                    return out
                if t["finally_exc"] is not None:
                    out.append((t["finally_exc"], label))
                    return out
            elif t["phase"] in ("handler", "else"):
                if t["finally_exc"] is not None:
                    out.append((t["finally_exc"], label))
                    return out
            # phase 'finally': exception propagates outward
        out.append((self.raise_exit.id, label))
        return out

    @staticmethod
    def _catches(names: Tuple[str, ...], exc_class: Optional[str], cancel: bool) -> Optional[bool]:
        """True = certainly, False = certainly not, None = maybe"""
        if "<bare>" in names or "BaseException" in names:
            return True
        if cancel:
            return True if (set(names) & BASE_CATCHERS) else False
        if exc_class is None:
            return None
        if exc_class in names:
            return True
        if "Exception" in names and exc_class not in ("KeyboardInterrupt", "SystemExit", "GeneratorExit", "CancelledError",
                                                       "asyncio.CancelledError", "StopAsyncIteration_") :
            return True
        return None if exc_class == "?" else False

    def _add_exc_edges(self, node: int, stmt: ast.AST) -> None:
        if isinstance(stmt, ast.Raise):
            return
        if self.implicit_exc and self._may_raise(stmt):
            for tgt, label in self._exc_targets(None):
                self._edge(node, tgt, label)
        if self._has_await(stmt):
            for tgt, label in self._exc_targets(None, cancel=True):
                self._edge(node, tgt, label)

    def _stmt(self, st: ast.stmt, frm: List[int], ctx: Tuple[str, ...], label: str) -> List[int]:
        if isinstance(st, ast.If):
            t = self._new("test", st, "if", ctx)
            self._connect(frm, t.id, label)
            self._add_exc_edges(t.id, st.test)
            a = self._block(st.body, [t.id], ctx, "true")
            if st.orelse:
                b = self._block(st.orelse, [t.id], ctx, "false")
            else:
                j = self._new("join", st, "endif", ctx)
                self._edge(t.id, j.id, "false")
                b = [j.id]
            return a + b
        if isinstance(st, (ast.For, ast.AsyncFor, ast.While)):
            head = self._new("loop", st, "loop", ctx)
            self._connect(frm, head.id, label)
            self._add_exc_edges(head.id, st.iter if not isinstance(st, ast.While) else st.test)
            if isinstance(st, ast.AsyncFor):
                for tgt, lab in self._exc_targets(None, cancel=True):
                    self._edge(head.id, tgt, lab)
            after = self._new("join", st, "endloop", ctx)
            self._loops.append((head.id, after.id, len(self._tries)))
            body_end = self._block(st.body, [head.id], ctx, "iter")
            self._loops.pop()
            self._connect(body_end, head.id, "next")
            infinite = isinstance(st, ast.While) and isinstance(st.test, ast.Constant) and bool(st.test.value)
            if isinstance(st, ast.For) and isinstance(st.iter, ast.Call) and ast.unparse(st.iter.func) in ("count", "itertools.count", "itertools.cycle", "cycle"):
                infinite = True   # unbounded iterators never exhaust
            if not infinite:
                if st.orelse:
                    e = self._block(st.orelse, [head.id], ctx, "done")
                    self._connect(e, after.id, "next")
                else:
                    self._edge(head.id, after.id, "done")
            return [after.id] if self.pred[after.id] else []
        if isinstance(st, ast.Try):
            return self._try(st, frm, ctx, label)
        if isinstance(st, (ast.With, ast.AsyncWith)):
            n = self._new("stmt", st, "with", ctx)
            self._connect(frm, n.id, label)
            for item in st.items:
                self._add_exc_edges(n.id, item.context_expr)
            if isinstance(st, ast.AsyncWith):
                for tgt, lab in self._exc_targets(None, cancel=True):
                    self._edge(n.id, tgt, lab)
            end = self._block(st.body, [n.id], ctx, "next")
            if not end:
                return []
            x = self._new("withexit", st, "withexit", ctx)
            self._connect(end, x.id, "next")
            if isinstance(st, ast.AsyncWith):
                for tgt, lab in self._exc_targets(None, cancel=True):
                    self._edge(x.id, tgt, lab)
            return [x.id]
        n = self._new("stmt", st, type(st).__name__, ctx)
        self._connect(frm, n.id, label)
        if isinstance(st, ast.Return):
            if st.value is not None:
                self._add_exc_edges(n.id, st.value)
            self._leave(n.id, "return")
            return []
        if isinstance(st, ast.Raise):
            cls = None
            if st.exc is not None:
                e = st.exc.func if isinstance(st.exc, ast.Call) else st.exc
                try:
                    cls = ast.unparse(e)
                except Exception:
                    cls = None
            else:
                cls = "?"
            for tgt, lab in self._exc_targets(cls):
                self._edge(n.id, tgt, lab)
            return []
        if isinstance(st, ast.Break):
            self._leave(n.id, "break")
            return []
        if isinstance(st, ast.Continue):
            self._leave(n.id, "continue")
            return []
        if isinstance(st, (ast.FunctionDef, ast.AsyncFunctionDef, ast.ClassDef)):
            return [n.id]
        self._add_exc_edges(n.id, st)
        return [n.id]

    def _leave(self, node: int, kind: str) -> None:
        """return / break / continue: run the finally bodies of the try statements being left"""
        if kind == "return":
            stop_depth = 0
            final_target = self.exit.id
        else:
            if not self._loops:
                return
            cont, brk, stop_depth = self._loops[-1]
            final_target = cont if kind == "continue" else brk
        cur = [node]
        first_label = kind
        for depth in range(len(self._tries) - 1, stop_depth - 1, -1):
            t = self._tries[depth]
            if t["finalbody"] and t["phase"] != "finally":
                saved = self._tries
                self._tries = self._tries[:depth]
                savedloops = self._loops
                try:
                    cur = self._block(t["finalbody"], cur, t["ctx"] + (f"finally:{kind}",), first_label)
                finally:
                    self._tries = saved
                    self._loops = savedloops
                first_label = "next"
                if not cur:
                    return
        self._connect(cur, final_target, first_label)

    def _try(self, st: ast.Try, frm: List[int], ctx: Tuple[str, ...], label: str) -> List[int]:
        rec = {"phase": "body", "handlers": [], "finally_exc": None, "finalbody": st.finalbody, "ctx": ctx}
        # exceptional copy of the finally body: runs, then re-raises outward
        handler_nodes = []
        for h in st.handlers:
            names = _handler_names(h)
            hn = self._new("handler", h, "except " + ",".join(names), ctx + ("handler:" + ",".join(names),))
            handler_nodes.append((names, hn))
            rec["handlers"].append((names, hn.id))
        if st.finalbody:
            fe = self._new("join", st, "finally(exc)", ctx + ("finally:exc",))
            rec["finally_exc"] = fe.id
            end = self._block(st.finalbody, [fe.id], ctx + ("finally:exc",), "next")
            # after the exceptional finally the exception continues outward
            for e in end:
                for tgt, lab in self._exc_targets("?"):
                    self._edge(e, tgt, "exc:reraise")
        self._tries.append(rec)
        ends: List[int] = []
        body_end = self._block(st.body, frm, ctx + ("try-body",), label)
        rec["phase"] = "else"
        if st.orelse and body_end:
            body_end = self._block(st.orelse, body_end, ctx + ("try-else",), "next")
        ends.extend(body_end)
        rec["phase"] = "handler"
        for (names, hn), h in zip(handler_nodes, st.handlers):
            if not self.pred[hn.id]:
                continue
            e = self._block(h.body, [hn.id], hn.ctx, "next")
            ends.extend(e)
        rec["phase"] = "finally"
        self._tries.pop()
        if st.finalbody and ends:
            ends = self._block(st.finalbody, ends, ctx + ("finally:normal",), "next")
        return ends

    # -- queries -----------------------------------------------------------
    def stmts(self, pred: Callable[[Node], bool]) -> List[Node]:
        return [n for n in self.nodes if pred(n)]

    def nodes_for(self, stmt: ast.AST) -> List[Node]:
        return [n for n in self.nodes if n.stmt is stmt]

    def reachable(self, src: Iterable[int], avoid: Set[int] = frozenset(), labels: Optional[Callable[[str], bool]] = None) -> Set[int]:
        seen: Set[int] = set()
        stack = [s for s in src if s not in avoid]
        while stack:
            n = stack.pop()
            if n in seen:
                continue
            seen.add(n)
            for m, lab in self.succ[n]:
                if m in avoid or m in seen:
                    continue
                if labels is not None and not labels(lab):
                    continue
                stack.append(m)
        return seen

    def reach_from_successors(self, node: int, avoid: Set[int] = frozenset(), labels=None) -> Set[int]:
        starts = [m for m, lab in self.succ[node] if (labels is None or labels(lab))]
        return self.reachable(starts, avoid, labels)

    def must_pass(self, a: int, b: int, through: Set[int], labels=None) -> bool:
        """every path from a (exclusive) to b passes through a node of `through`"""
        if b in through:
            return True
        return b not in self.reach_from_successors(a, set(through), labels)

    def dominators(self, labels: Optional[Callable[[str], bool]] = None) -> Dict[int, Set[int]]:
        reach = self.reachable([self.entry.id], labels=labels)
        dom: Dict[int, Set[int]] = {n: set(reach) for n in reach}
        dom[self.entry.id] = {self.entry.id}
        changed = True
        order = sorted(reach)
        while changed:
            changed = False
            for n in order:
                if n == self.entry.id:
                    continue
                preds = [p for p, lab in self.pred[n] if p in reach and (labels is None or labels(lab))]
                if not preds:
                    continue
                new = set.intersection(*[dom[p] for p in preds]) | {n}
                if new != dom[n]:
                    dom[n] = new
                    changed = True
        return dom

    def find_path(self, a: int, goal: Set[int], avoid: Set[int] = frozenset(), labels=None) -> Optional[List[Tuple[int, str]]]:
        """a shortest path (list of (node, edge label taken to reach it)) from a's successors to goal"""
        from collections import deque

        q = deque()
        prev: Dict[int, Tuple[int, str]] = {}
        for m, lab in self.succ[a]:
            if m in avoid or (labels is not None and not labels(lab)):
                continue
            if m not in prev:
                prev[m] = (a, lab)
                q.append(m)
        while q:
            n = q.popleft()
            if n in goal:
                path = [(n, prev[n][1])]
                while prev[path[-1][0]][0] != a:
                    p = prev[path[-1][0]][0]
                    path.append((p, prev[p][1]))
                return list(reversed(path))
            for m, lab in self.succ[n]:
                if m in avoid or m in prev or (labels is not None and not labels(lab)):
                    continue
                prev[m] = (n, lab)
                q.append(m)
        return None

    def describe(self, path: List[Tuple[int, str]]) -> str:
        out = []
        for n, lab in path:
            nd = self.nodes[n]
            out.append(f"-{lab}-> {nd.kind}:{nd.label}@{nd.line}")
        return " ".join(out)


def normal_edge(label: str) -> bool:
    return not (label.startswith("exc") or label == "cancel")


def _handler_names(h: ast.ExceptHandler) -> Tuple[str, ...]:
    if h.type is None:
        return ("<bare>",)
    if isinstance(h.type, ast.Tuple):
        return tuple(ast.unparse(e) for e in h.type.elts)
    return (ast.unparse(h.type),)


def contains_call(stmt: ast.AST, pred: Callable[[ast.Call], bool]) -> Optional[ast.Call]:
    for n in ast.walk(stmt):
        if isinstance(n, ast.Call) and pred(n):
            return n
    return None


def own_nodes(stmt: ast.AST):
    """ast nodes belonging to the statement itself, not to nested statement bodies"""
    if isinstance(stmt, ast.If):
        yield from ast.walk(stmt.test)
    elif isinstance(stmt, (ast.For, ast.AsyncFor)):
        yield from ast.walk(stmt.target)
        yield from ast.walk(stmt.iter)
    elif isinstance(stmt, ast.While):
        yield from ast.walk(stmt.test)
    elif isinstance(stmt, (ast.With, ast.AsyncWith)):
        for i in stmt.items:
            yield from ast.walk(i)
    elif isinstance(stmt, (ast.Try, ast.ExceptHandler, ast.FunctionDef, ast.AsyncFunctionDef, ast.ClassDef)):
        return
    else:
        yield from ast.walk(stmt)
