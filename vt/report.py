"""Obligations, verdicts, evidence files, known findings, exit codes."""
from __future__ import annotations

import json
import os
import time
from dataclasses import dataclass, field
from pathlib import Path
from typing import Any, Dict, List, Optional

from .src import AnalysisError, Repo

VERIF = Path(__file__).resolve().parent.parent

PROVED = "PROVED"
REFUTED = "REFUTED"
INCONCLUSIVE = "INCONCLUSIVE"


@dataclass
class Ob:
    rule: str
    construct: str           # qualified construct the obligation is about (no line numbers)
    verdict: str
    witness: str = ""        # normalised witness class (valuation / path), part of the finding key
    loc: str = ""            # file:line for diagnosis (not part of the key)
    detail: str = ""
    suggested_input: str = ""

    def key(self) -> str:
        return f"{self.rule}|{self.construct}|{self.witness}"

    def as_json(self) -> Dict[str, Any]:
        d = {"rule": self.rule, "construct": self.construct, "verdict": self.verdict}
        if self.witness:
            d["witness"] = self.witness
        if self.loc:
            d["loc"] = self.loc
        if self.detail:
            d["detail"] = self.detail
        return d


class Ctx:
    """Collects obligations for one property run."""

    def __init__(self, prop: str, tier: str, repo: Optional[Repo] = None):
        self.prop = prop
        self.tier = tier
        self.repo = repo or Repo()
        self.obs: List[Ob] = []
        self.evaluations = 0            # valuations / paths / configurations enumerated
        self.functions: List[str] = []  # functions analysed
        self.oracles: List[str] = []
        self.assumptions: List[str] = []
        self.notes: List[str] = []
        self.rules_run: List[str] = []
        self.deferred_errors: List[str] = []
        self.exhaustive = True
        self.t0 = time.time()

    # -- recording ---------------------------------------------------------
    def ob(self, rule: str, construct: str, ok: Optional[bool], witness: str = "", loc: str = "",
           detail: str = "", suggested_input: str = "") -> Ob:
        verdict = PROVED if ok is True else REFUTED if ok is False else INCONCLUSIVE
        o = Ob(rule, construct, verdict, witness, loc, detail, suggested_input)
        self.obs.append(o)
        return o

    def proved(self, rule: str, construct: str, loc: str = "", detail: str = "") -> Ob:
        return self.ob(rule, construct, True, "", loc, detail)

    def refuted(self, rule: str, construct: str, witness: str, loc: str = "", detail: str = "",
                suggested_input: str = "") -> Ob:
        return self.ob(rule, construct, False, witness, loc, detail, suggested_input)

    def inconclusive(self, rule: str, construct: str, detail: str, loc: str = "") -> Ob:
        return self.ob(rule, construct, None, "", loc, detail)

    def analysed(self, *names: str) -> None:
        for n in names:
            if n not in self.functions:
                self.functions.append(n)

    def count(self, n: int = 1) -> None:
        self.evaluations += n

    def floor(self, rule: str, what: str, got: int, floor: int) -> None:
        """instance-count floor: a rule that matches fewer constructs than were
        confirmed by hand on the pinned tree must not pass vacuously"""
        if got < floor:
            # deferred: the other rules still run (a violation found elsewhere takes precedence over exit 2)
            self.deferred_errors.append(f"{rule}: only {got} instances of {what} (floor {floor}) - anchors moved, rule would pass vacuously")

    def oracle(self, text: str) -> None:
        if text not in self.oracles:
            self.oracles.append(text)

    def assume(self, text: str) -> None:
        if text not in self.assumptions:
            self.assumptions.append(text)


def load_known() -> List[Dict[str, Any]]:
    p = VERIF / "known_findings.json"
    if not p.exists():
        return []
    return json.loads(p.read_text())["findings"]


def match_known(o: Ob, known: List[Dict[str, Any]]) -> Optional[Dict[str, Any]]:
    for k in known:
        if k.get("status") != "known":
            continue
        if k["rule"] == o.rule and k["construct"] == o.construct and k.get("witness", "") == o.witness:
            return k
    return None


def finish(ctx: Ctx, level_explanation: str, rule_text: str, error: Optional[str] = None) -> int:
    """Print verdicts, write evidence and violation reports, return the exit code."""
    known = load_known()
    refuted = [o for o in ctx.obs if o.verdict == REFUTED]
    incon = [o for o in ctx.obs if o.verdict == INCONCLUSIVE]
    proved = [o for o in ctx.obs if o.verdict == PROVED]
    out_dir = VERIF / "out" / ctx.prop
    violations = []
    known_matched = []
    seen = set()
    for o in refuted:
        if o.key() in seen:
            continue
        seen.add(o.key())
        k = match_known(o, known)
        if k is not None:
            known_matched.append(o)
            print(f"KNOWN-FINDING: property={ctx.prop} rule={o.rule} {o.construct} [{o.witness}] {k.get('what', '')}")
        else:
            violations.append(o)
    code = 0
    no_files = bool(os.environ.get("VT_NO_EVIDENCE"))
    if violations:
        if not no_files:
            out_dir.mkdir(parents=True, exist_ok=True)
        for n, o in enumerate(violations):
            path = out_dir / f"{o.rule}-{n}.json"
            if not no_files:
                path.write_text(json.dumps({
                    "property": ctx.prop, "rule": o.rule, "construct": o.construct, "witness": o.witness,
                    "loc": o.loc, "detail": o.detail, "suggested_input": o.suggested_input,
                    "repo": str(ctx.repo.root),
                }, indent=1))
            print(f"  refuted: {o.rule} {o.construct} at {o.loc}\n    witness: {o.witness}\n    {o.detail}")
            print(f"VIOLATION property={ctx.prop} replay={path}")
        code = 1
    if error is not None:
        print(f"ANALYSIS-ERROR property={ctx.prop} {error}")
        code = 2 if code == 0 else code
    for o in incon:
        print(f"ANALYSIS-INCONCLUSIVE property={ctx.prop} rule={o.rule} {o.construct} at {o.loc}: {o.detail}")
        if code == 0:
            code = 2

    distinct = len({(o.rule, o.construct) for o in ctx.obs})
    samples = []
    by_rule: Dict[str, int] = {}
    for o in ctx.obs:
        by_rule[o.rule] = by_rule.get(o.rule, 0) + 1
        if by_rule[o.rule] <= 3:
            samples.append(o.as_json())
    for o in violations + known_matched:
        j = o.as_json()
        if j not in samples:
            samples.append(j)
    ev = {
        "property_id": ctx.prop,
        "tier": ctx.tier if ctx.tier in ("quick", "thorough") else "quick",
        "seed": int(os.environ.get("VERIF_SEED", "0") or 0),
        "level": "other",
        "coverage": {
            "explanation": level_explanation,
            "rule": rule_text,
            "obligations": len(ctx.obs),
            "discharged": len(proved),
            "refuted": len(refuted),
            "inconclusive": len(incon),
            "evaluations": max(ctx.evaluations, len(ctx.obs)),
            "distinct_nontrivial": distinct,
            "samples": samples[:60],
            "exhaustive": bool(ctx.exhaustive and error is None),
            "obligations_by_rule": by_rule,
            "rules_run": ctx.rules_run,
            "functions_analysed": ctx.functions,
            "files_consulted": sorted(set(ctx.repo.consulted)),
            "source_digest": ctx.repo.digest() if error is None else "",
            "oracles": ctx.oracles,
            "known_findings_matched": [o.key() for o in known_matched],
            "notes": ctx.notes,
            "analysis_error": error or "",
        },
        "assumptions": ctx.assumptions,
        "wall_s": round(time.time() - ctx.t0, 3),
        "violations": len(violations),
    }
    if not no_files:
        evdir = VERIF / "evidence"
        evdir.mkdir(exist_ok=True)
        (evdir / f"{ctx.prop}.json").write_text(json.dumps(ev, indent=1, sort_keys=False) + "\n")
    print(f"{ctx.prop} [{ctx.tier}] obligations={len(ctx.obs)} proved={len(proved)} refuted={len(refuted)} "
          f"(known={len(known_matched)}) inconclusive={len(incon)} evaluations={ev['coverage']['evaluations']} "
          f"functions={len(ctx.functions)} wall={ev['wall_s']}s exit={code}")
    return code
