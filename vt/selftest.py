"""Self-test of the checkers, both directions (DESIGN section 5).

* must-fire: scratch-copy variants with one instance broken; the named property's
  check must exit 1 and report the named rule.
* must-stay-silent: behaviour-preserving refactors; every listed property's check
  must still exit 0.
* the seeded changes under /verif/seeded are must-fire variants for their property
  (except those listed in EXPECTED_MISSES).

A failed expectation is a defect of the checker: reported as ANALYSIS-ERROR
(exit 2), never as a VIOLATION.  Variants live under a temporary directory and
are removed afterwards; evidence files are not touched by variant runs.

python -m vt.selftest [--prop Cxx] [--kind fire|silent|seeded|kept] [-v]
"""
from __future__ import annotations

import ast
import contextlib
import io
import json
import os
import re
import sys
from concurrent.futures import ProcessPoolExecutor
from pathlib import Path
from typing import Any, Dict, List, Optional, Tuple

VERIF = Path(__file__).resolve().parent.parent
I = "src/betterproto/__init__.py"
CH = "src/betterproto/grpc/util/async_channel.py"
CL = "src/betterproto/grpc/grpclib_client.py"
EN = "src/betterproto/enum.py"
TP = "src/betterproto/templates/template.py.j2"
MD = "src/betterproto/plugin/models.py"
PC = "src/betterproto/plugin/compiler.py"
PM = "src/betterproto/plugin/main.py"
TC = "src/betterproto/plugin/typing_compiler.py"
IM = "src/betterproto/compile/importing.py"
NM = "src/betterproto/compile/naming.py"
CS = "src/betterproto/casing.py"
LS = "src/betterproto/lib/std/google/protobuf/__init__.py"
LP = "src/betterproto/lib/pydantic/google/protobuf/__init__.py"

EXPECTED_MISSES = {
}

# (id, property, expected rule prefix, edits)
FIRE: List[Tuple[str, str, str, List[Tuple[str, str, str]]]] = [
    ('enum-collision-fallback-keeps-raw-names', 'C19', 'I4', [(MD, '        # Get entries/allowed values for this Enum\n        self.entries = [\n            self.EnumEntry(\n                name=pythonize_enum_member_name(\n                    entry_proto_value.name, self.proto_obj.name\n                ),\n                value=entry_proto_value.number,\n                comment=get_comment(\n                    proto_file=self.source_file, path=self.path + [2, entry_number]\n                ),\n            )\n            for entry_number, entry_proto_value in enumerate(self.proto_obj.value)\n        ]\n        if len({entry.name for entry in self.entries}) != len(self.entries):\n            # Dropping the prefix made two members collide (``FOO_A`` and ``A``):\n            # keep the proto names, every value needs a member of its own.\n            for entry, entry_proto_value in zip(self.entries, self.proto_obj.value):\n                entry.name = sanitize_name(entry_proto_value.name)\n', '        # Get entries/allowed values for this Enum\n        values = self.proto_obj.value\n        names = [\n            pythonize_enum_member_name(value.name, self.proto_obj.name)\n            for value in values\n        ]\n        if len(set(names)) != len(names):\n            names = [value.name for value in values]\n        self.entries = [\n            self.EnumEntry(\n                name=name,\n                value=value.number,\n                comment=get_comment(\n                    proto_file=self.source_file, path=self.path + [2, entry_number]\n                ),\n            )\n            for entry_number, (name, value) in enumerate(zip(names, values))\n        ]\n')]),
    ("wkt-redirect-skipped-for-subpackages", "C13", "X13", [(IM, "    compiling_google_protobuf = current_package == [\"google\", \"protobuf\"]\n", "    compiling_google_protobuf = package.startswith(\"google.protobuf\")\n")]),
    ("post-init-does-not-mark-fieldless-children", "C18", "Y14", [(I, "                if isinstance(value, Message) and not value._betterproto.meta_by_field_name:\n                    # A field-less message carries nothing but its presence. A\n                    # constructor that stores its arguments without going through\n                    # __setattr__ (pydantic dataclasses) has not marked it yet.\n                    value._serialized_on_wire = True\n\n", "")]),
    ("is-set-merged-branches-default-true", "C14", "V7", [(I, "        if isinstance(value, Message):\n            return value._serialized_on_wire or bool(value)\n        if isinstance(value, (list, dict)):\n            return bool(value)\n", "        if isinstance(value, (Message, list, dict)):\n            return bool(value) or getattr(value, \"_serialized_on_wire\", True)\n")]),
    ("comment-escaped-quote-escaped-again", "C03", "P11", [(MD, "                body = lines[-1][:-1]\n                # a quote that the replacement above already escaped (odd number of\n                # backslashes in front of it) must not get a second backslash\n                if (len(body) - len(body.rstrip(\"\\\\\"))) % 2 == 0:\n                    lines[-1] = body + '\\\\\"'\n", "                lines[-1] = lines[-1][:-1] + '\\\\\"'\n")]),
    ("sanitize-name-keyword-test-lowercased", "C19", "I1", [("src/betterproto/casing.py", "    if keyword.iskeyword(value):\n", "    if keyword.iskeyword(value.lower()):\n")]),
    ("reduce-shortcut-for-falsy", "C07", "V11", [(I, "        return (self.__class__.FromString, (bytes(self),))\n", "        if not self and not self._unknown_fields:\n            return (self.__class__, ())\n        return (self.__class__.FromString, (bytes(self),))\n")]),
    ("reduce-shortcut-for-falsy/C14", "C14", "V11", [(I, "        return (self.__class__.FromString, (bytes(self),))\n", "        if not self and not self._unknown_fields:\n            return (self.__class__, ())\n        return (self.__class__.FromString, (bytes(self),))\n")]),
    ("stub-timeout-folded-into-deadline", "C11", "G11", [(CL, "        self.deadline = deadline\n", "        self.deadline = deadline if timeout is None else Deadline.from_timeout(timeout)\n")]),
    ("timestamp-json-micros-unpadded", "C15", "K3b", [(I, "            return f\"{result}.{int(nanos // 1e3):06d}Z\"\n", "            return f\"{result}.{int(nanos // 1e6):03d}{int(nanos // 1e3) % 1000}Z\"\n")]),
    ("timestamp-json-micros-unpadded/C05", "C05", "K3b", [(I, "            return f\"{result}.{int(nanos // 1e3):06d}Z\"\n", "            return f\"{result}.{int(nanos // 1e6):03d}{int(nanos // 1e3) % 1000}Z\"\n")]),
    ("load-varint-raw-reencoded", "C16", "N7", [(I, "            return result, raw\n", "            return result, encode_varint(result)\n")]),
    ("nested-parse-valueerror-swallowed", "C17", "M8", [(I, "                    value = _Duration().parse(value).to_timedelta()\n", "                    try:\n                        value = _Duration().parse(value).to_timedelta()\n                    except (OverflowError, ValueError):\n                        value = timedelta.max\n")]),
    ("datetime-imports-split-on-brackets", "C18", "Y12", [(MD, "        imports = set()\n        annotation = self.annotation\n        # FIXME: false positives - e.g. `MyDatetimedelta`\n        if \"timedelta\" in annotation:\n            imports.add(\"timedelta\")\n        if \"datetime\" in annotation:\n            imports.add(\"datetime\")\n        return imports\n", "        return {\"timedelta\", \"datetime\"}.intersection(re.split(r\"[\\[\\], |]+\", self.annotation))\n")]),
    ("field-args-wraps-dropped-in-table-form", "C03", "P10", [(MD, "        args = []\n        if self.field_wraps:\n            args.append(f\"wraps={self.field_wraps}\")\n        if self.optional:\n            args.append(f\"optional=True\")\n        return args\n", "        candidates = ((\"optional=True\", self.optional),)\n        return [arg for arg, wanted in candidates if wanted]\n")]),
    ("field-args-optional-from-descriptor-in-table-form", "C18", "Y6", [(MD, "        args = []\n        if self.field_wraps:\n            args.append(f\"wraps={self.field_wraps}\")\n        if self.optional:\n            args.append(f\"optional=True\")\n        return args\n", "        wraps = self.field_wraps\n        candidates = ((f\"wraps={wraps}\", wraps), (\"optional=True\", self.proto_obj.proto3_optional))\n        return [arg for arg, wanted in candidates if wanted]\n")]),
    ("type-reference-memo-request-wide", "C13", "X11", [(MD, "            return get_type_reference(\n                package=self.output_file.package,\n                imports=self.output_file.imports_end,\n                source_type=self.proto_obj.type_name,\n                typing_compiler=self.typing_compiler,\n                pydantic=self.output_file.pydantic_dataclasses,\n            )\n        else:", "            memo = self.request.__dict__.setdefault(\"_refs\", {})\n            if self.proto_obj.type_name not in memo:\n                memo[self.proto_obj.type_name] = get_type_reference(\n                    package=self.output_file.package,\n                    imports=self.output_file.imports_end,\n                    source_type=self.proto_obj.type_name,\n                    typing_compiler=self.typing_compiler,\n                    pydantic=self.output_file.pydantic_dataclasses,\n                )\n            return memo[self.proto_obj.type_name]\n        else:")]),
    ("load-prefix-byte-not-handed-on", "C10", "S3", [(I, "            size, _ = load_varint(stream)\n", "            prefix = stream.read(1)\n            if not prefix:\n                raise EOFError(\"no further message\")\n            if prefix[0] & 0x80:\n                size, _ = load_varint(stream)\n            else:\n                size = prefix[0]\n")]),
    ("submessage-parse-skipped-for-fieldless", "C08", "T1", [(I, "                    value = cls().parse(value)\n", "                    data, value = value, cls()\n                    if value._betterproto.meta_by_field_name:\n                        value.parse(data)\n")]),
    ("string-decode-lenient", "C17", "M7", [(I, "                value = str(value, \"utf-8\")\n", "                value = str(value, \"utf-8\", \"replace\")\n")]),
    ("type-hints-localns-is-globalns", "C13", "X7", [(I, "        return get_type_hints(cls, module.__dict__, {})", "        return get_type_hints(cls, module.__dict__, module.__dict__)")]),
    ("enum-members-unwrapped", "C20", "H10", [("src/betterproto/enum.py", "            return MappingProxyType(cls._member_map_)", "            return cls._member_map_")]),
    ("size-varint-shift-loop-0x80", "C09", "L4", [(I, "    elif value < 0:\n        return 10\n    elif value == 0:\n        return 1\n    else:\n        return math.ceil(value.bit_length() / 7)\n", "    elif value < 0:\n        return 10\n    size = 1\n    while value > 0x80:\n        value >>= 7\n        size += 1\n    return size\n")]),
    ("size-varint-shift-loop-by-8", "C09", "L4", [(I, "    elif value < 0:\n        return 10\n    elif value == 0:\n        return 1\n    else:\n        return math.ceil(value.bit_length() / 7)\n", "    elif value < 0:\n        return 10\n    size = 1\n    while value > 0x7F:\n        value >>= 8\n        size += 1\n    return size\n")]),
    ("dump-float-nan-by-table", "C05", "K1", [(I, "    if isinstance(value, float) and math.isnan(value):\n        return NAN\n    return value\n", "    return {math.nan: NAN}.get(value, value)\n")]),
    ("parse-float-neg-infinity-sign-lost", "C05", "K1", [(I, "    if value == NEG_INFINITY:\n        return -float(\"inf\")\n", "    if value == NEG_INFINITY:\n        return float(\"inf\")\n")]),
    ("default-cached-per-class", "C06", "D8", [(I, "            return self._betterproto.default_gen[field_name]()\n", "            return self._betterproto.default_gen.setdefault(\"=\" + field_name, self._betterproto.default_gen[field_name]())\n")]),
    ("load-defers-assignments-in-dict", "C07", "O6", [(I, "            else:\n                setattr(self, field_name, value)\n\n        if size is not None and read < size:", "            else:\n                pending[field_name] = value\n\n        for field_name, value in pending.items():\n            setattr(self, field_name, value)\n\n        if size is not None and read < size:"), (I, "        read = 0\n        fields = load_fields(stream)\n", "        read = 0\n        pending = {}\n        fields = load_fields(stream)\n")]),
    ("load-stops-at-first-unknown", "C08", "U9", [(I, "            if not field_name:\n                self._unknown_fields += parsed.raw\n                continue\n", "            if not field_name:\n                self._unknown_fields += parsed.raw\n                if parsed.number > 1000:\n                    break\n                continue\n")]),
    ("builtins-import-overwritten", "C03", "P14", [(MD, "        output_file.builtins_import = output_file.builtins_import or self.use_builtins\n", "        output_file.builtins_import = bool(self.use_builtins)\n")]),
    ("repeated-element-empty-not-forced", "C02", "D2", [(I, "                                wraps=meta.wraps or \"\",\n                                serialize_empty=True,\n                            )\n                            # if it's an empty message it still needs to be represented\n                            # as an item in the repeated list\n                            or b\"\\n\\x00\"\n", "                                wraps=meta.wraps or \"\",\n                            )\n                            # if it's an empty message it still needs to be represented\n                            # as an item in the repeated list\n                            or b\"\\n\\x00\"\n")]),
    ("decode-varint-scan-no-eof", "C17", "N", [(I, "    with BytesIO(buffer) as stream:\n        stream.seek(pos)\n        value, raw = load_varint(stream)\n    return value, pos + len(raw)\n", "    result = 0\n    shift = 0\n    while pos < len(buffer):\n        if shift >= 64:\n            raise ValueError(\"Too many bytes when decoding varint.\")\n        b_int = buffer[pos]\n        pos += 1\n        result |= (b_int & 0x7F) << shift\n        if not (b_int & 0x80):\n            break\n        shift += 7\n    return result, pos\n")]),
    ("decode-varint-scan-9-bytes", "C16", "N", [(I, "    with BytesIO(buffer) as stream:\n        stream.seek(pos)\n        value, raw = load_varint(stream)\n    return value, pos + len(raw)\n", "    result = 0\n    for shift in range(0, 63, 7):\n        if pos >= len(buffer):\n            raise EOFError(\"Buffer ended unexpectedly while attempting to decode varint.\")\n        b_int = buffer[pos]\n        pos += 1\n        result |= (b_int & 0x7F) << shift\n        if not (b_int & 0x80):\n            return result, pos\n    raise ValueError(\"Too many bytes when decoding varint.\")\n")]),
    ("key-single-byte-up-to-16", "C01", "T7", [(I, "        key = encode_varint(field_number << 3)\n", "        key = (field_number << 3).to_bytes(1, \"little\") if field_number <= 16 else encode_varint(field_number << 3)\n")]),
    ("key-single-byte-up-to-16/C02", "C02", "T7", [(I, "        key = encode_varint(field_number << 3)\n", "        key = (field_number << 3).to_bytes(1, \"little\") if field_number <= 16 else encode_varint(field_number << 3)\n")]),
    ("wire-class-drop-sfixed32", "C02", "W1", [(I, "WIRE_FIXED_32_TYPES = [TYPE_FLOAT, TYPE_FIXED32, TYPE_SFIXED32]", "WIRE_FIXED_32_TYPES = [TYPE_FLOAT, TYPE_FIXED32]")]),
    ("key-wire-5-to-1", "C02", "W1", [(I, "        key = encode_varint((field_number << 3) | 5)", "        key = encode_varint((field_number << 3) | 1)")]),
    ("key-wire-5-to-1/C01", "C01", "T1", [(I, "        key = encode_varint((field_number << 3) | 5)", "        key = encode_varint((field_number << 3) | 1)")]),
    ("pack-fmt-signedness", "C02", "W1", [(I, '        TYPE_FIXED32: "<I",', '        TYPE_FIXED32: "<i",')]),
    ("packed-types-drop-bool", "C01", "T3", [(I, "PACKED_TYPES = [\n    TYPE_ENUM,\n    TYPE_BOOL,", "PACKED_TYPES = [\n    TYPE_ENUM,")]),
    ("entry-renumbered", "C01", "T4", [(I, '("value", vt, dataclass_field(2, meta.map_types[1])),', '("value", vt, dataclass_field(3, meta.map_types[1])),')]),
    ("nested-presence-dropped", "C01", "T5", [(I, "                    value = cls().parse(value)\n                    value._serialized_on_wire = True", "                    value = cls().parse(value)")]),
    ("zigzag-decoder-drop-sint64", "C01", "T1", [(I, "            elif meta.proto_type in (TYPE_SINT32, TYPE_SINT64):\n                # Undo zig-zag encoding", "            elif meta.proto_type in (TYPE_SINT32,):\n                # Undo zig-zag encoding")]),
    ("len-one-sided-guard", "C09", "L1", [(I, "            selected_in_group = bool(meta.group) or meta.optional\n\n            # Empty messages can still be sent on the wire if they were\n            # set (or received empty).\n            serialize_empty = isinstance(value, Message) and value._serialized_on_wire\n\n            include_default_value_for_oneof = self._include_default_value_for_oneof(\n                field_name=field_name, meta=meta\n            )\n\n            if value == self._get_field_default(field_name) and not (\n                selected_in_group or serialize_empty or include_default_value_for_oneof\n            ):\n                # Default (zero) values are not serialized. Two exceptions are\n                # if this is the selected oneof item or if we know we have to\n                # serialize an empty message (i.e. zero value was explicitly\n                # set by the user).\n                continue\n\n            if isinstance(value, list):\n                if meta.proto_type in PACKED_TYPES:\n                    # Packed lists look like a length-delimited field. First,\n                    # preprocess/encode each value into a buffer and then\n                    # treat it like a field of raw bytes.\n                    buf = bytearray()\n                    for item in value:\n                        buf += _preprocess_single(meta.proto_type, \"\", item)\n                    size +=",
                                           "            selected_in_group = bool(meta.group)\n\n            # Empty messages can still be sent on the wire if they were\n            # set (or received empty).\n            serialize_empty = isinstance(value, Message) and value._serialized_on_wire\n\n            include_default_value_for_oneof = self._include_default_value_for_oneof(\n                field_name=field_name, meta=meta\n            )\n\n            if value == self._get_field_default(field_name) and not (\n                selected_in_group or serialize_empty or include_default_value_for_oneof\n            ):\n                # Default (zero) values are not serialized. Two exceptions are\n                # if this is the selected oneof item or if we know we have to\n                # serialize an empty message (i.e. zero value was explicitly\n                # set by the user).\n                continue\n\n            if isinstance(value, list):\n                if meta.proto_type in PACKED_TYPES:\n                    # Packed lists look like a length-delimited field. First,\n                    # preprocess/encode each value into a buffer and then\n                    # treat it like a field of raw bytes.\n                    buf = bytearray()\n                    for item in value:\n                        buf += _preprocess_single(meta.proto_type, \"\", item)\n                    size +=")]),
    ("len-single-missing-length-prefix", "C09", "L2", [(I, "            size += size_varint((field_number << 3) | 2) + size_varint(size)", "            size += size_varint((field_number << 3) | 2)")]),
    ("size-varint-threshold", "C09", "L4", [(I, "def size_varint(value: int) -> int:\n    \"\"\"Calculates the size in bytes that a value would take as a varint.\"\"\"\n    if value < -(1 << 63):", "def size_varint(value: int) -> int:\n    \"\"\"Calculates the size in bytes that a value would take as a varint.\"\"\"\n    if value < -(1 << 62):")]),
    ("unknown-fields-not-counted", "C09", "L1", [(I, "        size += len(self._unknown_fields)\n        return size", "        return size")]),
    ("raw-drops-length-prefix", "C08", "U1", [(I, "            decoded = _read_exact(stream, length)\n            raw += r\n            raw += decoded", "            decoded = _read_exact(stream, length)\n            raw += decoded")]),
    ("unknown-fields-not-emitted", "C08", "U3", [(I, "        stream.write(self._unknown_fields)\n", "")]),
    ("varint-bound-71", "C16", "N2", [(I, "        if shift >= 64:\n            raise ValueError(\"Too many bytes when decoding varint.\")", "        if shift >= 71:\n            raise ValueError(\"Too many bytes when decoding varint.\")")]),
    ("varint-eof-unchecked", "C16", "N3", [(I, "        if not b:\n            raise EOFError(\"Stream ended unexpectedly while attempting to load varint.\")\n", "")]),
    ("payload-read-unchecked", "C17", "M3", [(I, "            decoded = _read_exact(stream, 8)", "            decoded = stream.read(8)")]),
    ("invalid-wire-type-accepted", "C17", "M1", [(I, "            decoded = _read_exact(stream, 4)\n            raw += decoded\n        else:\n            raise ValueError(f\"Unsupported wire type {wire_type} in field {number}.\")", "            decoded = _read_exact(stream, 4)\n            raw += decoded")]),
    ("map-value-json-untransformed", "C04", "J", [(I, "                        output_map[k] = _scalar_to_json(value_type, v)", "                        output_map[k] = v")]),
    ("map-value-json-untransformed-c05", "C05", "J1", [(I, "                        output_map[k] = _scalar_to_json(value_type, v)", "                        output_map[k] = v")]),
    ("map-key-not-decoded", "C04", "J6", [(I, "                value = {_map_key_from_json(key_type, k): v for k, v in value.items()}\n", "")]),
    ("map-key-bool-as-int", "C05", "J6", [(I, "        return key == \"true\" if isinstance(key, str) else key\n", "        return bool(key)\n")]),
    ("wrapper-json-not-decoded", "C04", "J2", [(I, "                        else _scalar_from_json(meta.wraps, value)", "                        else value")]),
    ("scalar-to-json-int64-number", "C05", "J1", [(I, "    if proto_type in INT_64_TYPES:\n        return str(value)\n", "")]),
    ("duration-text-through-float", "C15", "Q4", [(I, "        sign = -1 if text.startswith(\"-\") else 1\n        seconds, _, fraction = text.lstrip(\"+-\").partition(\".\")\n        nanos = int(fraction[:9].ljust(9, \"0\")) if fraction else 0\n        return sign * timedelta(seconds=int(seconds or 0), microseconds=nanos / 1e3)", "        return timedelta(seconds=float(text))")]),
    ("optional-message-json-presence-dropped", "C04", "J5", [(I, "                    value._serialized_on_wire\n                    or bool(value)\n                    or include_default_values\n                    or meta.optional\n                    or self._include_default_value_for_oneof(\n                        field_name=field_name, meta=meta\n                    )\n                ):\n                    output[cased_name] = value.to_dict(casing, include_default_values)", "                    value._serialized_on_wire\n                    or bool(value)\n                    or include_default_values\n                    or self._include_default_value_for_oneof(\n                        field_name=field_name, meta=meta\n                    )\n                ):\n                    output[cased_name] = value.to_dict(casing, include_default_values)")]),
    ("key-table-camel-only", "C19", "I3", [(I, "            for casing in (Casing.CAMEL, Casing.SNAKE):\n                by_key.setdefault", "            for casing in (Casing.CAMEL,):\n                by_key.setdefault")]),
    ("key-table-not-consulted", "C04", "I3", [(I, "            field_name = cls._betterproto.field_name_by_key.get(\n                key\n            ) or safe_snake_case(key)\n", "            field_name = safe_snake_case(key)\n")]),
    ("key-table-without-rstrip", "C19", "I3", [(I, "                by_key.setdefault(casing(field_name).rstrip(\"_\"), field_name)", "                by_key.setdefault(casing(field_name), field_name)")]),
    ("map-wrapper-value-unwrapped", "C03", "P10", [(MD, "                        unwrap=False,\n", "                        unwrap=True,\n")]),
    ("enum-prefix-find-anywhere", "C03", "I2", [(NM, "    if name.startswith(prefix) and name[len(prefix) :].strip(\"_\"):\n        name = name[len(prefix) :].strip(\"_\")", "    find = name.find(prefix)\n    if find != -1:\n        name = name[find + len(prefix) :].strip(\"_\")")]),
    ("enum-distinctness-fallback-dropped", "C19", "I2", [(MD, "        if len({entry.name for entry in self.entries}) != len(self.entries):", "        if False:")]),
    ("builtins-table-filled-at-render", "C18", "Y7", [(MD, "        self.builtins_types = {\n            pythonize_field_name(f.name) for f in getattr(self.proto_obj, \"field\", [])\n        } & set(dir(builtins))\n", ""), (MD, "        return f\"{name}{annotations} = {betterproto_field_type}\"", "        if self.py_name in dir(builtins):\n            self.parent.builtins_types.add(self.py_name)\n        return f\"{name}{annotations} = {betterproto_field_type}\"")]),
    ("map-annotation-ignores-shadowing", "C03", "Y7", [(MD, "            f\"builtins.{py_type}\" if py_type in shadowed else py_type\n", "            py_type\n")]),
    ("pydantic-enum-nonnegative", "C18", "Y8", [("src/betterproto/templates/template.py.j2", "        return core_schema.int_schema()", "        return core_schema.int_schema(ge=0)")]),
    ("comment-backslash-not-escaped", "C03", "P11", [(MD, "                line.replace(\"\\\\\", \"\\\\\\\\\").replace('\"\"\"', '\\\\\"\\\\\"\\\\\"') for line in lines", "                line.replace('\"\"\"', '\\\\\"\\\\\"\\\\\"') for line in lines")]),
    ("getattribute-stores-every-default", "C14", "V7", [(I, "            if isinstance(value, (Message, list, dict)):\n                # Mutable defaults are kept so that they can be filled in place;\n                # everything else stays unset (a read must not look like a set).\n                super().__setattr__(name, value)", "            super().__setattr__(name, value)")]),
    ("is-set-message-by-placeholder-only", "C06", "V7", [(I, "        if isinstance(value, Message):\n            return value._serialized_on_wire or bool(value)\n", "")]),
    ("to-dict-drops-inplace-filled-child", "C04", "J5", [(I, "                    value._serialized_on_wire\n                    or bool(value)\n                    or include_default_values\n                    or meta.optional\n                    or self._include_default_value_for_oneof(\n                        field_name=field_name, meta=meta\n                    )\n                ):\n                    output[cased_name] = value.to_dict(casing, include_default_values)", "                    value._serialized_on_wire\n                    or include_default_values\n                    or meta.optional\n                    or self._include_default_value_for_oneof(\n                        field_name=field_name, meta=meta\n                    )\n                ):\n                    output[cased_name] = value.to_dict(casing, include_default_values)")]),
    ("mismatch-check-dropped", "C17", "M4", [(I, "            if not _wire_type_matches(parsed.wire_type, meta.proto_type, repeated):", "            if False:")]),
    ("packed-into-singular", "C17", "M4", [(I, "            repeated = proto_meta.default_gen[field_name] is list\n", "            repeated = True\n")]),
    ("empty-map-entry-dropped", "C01", "T4", [(I, "                            sk + sv,\n                            # An entry with default key and value is still an entry.\n                            serialize_empty=True,", "                            sk + sv,")]),
    ("empty-map-entry-not-counted", "C09", "L1", [(I, "                        meta.number, meta.proto_type, sk + sv, serialize_empty=True\n", "                        meta.number, meta.proto_type, sk + sv\n")]),
    ("delimited-advance-at-size", "C10", "S1", [(I, "        while size is None or read < size:\n            parsed = next(fields, None)", "        while size is None or read <= size:\n            parsed = next(fields, None)")]),
    ("prefix-not-len", "C10", "L5", [(I, "            dump_varint(len(self), stream)", "            dump_varint(len(self._unknown_fields), stream)")]),
    ("optional-default-skipped", "C06", "D2", [(I, "            selected_in_group = bool(meta.group) or meta.optional\n\n            # Empty messages can still be sent on the wire if they were\n            # set (or received empty).\n            serialize_empty = isinstance(value, Message) and value._serialized_on_wire\n\n            include_default_value_for_oneof = self._include_default_value_for_oneof(\n                field_name=field_name, meta=meta\n            )\n\n            if value == self._get_field_default(field_name) and not (\n                selected_in_group or serialize_empty or include_default_value_for_oneof\n            ):\n                # Default (zero) values are not serialized. Two exceptions are\n                # if this is the selected oneof item or if we know we have to\n                # serialize an empty message (i.e. zero value was explicitly\n                # set by the user).\n                continue\n\n            if isinstance(value, list):\n                if meta.proto_type in PACKED_TYPES:\n                    # Packed lists look like a length-delimited field. First,\n                    # preprocess/encode each value into a buffer and then\n                    # treat it like a field of raw bytes.\n                    buf = bytearray()\n                    for item in value:\n                        buf += _preprocess_single(meta.proto_type, \"\", item)\n                    stream.write(",
                                            "            selected_in_group = bool(meta.group)\n\n            # Empty messages can still be sent on the wire if they were\n            # set (or received empty).\n            serialize_empty = isinstance(value, Message) and value._serialized_on_wire\n\n            include_default_value_for_oneof = self._include_default_value_for_oneof(\n                field_name=field_name, meta=meta\n            )\n\n            if value == self._get_field_default(field_name) and not (\n                selected_in_group or serialize_empty or include_default_value_for_oneof\n            ):\n                # Default (zero) values are not serialized. Two exceptions are\n                # if this is the selected oneof item or if we know we have to\n                # serialize an empty message (i.e. zero value was explicitly\n                # set by the user).\n                continue\n\n            if isinstance(value, list):\n                if meta.proto_type in PACKED_TYPES:\n                    # Packed lists look like a length-delimited field. First,\n                    # preprocess/encode each value into a buffer and then\n                    # treat it like a field of raw bytes.\n                    buf = bytearray()\n                    for item in value:\n                        buf += _preprocess_single(meta.proto_type, \"\", item)\n                    stream.write(")]),
    ("is-set-ignores-placeholder", "C06", "D1", [(I, "        if value is PLACEHOLDER:\n            # never assigned, or reset because another member of its oneof was set\n            return False\n", "")]),
    ("instance-from-dict-no-presence", "C06", "D4", [(I, "        self._serialized_on_wire = True\n        for field, value in self._from_dict_init(value).items():", "        for field, value in self._from_dict_init(value).items():")]),
    ("sibling-reset-dropped", "C07", "O2", [(I, "                    else:\n                        super().__setattr__(field.name, PLACEHOLDER)\n", "")]),
    ("selection-not-recorded", "C07", "O2", [(I, "                    if field.name == attr:\n                        self._group_current[group] = field.name\n                    else:", "                    if field.name == attr:\n                        pass\n                    else:")]),
    ("to-dict-drops-selected-default", "C07", "O4", [(I, "            elif (\n                value != self._get_field_default(field_name)\n                or include_default_values\n                or self._include_default_value_for_oneof(\n                    field_name=field_name, meta=meta\n                )\n            ):\n                if meta.proto_type in INT_64_TYPES:", "            elif (\n                value != self._get_field_default(field_name)\n                or include_default_values\n            ):\n                if meta.proto_type in INT_64_TYPES:")]),
    ("rogue-group-writer", "C07", "O1", [(I, "def serialized_on_wire(message: Message) -> bool:", "def _select(message: Message, group: str, name: str) -> None:\n    message._group_current[group] = name\n\n\ndef serialized_on_wire(message: Message) -> bool:")]),
    ("int64-types-drop-sfixed64", "C05", "K1", [(I, "INT_64_TYPES = [TYPE_INT64, TYPE_UINT64, TYPE_SINT64, TYPE_FIXED64, TYPE_SFIXED64]", "INT_64_TYPES = [TYPE_INT64, TYPE_UINT64, TYPE_SINT64, TYPE_FIXED64]")]),
    ("infinity-spelling", "C05", "K1", [(I, 'INFINITY = "Infinity"', 'INFINITY = "Inf"')]),
    ("default-casing-snake", "C05", "K2", [(I, "    def to_dict(\n        self, casing: Casing = Casing.CAMEL, include_default_values: bool = False", "    def to_dict(\n        self, casing: Casing = Casing.SNAKE, include_default_values: bool = False")]),
    ("urlsafe-base64", "C05", "K1", [(I, "                        output[cased_name] = b64encode(value).decode(\"utf8\")", "                        output[cased_name] = urlsafe_b64encode(value).decode(\"utf8\")")]),
    ("bytes-decode-not-inverse", "C04", "J2", [(I, "                        else b64decode(value)\n", "                        else value.encode()\n")]),
    ("int64-repeated-not-string", "C04", "J1", [(I, "                        output[cased_name] = [str(n) for n in value]", "                        output[cased_name] = list(value)")]),
    ("receive-decrement-lost", "C12", "A1", [(CH, "            result = await self._queue.get()\n        finally:\n            self._waiting_receivers -= 1\n        # Only an item that was actually taken from the queue is marked as done\n        # (not when the wait was cancelled or timed out).\n        self._queue.task_done()\n        if result is self.__flush:\n            return None", "            result = await self._queue.get()\n        finally:\n            pass\n        self._waiting_receivers -= 1\n        # Only an item that was actually taken from the queue is marked as done\n        # (not when the wait was cancelled or timed out).\n        self._queue.task_done()\n        if result is self.__flush:\n            return None")]),
    ("task-done-back-in-finally", "C12", "A2", [(CH, "        finally:\n            self._waiting_receivers -= 1\n        # Only an item that was actually taken from the queue is marked as done\n        # (not when the wait was cancelled or timed out).\n        self._queue.task_done()\n        if result is self.__flush:\n            return None", "        finally:\n            self._waiting_receivers -= 1\n            self._queue.task_done()\n        if result is self.__flush:\n            return None")]),
    ("send-gate-removed", "C12", "A3", [(CH, "        if self._closed:\n            raise ChannelClosed(\"Cannot send through a closed channel\")\n        await self._queue.put(item)", "        await self._queue.put(item)")]),
    ("sentinel-returned", "C12", "A5", [(CH, "        if result is self.__flush:\n            return None\n        return result", "        return result")]),
    ("mapping-cardinality-swapped", "C11", "G1", [(TP, "            {% elif not method.client_streaming and method.server_streaming %}\n            grpclib.const.Cardinality.UNARY_STREAM,\n            {% elif method.client_streaming and not method.server_streaming %}\n            grpclib.const.Cardinality.STREAM_UNARY,", "            {% elif not method.client_streaming and method.server_streaming %}\n            grpclib.const.Cardinality.STREAM_UNARY,\n            {% elif method.client_streaming and not method.server_streaming %}\n            grpclib.const.Cardinality.UNARY_STREAM,")]),
    ("mapping-types-swapped", "C11", "G3", [(TP, "            {{ method.py_input_message_type }},\n            {{ method.py_output_message_type }},\n        ),", "            {{ method.py_output_message_type }},\n            {{ method.py_input_message_type }},\n        ),")]),
    ("helper-cardinality-swapped", "C11", "G1", [(CL, "            grpclib.const.Cardinality.UNARY_STREAM,", "            grpclib.const.Cardinality.STREAM_UNARY,")]),
    ("kwarg-precedence-inverted", "C11", "G5", [(CL, '            "timeout": self.timeout if timeout is None else timeout,', '            "timeout": timeout if timeout is None else self.timeout,')]),
    ("send-messages-no-end", "C11", "G6", [(CL, "                await stream.send_message(message)\n        await stream.end()", "                await stream.send_message(message)")]),
    ("template-uses-missing-property", "C03", "P1", [(TP, "class {{ message.py_name }}(betterproto.Message):", "class {{ message.python_name }}(betterproto.Message):")]),
    ("lib-field-renumbered", "C03", "P3", [(LS, "    package: str = betterproto.string_field(2)", "    package: str = betterproto.string_field(12)")]),
    ("render-order-swapped", "C03", "P5", [(PC, "    code = body_template.render(output_file=output_file)\n    code = header_template.render(output_file=output_file) + code", "    code = header_template.render(output_file=output_file)\n    code = code + body_template.render(output_file=output_file)")]),
    ("monkey-patch-after-parse", "C03", "P5", [(PM, "    monkey_patch_oneof_index()\n\n    # Parse request\n    request = CodeGeneratorRequest()\n    request.parse(data)", "    # Parse request\n    request = CodeGeneratorRequest()\n    request.parse(data)\n    monkey_patch_oneof_index()")]),
    ("sint32-field-wrong-type", "C03", "P2", [(I, "    return dataclass_field(number, TYPE_SINT32, group=group, optional=optional)", "    return dataclass_field(number, TYPE_INT32, group=group, optional=optional)")]),
    ("descriptor-type-unclassified", "C03", "P2", [(MD, "    FieldDescriptorProtoType.TYPE_SFIXED32,  # 15\n    FieldDescriptorProtoType.TYPE_SFIXED64,  # 16\n    FieldDescriptorProtoType.TYPE_SINT32,  # 17\n    FieldDescriptorProtoType.TYPE_SINT64,  # 18\n)\nPROTO_BOOL_TYPES", "    FieldDescriptorProtoType.TYPE_SFIXED32,  # 15\n    FieldDescriptorProtoType.TYPE_SFIXED64,  # 16\n    FieldDescriptorProtoType.TYPE_SINT32,  # 17\n)\nPROTO_BOOL_TYPES")]),
    ("type-reference-import-lost", "C13", "X1", [(MD, "                imports=self.output_file.imports_end,\n                source_type=self.proto_obj.type_name,", "                imports=set(),\n                source_type=self.proto_obj.type_name,")]),
    ("alias-mismatch", "C13", "X2", [(IM, "        imports.add(f\"from .{string_from} import {string_import} as {string_alias}\")\n        return f'\"{string_alias}.{py_type}\"'\n    else:", "        imports.add(f\"from .{string_from} import {string_import} as {string_alias}\")\n        return f'\"{string_import}.{py_type}\"'\n    else:")]),
    ("unquoted-reference", "C13", "X2", [(IM, "    return f'\"{py_type}\"'", "    return f'{py_type}'")]),
    ("to-pydict-in-place-again", "C14", "V1", [(I, "                        output_map[k] = value[k].to_pydict(\n                            casing, include_default_values\n                        )", "                        value[k] = value[k].to_pydict(\n                            casing, include_default_values\n                        )")]),
    ("deepcopy-shallow", "C14", "V3", [(I, "                kwargs[name] = deepcopy(value)", "                kwargs[name] = value")]),
    ("copy-drops-unknown", "C14", "V2", [(I, "        new.__dict__[\"_unknown_fields\"] = self._unknown_fields\n        new.__dict__[\"_serialized_on_wire\"] = self._serialized_on_wire\n        return new\n\n    def __copy__", "        new.__dict__[\"_serialized_on_wire\"] = self._serialized_on_wire\n        return new\n\n    def __copy__")]),
    ("duration-mixed-convention", "C15", "Q1", [(I, "        seconds, us = divmod(abs(total_us), 10**6)\n        if total_us < 0:\n            seconds, us = -seconds, -us\n        return cls(seconds, us * 1000)", "        seconds = int(total_us / 10**6)\n        us = total_us % 10**6\n        return cls(seconds, us * 1000)")]),
    ("timestamp-trunc", "C15", "Q", [(I, "        seconds, us = divmod(offset_us, 10**6)\n        return cls(seconds, us * 1000)", "        seconds = int(offset_us / 10**6)\n        us = offset_us - seconds * 10**6\n        return cls(seconds, us * 1000)")]),
    ("class-name-unguarded", "C19", "I1", [(NM, "    return casing.sanitize_name(casing.pascal_case(name))", "    return casing.pascal_case(name)")]),
    ("field-name-unguarded", "C19", "I1", [(NM, "def pythonize_field_name(name: str) -> str:\n    return casing.safe_snake_case(name)", "def pythonize_field_name(name: str) -> str:\n    return casing.snake_case(name)")]),
    ("enum-setattr-silent", "C20", "H1", [(EN, "    def __setattr__(cls, name: str, value: Any) -> Never:\n        raise AttributeError(f\"{cls.__name__}: cannot reassign Enum members.\")", "    def __setattr__(cls, name: str, value: Any) -> None:\n        return None")]),
    ("enum-deepcopy-new-object", "C20", "H2", [(EN, "    def __deepcopy__(self, memo: Any) -> Self:\n        return self", "    def __deepcopy__(self, memo: Any) -> Self:\n        return self.__class__.__new__(self.__class__, name=self.name, value=self.value)")]),
    ("enum-decode-closed", "C20", "H3", [(I, "                value = self._betterproto.cls_by_field[field_name].try_value(value)", "                value = self._betterproto.cls_by_field[field_name](value)")]),
    ("enum-pickle-args", "C20", "H4", [(EN, '        return (), {"name": self.name, "value": self.value}', '        return (), {"value": self.value}')]),
    ("typing-direct-wrong-import", "C18", "Y3", [(TC, "    def optional(self, type: str) -> str:\n        self._imports[\"typing\"].add(\"Optional\")\n        return f\"Optional[{type}]\"", "    def optional(self, type: str) -> str:\n        self._imports[\"typing\"].add(\"List\")\n        return f\"Optional[{type}]\"")]),
    ("pydantic-lib-renumbered", "C18", "Y4", [(LP, "    package: str = betterproto.string_field(2)", "    package: str = betterproto.string_field(22)") ]),
    ("double-quotes-again", "C18", "Y1", [(TP, "output_file.typing_compiler.async_iterator(method.py_output_message_type ).strip('\"') }}", "output_file.typing_compiler.async_iterator(method.py_output_message_type ) }}")]),
]

ALL = [f"C{n:02d}" for n in range(1, 21)]
CODEC = ["C01", "C02", "C06", "C08", "C09", "C10", "C16", "C17", "C20"]

# (id, properties that must stay at exit 0, edits)  -- behaviour-preserving refactors
SILENT: List[Tuple[str, List[str], List[Any]]] = [
    ('enum-names-computed-first-fallback-sanitised', ['C19', 'C03'], [(MD, '        # Get entries/allowed values for this Enum\n        self.entries = [\n            self.EnumEntry(\n                name=pythonize_enum_member_name(\n                    entry_proto_value.name, self.proto_obj.name\n                ),\n                value=entry_proto_value.number,\n                comment=get_comment(\n                    proto_file=self.source_file, path=self.path + [2, entry_number]\n                ),\n            )\n            for entry_number, entry_proto_value in enumerate(self.proto_obj.value)\n        ]\n        if len({entry.name for entry in self.entries}) != len(self.entries):\n            # Dropping the prefix made two members collide (``FOO_A`` and ``A``):\n            # keep the proto names, every value needs a member of its own.\n            for entry, entry_proto_value in zip(self.entries, self.proto_obj.value):\n                entry.name = sanitize_name(entry_proto_value.name)\n', '        # Get entries/allowed values for this Enum\n        values = self.proto_obj.value\n        names = [\n            pythonize_enum_member_name(value.name, self.proto_obj.name)\n            for value in values\n        ]\n        if len(set(names)) != len(names):\n            names = [sanitize_name(value.name) for value in values]\n        self.entries = [\n            self.EnumEntry(\n                name=name,\n                value=value.number,\n                comment=get_comment(\n                    proto_file=self.source_file, path=self.path + [2, entry_number]\n                ),\n            )\n            for entry_number, (name, value) in enumerate(zip(names, values))\n        ]\n')]),
    ("wkt-redirect-test-on-package-text", ["C13", "C03"], [(IM, "    compiling_google_protobuf = current_package == [\"google\", \"protobuf\"]\n", "    compiling_google_protobuf = package == \"google.protobuf\"\n")]),
    # the two halves of seeded C03-14, each harmless on its own: the value helper of a map field still records the import /
    # the map field's own annotation still names the type
    ("datetime-imports-from-py-type-only", ["C03", "C18"], [(MD, "        imports = set()\n        annotation = self.annotation\n        # FIXME: false positives - e.g. `MyDatetimedelta`\n        if \"timedelta\" in annotation:\n            imports.add(\"timedelta\")\n        if \"datetime\" in annotation:\n            imports.add(\"datetime\")\n        return imports\n", "        return {self.py_type} & {\"timedelta\", \"datetime\"}\n")]),
    ("map-helpers-record-nothing", ["C03", "C18"], [(MD, "        # Add field to message\n        self.parent.fields.append(self)\n        # Check for new imports\n        self.add_imports_to(self.output_file)\n", "        if not isinstance(self.parent, FieldCompiler):\n            # Add field to message\n            self.parent.fields.append(self)\n            # Check for new imports\n            self.add_imports_to(self.output_file)\n")]),
    ("load-varint-first-as-optional-int", ["C17", "C16", "C08", "C01", "C02", "C10"], [(I, "def load_varint(stream: \"SupportsRead[bytes]\", first: bytes = b\"\") -> Tuple[int, bytes]:", "def load_varint(stream: \"SupportsRead[bytes]\", first: Optional[int] = None) -> Tuple[int, bytes]:"), (I, "    raw = b\"\"\n    for shift in count(0, 7):", "    raw = bytearray()\n    for shift in count(0, 7):"), (I, "        b = first or stream.read(1)\n        first = b\"\"\n        if not b:\n            raise EOFError(\"Stream ended unexpectedly while attempting to load varint.\")\n        raw += b\n        b_int = int.from_bytes(b, byteorder=\"little\")\n", "        if first is not None:\n            b_int, first = first, None\n        else:\n            b = stream.read(1)\n            if not b:\n                raise EOFError(\"Stream ended unexpectedly while attempting to load varint.\")\n            b_int = b[0]\n        raw.append(b_int)\n"), (I, "            return result, raw\n", "            return result, bytes(raw)\n"), (I, "        num_wire, raw = load_varint(stream, first)\n", "        num_wire, raw = load_varint(stream, first[0])\n")]),
    ("lowercase-first-by-slices", ["C19", "C05"], [("src/betterproto/casing.py", "    return value[0:1].lower() + value[1:]", "    head, tail = value[:1], value[1:]\n    return head.lower() + tail")]),
    ("from-datetime-converts-to-utc-first", ["C15", "C02", "C01"], [(I, "        offset = dt - DATETIME_ZERO\n", "        offset = dt.astimezone(timezone.utc) - DATETIME_ZERO\n")]),
    ("is-set-merged-branches-default-false", ["C14", "C06"], [(I, "        if isinstance(value, Message):\n            return value._serialized_on_wire or bool(value)\n        if isinstance(value, (list, dict)):\n            return bool(value)\n", "        if isinstance(value, (Message, list, dict)):\n            return bool(value) or getattr(value, \"_serialized_on_wire\", False)\n")]),
    ("sanitize-name-kwlist-membership", ["C19", "C03"], [("src/betterproto/casing.py", "    if keyword.iskeyword(value):\n        return f\"{value}_\"\n    if not value.isidentifier():\n        return f\"_{value}\"\n    return value\n", "    if not value.isidentifier():\n        return \"_\" + value\n    return value + \"_\" if value in keyword.kwlist else value\n")]),
    ("load-frame-bound-in-own-local", ["C10", "C08", "C17", "C01"], [(I, "        if size == SIZE_DELIMITED:\n            size, _ = load_varint(stream)\n", "        expected = size\n        if size == SIZE_DELIMITED:\n            expected, _ = load_varint(stream)\n"), (I, "        while size is None or read < size:", "        while expected is None or read < expected:"), (I, "            if size is not None and read > size:\n                raise ValueError(\n                    f\"Expected message of size {size}, can only read \"", "            if expected is not None and read > expected:\n                raise ValueError(\n                    f\"Expected message of size {expected}, can only read \""), (I, "        if size is not None and read < size:\n            raise ValueError(\n                f\"Expected message of size {size}, but was only able to \"", "        if expected is not None and read < expected:\n            raise ValueError(\n                f\"Expected message of size {expected}, but was only able to \"")]),
    ("from-timedelta-abs-of-delta-both-negated", ["C15", "C01", "C02"], [(I, "        total_us = delta // _1_microsecond\n        seconds, us = divmod(abs(total_us), 10**6)\n        if total_us < 0:\n            seconds, us = -seconds, -us\n", "        seconds, us = divmod(abs(delta) // _1_microsecond, 10**6)\n        if delta.days < 0:\n            # a negative timedelta is normalised to days < 0, seconds/us >= 0\n            seconds, us = -seconds, -us\n")]),
    ("reduce-through-serialize-to-string", ["C07", "C14"], [(I, "        return (self.__class__.FromString, (bytes(self),))\n", "        cls = self.__class__\n        return (cls.FromString, (self.SerializeToString(),))\n")]),
    ("stub-metadata-copied", ["C11"], [(CL, "        self.metadata = metadata\n", "        self.metadata = metadata if metadata is None else dict(metadata)\n")]),
    ("timestamp-json-integer-groups", ["C15", "C05", "C04"], [(I, "        if (nanos % 1e9) == 0:\n            # If there are 0 fractional digits, the fractional\n            # point '.' should be omitted when serializing.\n            return f\"{result}Z\"\n        if (nanos % 1e6) == 0:\n            # Serialize 3 fractional digits.\n            return f\"{result}.{int(nanos // 1e6):03d}Z\"\n        if (nanos % 1e3) == 0:\n            # Serialize 6 fractional digits.\n            return f\"{result}.{int(nanos // 1e3):06d}Z\"\n        # Serialize 9 fractional digits.\n        return f\"{result}.{nanos:09d}\"\n", "        micros = int(nanos // 1e3)\n        if not micros:\n            return f\"{result}Z\"\n        millis, rest = divmod(micros, 1000)\n        if not rest:\n            return f\"{result}.{millis:03d}Z\"\n        return f\"{result}.{millis:03d}{rest:03d}Z\"\n")]),
    ("load-varint-raw-in-bytearray", ["C16", "C08", "C17", "C01", "C02"], [(I, "    raw = b\"\"\n    for shift in count(0, 7):", "    raw = bytearray()\n    for shift in count(0, 7):"), (I, "            return result, raw\n", "            return result, bytes(raw)\n")]),
    ("nested-parse-valueerror-reraised-with-context", ["C17", "C15"], [(I, "                    value = _Duration().parse(value).to_timedelta()\n", "                    try:\n                        value = _Duration().parse(value).to_timedelta()\n                    except ValueError as exc:\n                        raise ValueError(f\"invalid Duration: {exc}\") from exc\n")]),
    ("datetime-imports-by-identifier-scan", ["C18", "C03"], [(MD, "        imports = set()\n        annotation = self.annotation\n        # FIXME: false positives - e.g. `MyDatetimedelta`\n        if \"timedelta\" in annotation:\n            imports.add(\"timedelta\")\n        if \"datetime\" in annotation:\n            imports.add(\"datetime\")\n        return imports\n", "        return {\"timedelta\", \"datetime\"}.intersection(re.findall(r\"[A-Za-z_][A-Za-z_0-9]*\", self.annotation))\n")]),
    ("field-args-table-form", ["C03", "C18"], [(MD, "        args = []\n        if self.field_wraps:\n            args.append(f\"wraps={self.field_wraps}\")\n        if self.optional:\n            args.append(f\"optional=True\")\n        return args\n", "        wraps = self.field_wraps\n        candidates = ((f\"wraps={wraps}\", wraps), (\"optional=True\", self.optional))\n        return [arg for arg, wanted in candidates if wanted]\n")]),
    ("load-prefix-byte-handed-on", ["C10", "C08", "C17", "C01"], [(I, "            size, _ = load_varint(stream)\n", "            prefix = stream.read(1)\n            if not prefix:\n                raise EOFError(\"no further message\")\n            size, _ = load_varint(stream, prefix)\n")]),
    ("submessage-parse-as-statement", ["C01", "C02", "C08", "C06"], [(I, "                    value = cls().parse(value)\n", "                    data, value = value, cls()\n                    value.parse(data)\n")]),
    ("type-hints-vars-namespace", ["C13", "C03"], [(I, "        return get_type_hints(cls, module.__dict__, {})", "        return get_type_hints(cls, vars(module), {})")]),
    ("size-varint-shift-loop", ["C09", "C16", "C10"], [(I, "    elif value < 0:\n        return 10\n    elif value == 0:\n        return 1\n    else:\n        return math.ceil(value.bit_length() / 7)\n", "    elif value < 0:\n        return 10\n    size = 1\n    while value > 0x7F:\n        value >>= 7\n        size += 1\n    return size\n")]),
    ("size-varint-shift-loop-ge", ["C09", "C16", "C10"], [(I, "    elif value < 0:\n        return 10\n    elif value == 0:\n        return 1\n    else:\n        return math.ceil(value.bit_length() / 7)\n", "    elif value < 0:\n        return 10\n    size = 1\n    while value >= 0x80:\n        value >>= 7\n        size += 1\n    return size\n")]),
    ("dump-float-isfinite-first", ["C04", "C05"], [(I, "    if value == float(\"inf\"):\n        return INFINITY\n    if value == -float(\"inf\"):\n        return NEG_INFINITY\n    if isinstance(value, float) and math.isnan(value):\n        return NAN\n    return value\n", "    if not isinstance(value, float) or math.isfinite(value):\n        return value\n    if math.isnan(value):\n        return NAN\n    return INFINITY if value > 0 else NEG_INFINITY\n")]),
    ("load-defers-assignments-in-list", ["C07", "C08", "C10", "C01", "C02"], [(I, "            else:\n                setattr(self, field_name, value)\n\n        if size is not None and read < size:", "            else:\n                pending.append((field_name, value))\n\n        for field_name, value in pending:\n            setattr(self, field_name, value)\n\n        if size is not None and read < size:"), (I, "        read = 0\n        fields = load_fields(stream)\n", "        read = 0\n        pending = []\n        fields = load_fields(stream)\n")]),
    ("builtins-import-if-form", ["C03", "C18"], [(MD, "        output_file.builtins_import = output_file.builtins_import or self.use_builtins\n", "        if self.use_builtins:\n            output_file.builtins_import = True\n")]),
    ("duration-floor-split-with-fixup", ["C15", "C01", "C02"], [(I, "        seconds, us = divmod(abs(total_us), 10**6)\n        if total_us < 0:\n            seconds, us = -seconds, -us\n", "        seconds, us = divmod(total_us, 10**6)\n        if total_us < 0 and us:\n            seconds, us = seconds + 1, us - 10**6\n")]),
    ("decode-varint-scans-buffer", ["C01", "C02", "C08", "C16", "C17", "C10"], [(I, "    with BytesIO(buffer) as stream:\n        stream.seek(pos)\n        value, raw = load_varint(stream)\n    return value, pos + len(raw)\n", "    result = 0\n    for shift in range(0, 64, 7):\n        if pos >= len(buffer):\n            raise EOFError(\"Buffer ended unexpectedly while attempting to decode varint.\")\n        b_int = buffer[pos]\n        pos += 1\n        result |= (b_int & 0x7F) << shift\n        if not (b_int & 0x80):\n            return result, pos\n    raise ValueError(\"Too many bytes when decoding varint.\")\n")]),
    ("key-single-byte-below-16", ["C01", "C02", "C09"], [(I, "        key = encode_varint(field_number << 3)\n", "        key = (field_number << 3).to_bytes(1, \"little\") if field_number < 16 else encode_varint(field_number << 3)\n")]),
    ("size-varint-threshold-chain", ["C09", "C16", "C10"], [(I, "    elif value < 0:\n        return 10\n    elif value == 0:\n        return 1\n    else:\n        return math.ceil(value.bit_length() / 7)\n", "    elif value < 0:\n        return 10\n    if value <= 0x7F:\n        return 1\n    if value <= 0x3FFF:\n        return 2\n    if value <= 0x1FFFFF:\n        return 3\n    if value <= 0xFFFFFFF:\n        return 4\n    if value <= 0x7FFFFFFFF:\n        return 5\n    if value <= 0x3FFFFFFFFFF:\n        return 6\n    if value <= 0x1FFFFFFFFFFFF:\n        return 7\n    if value <= 0xFFFFFFFFFFFFFF:\n        return 8\n    if value <= 0x7FFFFFFFFFFFFFFF:\n        return 9\n    return 10\n")]),
    ("copy-continue-form", ["C07", "C14"], [(I, "            value = self.__raw_get(name)\n            if value is not PLACEHOLDER:\n                kwargs[name] = value\n", "            value = self.__raw_get(name)\n            if value is PLACEHOLDER:\n                continue\n            kwargs[name] = value\n")]),
    ("include-default-oneof-if-form", ["C07", "C04", "C05", "C06"], [(I, "        return (\n            meta.group is not None and self._group_current.get(meta.group) == field_name\n        )", "        if meta.group is None:\n            return False\n        return self._group_current.get(meta.group) == field_name")]),
    ("field-number-lt-one", ["C08", "C17"], [("all", I, "        if number == 0:\n            raise ValueError(\"Invalid field number 0.\")", "        if number < 1:\n            raise ValueError(\"Invalid field number 0.\")")]),
    ("type-hints-localns-keyword", ["C13"], [(I, "        return get_type_hints(cls, module.__dict__, {})", "        return get_type_hints(cls, module.__dict__, localns={})")]),
    ("traverse-prefix-first", ["C13", "C03"], [("src/betterproto/plugin/parser.py", "            item.name = next_prefix = f\"{prefix}_{item.name}\"\n", "            next_prefix = f\"{prefix}_{item.name}\"\n            item.name = next_prefix\n")]),
    ("flush-count-in-two-steps", ["C12"], [("src/betterproto/grpc/util/async_channel.py", "            deadlocked_receivers = max(0, self._waiting_receivers - self._queue.qsize())\n            for _ in range(deadlocked_receivers):", "            deadlocked_receivers = self._waiting_receivers - self._queue.qsize()\n            for _ in range(max(deadlocked_receivers, 0)):")]),
    ("enum-member-filter-slice", ["C20"], [("src/betterproto/enum.py", "            if not _is_descriptor(value) and not name.startswith(\"__\")", "            if not _is_descriptor(value) and name[:2] != \"__\"")]),
    ("dump-serialize-empty-two-steps", ["C01", "C02", "C06", "C09"], [(I, "            serialize_empty = isinstance(value, Message) and value._serialized_on_wire\n\n            include_default_value_for_oneof = self._include_default_value_for_oneof(\n                field_name=field_name, meta=meta\n            )\n\n            if value == self._get_field_default(field_name) and not (\n                selected_in_group or serialize_empty or include_default_value_for_oneof\n            ):\n                # Default (zero) values are not serialized. Two exceptions are\n                # if this is the selected oneof item or if we know we have to\n                # serialize an empty message (i.e. zero value was explicitly\n                # set by the user).\n                continue\n\n            if isinstance(value, list):\n                if meta.proto_type in PACKED_TYPES:\n                    # Packed lists look like a length-delimited field. First,\n                    # preprocess/encode each value into a buffer and then\n                    # treat it like a field of raw bytes.\n                    buf = bytearray()\n                    for item in value:\n                        buf += _preprocess_single(meta.proto_type, \"\", item)\n                    stream.write(", "            serialize_empty = False\n            if isinstance(value, Message):\n                serialize_empty = value._serialized_on_wire\n\n            include_default_value_for_oneof = self._include_default_value_for_oneof(\n                field_name=field_name, meta=meta\n            )\n\n            if value == self._get_field_default(field_name) and not (\n                selected_in_group or serialize_empty or include_default_value_for_oneof\n            ):\n                # Default (zero) values are not serialized. Two exceptions are\n                # if this is the selected oneof item or if we know we have to\n                # serialize an empty message (i.e. zero value was explicitly\n                # set by the user).\n                continue\n\n            if isinstance(value, list):\n                if meta.proto_type in PACKED_TYPES:\n                    # Packed lists look like a length-delimited field. First,\n                    # preprocess/encode each value into a buffer and then\n                    # treat it like a field of raw bytes.\n                    buf = bytearray()\n                    for item in value:\n                        buf += _preprocess_single(meta.proto_type, \"\", item)\n                    stream.write(")]),
    ("enum-prefix-two-step", ["C03", "C19", "C05"], [(NM, "    if name.startswith(prefix) and name[len(prefix) :].strip(\"_\"):\n        name = name[len(prefix) :].strip(\"_\")", "    if name.startswith(prefix):\n        rest = name[len(prefix) :].strip(\"_\")\n        if rest:\n            name = rest")]),
    ("builtins-table-via-comprehension-var", ["C03", "C18"], [(MD, "        self.builtins_types = {\n            pythonize_field_name(f.name) for f in getattr(self.proto_obj, \"field\", [])\n        } & set(dir(builtins))\n", "        field_names = {\n            pythonize_field_name(f.name) for f in getattr(self.proto_obj, \"field\", [])\n        }\n        self.builtins_types = field_names.intersection(dir(builtins))\n")]),
    ("rename-local-from-dict", ["C04", "C05", "C19"], [("rename_local", I, "Message._from_dict_init", "sub_cls", "value_cls"), ("rename_local", I, "Message._from_dict_init", "init_kwargs", "kwargs")]),
    ("map-json-branch-reordered", ["C04", "C05"], [(I, "                    if isinstance(v, datetime):\n                        output_map[k] = _Timestamp.timestamp_to_json(v)\n                    elif isinstance(v, timedelta):\n                        output_map[k] = _Duration.delta_to_json(v)\n", "                    if isinstance(v, timedelta):\n                        output_map[k] = _Duration.delta_to_json(v)\n                    elif isinstance(v, datetime):\n                        output_map[k] = _Timestamp.timestamp_to_json(v)\n")]),
    ("wire-type-match-positional-to-keyword", CODEC, [(I, "            if not _wire_type_matches(parsed.wire_type, meta.proto_type, repeated):", "            if not _wire_type_matches(parsed.wire_type, meta.proto_type, repeated=repeated):")]),
    ("duration-parse-sign-by-comparison", ["C04", "C05", "C15"], [(I, "        sign = -1 if text.startswith(\"-\") else 1\n", "        sign = -1 if text[:1] == \"-\" else 1\n")]),
    ("key-lookup-if-form", ["C04", "C05", "C19"], [(I, "            field_name = cls._betterproto.field_name_by_key.get(\n                key\n            ) or safe_snake_case(key)\n", "            field_name = cls._betterproto.field_name_by_key.get(key)\n            if not field_name:\n                field_name = safe_snake_case(key)\n")]),
    ("map-key-true-membership", ["C04", "C05"], [(I, "        return key == \"true\" if isinstance(key, str) else key\n", "        return key in (\"true\",) if isinstance(key, str) else key\n")]),
    ("len-map-entry-without-serialising", CODEC, [(I, '                    sk = _serialize_single(1, meta.map_types[0], k)\n                    sv = _serialize_single(2, meta.map_types[1], v)\n                    size += _len_single(\n                        meta.number, meta.proto_type, sk + sv, serialize_empty=True\n                    )\n', '                    entry_size = _len_single(1, meta.map_types[0], k)\n                    entry_size += _len_single(2, meta.map_types[1], v)\n                    size += (\n                        size_varint((meta.number << 3) | 2)\n                        + size_varint(entry_size)\n                        + entry_size\n                    )\n')]),
    ("constants-as-tuples", CODEC + ["C04", "C05"], [(I, "FIXED_TYPES = [\n    TYPE_FLOAT,\n    TYPE_DOUBLE,\n    TYPE_FIXED32,\n    TYPE_SFIXED32,\n    TYPE_FIXED64,\n    TYPE_SFIXED64,\n]", "FIXED_TYPES = (\n    TYPE_FLOAT,\n    TYPE_DOUBLE,\n    TYPE_FIXED32,\n    TYPE_SFIXED32,\n    TYPE_FIXED64,\n    TYPE_SFIXED64,\n)"),
                                                     (I, "WIRE_FIXED_32_TYPES = [TYPE_FLOAT, TYPE_FIXED32, TYPE_SFIXED32]", "WIRE_FIXED_32_TYPES = frozenset({TYPE_FLOAT, TYPE_FIXED32, TYPE_SFIXED32})"),
                                                     (I, "INT_64_TYPES = [TYPE_INT64, TYPE_UINT64, TYPE_SINT64, TYPE_FIXED64, TYPE_SFIXED64]", "INT_64_TYPES = (TYPE_SFIXED64, TYPE_INT64, TYPE_UINT64, TYPE_SINT64, TYPE_FIXED64)")]),
    ("len-key-constant-irrelevant", ["C09", "C10"], [(I, "        size += size_varint((field_number << 3) | 5)", "        size += size_varint((field_number << 3) | 1)")]),
    ("len-through-bytes", ["C09", "C10", "C06", "C08", "C14"], [("rewrite_func", I, "Message.__len__", "        return len(bytes(self))\n")]),
    ("rename-local-dump", CODEC + ["C07"], [("rename_local", I, "Message.dump", "value", "field_value"), ("rename_local", I, "Message.dump", "meta", "field_meta")]),
    ("rename-local-load", CODEC, [("rename_local", I, "Message.load", "parsed", "fld"), ("rename_local", I, "Message.load", "current", "existing")]),
    ("rename-local-readers", CODEC, [("rename_local", I, "load_fields", "decoded", "payload"), ("rename_local", I, "load_fields", "wire_type", "wt"), ("rename_local", I, "load_varint", "b", "byte")]),
    ("eq-vs-in-singleton", CODEC, [(I, "    elif proto_type == TYPE_STRING:\n        return value.encode(\"utf-8\")", "    elif proto_type in (TYPE_STRING,):\n        return value.encode(\"utf-8\")")]),
    ("swap-if-arms", CODEC, [(I, "        if value < -(1 << 63):\n        raise", "        if value < -(1 << 63):\n        raise")] if False else [(I, "    if isinstance(value, float) and math.isnan(value):\n        return NAN\n    return value", "    if not (isinstance(value, float) and math.isnan(value)):\n        return value\n    return NAN")]),
    ("reorder-wire-branches", CODEC, [(I, "    elif proto_type in WIRE_FIXED_32_TYPES:\n        key = encode_varint((field_number << 3) | 5)\n        output += key + value\n    elif proto_type in WIRE_FIXED_64_TYPES:\n        key = encode_varint((field_number << 3) | 1)\n        output += key + value\n", "    elif proto_type in WIRE_FIXED_64_TYPES:\n        key = encode_varint((field_number << 3) | 1)\n        output += key + value\n    elif proto_type in WIRE_FIXED_32_TYPES:\n        key = encode_varint((field_number << 3) | 5)\n        output += key + value\n")]),
    ("varint-loop-as-while", ["C16", "C17", "C02", "C09", "C10"], [(I, "    for shift in count(0, 7):\n        if shift >= 64:\n            raise ValueError(\"Too many bytes when decoding varint.\")\n        b = first or stream.read(1)\n        first = b\"\"\n        if not b:\n            raise EOFError(\"Stream ended unexpectedly while attempting to load varint.\")\n        raw += b\n        b_int = int.from_bytes(b, byteorder=\"little\")\n        result |= (b_int & 0x7F) << shift\n        if not (b_int & 0x80):\n            return result, raw\n",
                                                                     "    shift = 0\n    while True:\n        if shift >= 64:\n            raise ValueError(\"Too many bytes when decoding varint.\")\n        b = first or stream.read(1)\n        first = b\"\"\n        if not b:\n            raise EOFError(\"Stream ended unexpectedly while attempting to load varint.\")\n        raw += b\n        b_int = int.from_bytes(b, byteorder=\"little\")\n        result |= (b_int & 0x7F) << shift\n        if not (b_int & 0x80):\n            return result, raw\n        shift += 7\n")]),
    ("timestamp-floor-ops", ["C15"], [(I, "        seconds, us = divmod(offset_us, 10**6)\n        return cls(seconds, us * 1000)", "        seconds = offset_us // 10**6\n        us = offset_us % 10**6\n        return cls(seconds, us * 1000)")]),
    ("kwarg-precedence-positive-form", ["C11"], [(CL, '            "timeout": self.timeout if timeout is None else timeout,', '            "timeout": timeout if timeout is not None else self.timeout,')]),
    ("is-set-optional-other-form", ["C06", "C07", "C14"], [(I, "        if meta.optional:\n            return value is not None\n        if meta.group is not None:", "        if meta.optional:\n            return not (value is None)\n        if meta.group is not None:")]),
    ("comments-and-docstrings", ALL, [(I, "def _pack_fmt(proto_type: str) -> str:\n    \"\"\"Returns a little-endian format string for reading/writing binary.\"\"\"", "def _pack_fmt(proto_type: str) -> str:\n    \"\"\"Returns a little-endian format string for reading/writing binary.\n\n    (extra documentation line)\n    \"\"\"\n    # a comment"),
                                       (CH, "    def close(self):\n        \"\"\"\n        Close this channel to new items\n        \"\"\"", "    def close(self):\n        \"\"\"\n        Close this channel to new items (idempotent).\n        \"\"\"\n        # flush happens asynchronously"),
                                       (TP, "{% for service in output_file.services %}\nclass {{ service.py_name }}Stub(betterproto.ServiceStub):", "{# client side #}\n{% for service in output_file.services %}\nclass {{ service.py_name }}Stub(betterproto.ServiceStub):")]),
    ("rename-local-importing", ["C13", "C03", "C18"], [("rename_local", IM, "reference_cousin", "string_alias", "alias"), ("rename_local", IM, "reference_ancestor", "string_alias", "alias")]),
    ("rename-local-channel", ["C12"], [("rename_local", CH, "AsyncChannel.receive", "result", "item"), ("rename_local", CH, "AsyncChannel.__anext__", "result", "item")]),
    ("enum-membership-test", ["C20"], [(EN, "            member = value_map.get(value)\n            if member is None:\n                member = cls.__new__(cls, name=name, value=value)  # type: ignore\n                value_map[value] = member\n            member_map[name] = member", "            if value not in value_map:\n                member = cls.__new__(cls, name=name, value=value)  # type: ignore\n                value_map[value] = member\n            else:\n                member = value_map[value]\n            member_map[name] = member")]),
    ("exact-read-inlined", ["C17", "C10", "C08", "C01"], [(I, "            decoded = _read_exact(stream, 8)\n            raw += decoded", "            decoded = stream.read(8)\n            if len(decoded) != 8:\n                raise EOFError(\"Stream ended unexpectedly in a fixed64 field.\")\n            raw += decoded")]),
    ("unknown-fields-concat-form", ["C08", "C17"], [(I, "            if not field_name:\n                self._unknown_fields += parsed.raw\n                continue", "            if not field_name:\n                self._unknown_fields = self._unknown_fields + parsed.raw\n                continue")]),
    ("template-flag-reordered", ["C11", "C18", "C03"], [(TP, "            {% if not method.client_streaming and not method.server_streaming %}\n            grpclib.const.Cardinality.UNARY_UNARY,\n            {% elif not method.client_streaming and method.server_streaming %}\n            grpclib.const.Cardinality.UNARY_STREAM,", "            {% if not method.server_streaming and not method.client_streaming %}\n            grpclib.const.Cardinality.UNARY_UNARY,\n            {% elif method.server_streaming and not method.client_streaming %}\n            grpclib.const.Cardinality.UNARY_STREAM,")]),
]


def _func_span(src: str, qual: str) -> Tuple[int, int]:
    tree = ast.parse(src)
    parts = qual.split(".")

    def find(body, names):
        for st in body:
            if isinstance(st, (ast.FunctionDef, ast.AsyncFunctionDef, ast.ClassDef)) and st.name == names[0]:
                if len(names) == 1:
                    return st
                return find(st.body, names[1:])
            if isinstance(st, ast.If):
                r = find(st.body, names) or find(st.orelse, names)
                if r is not None:
                    return r
        return None

    node = find(tree.body, parts)
    if node is None:
        raise KeyError(qual)
    return node.lineno, node.end_lineno


def apply_edits(root: Path, edits: List[Any]) -> None:
    for e in edits:
        if e[0] == "rename_local":
            _, rel, qual, old, new = e
            p = root / rel
            src = p.read_text()
            a, b = _func_span(src, qual)
            lines = src.splitlines(keepends=True)
            seg = "".join(lines[a - 1:b])
            seg2, n = re.subn(rf"(?<![\w.\"']){re.escape(old)}(?![\w\"'=])|(?<![\w.\"']){re.escape(old)}(?= =[^=])", new, seg)
            if n == 0:
                raise KeyError(f"{qual}: local {old} not found")
            p.write_text("".join(lines[:a - 1]) + seg2 + "".join(lines[b:]))
        elif e[0] == "rewrite_func":
            _, rel, qual, body = e
            p = root / rel
            src = p.read_text()
            a, b = _func_span(src, qual)
            lines = src.splitlines(keepends=True)
            # keep the def line(s) up to the first body statement
            tree_fn = None
            header_end = a
            fn_src = "".join(lines[a - 1:b])
            node = ast.parse(__import__("textwrap").dedent(fn_src)).body[0]
            first_body_line = a - 1 + node.body[0].lineno
            p.write_text("".join(lines[:first_body_line - 1]) + body + "".join(lines[b:]))
        elif e[0] == "all":
            _, rel, old, new = e
            p = root / rel
            s = p.read_text()
            if s.count(old) < 1:
                raise KeyError(f"{rel}: pattern does not occur: {old[:50]!r}")
            p.write_text(s.replace(old, new))
        else:
            rel, old, new = e
            p = root / rel
            s = p.read_text()
            if s.count(old) != 1:
                raise KeyError(f"{rel}: pattern occurs {s.count(old)} times: {old[:50]!r}")
            p.write_text(s.replace(old, new))


def _run(job: Tuple[str, str, List[str], Any, Optional[str]]) -> Tuple[str, str, Dict[str, Tuple[int, List[str]]], Optional[str]]:
    kind, jid, props, payload, _ = job
    os.environ["VT_NO_EVIDENCE"] = "1"
    import shutil
    import tempfile
    from .cli import run_one
    from .src import PKG, repo_root
    from .mut import variant_from_patch

    res: Dict[str, Tuple[int, List[str]]] = {}
    err = None
    try:
        if kind == "seeded":
            cm = variant_from_patch(VERIF / "seeded" / jid / "patch.diff")
        elif kind == "kept":
            cm = variant_from_patch(VERIF / "kept" / jid / "patch.diff")
        else:
            @contextlib.contextmanager
            def cm_():
                tmp = Path(tempfile.mkdtemp(prefix="vt-self-"))
                try:
                    shutil.copytree(repo_root() / PKG, tmp / PKG, ignore=shutil.ignore_patterns("__pycache__"))
                    apply_edits(tmp, payload)
                    yield tmp
                finally:
                    shutil.rmtree(tmp, ignore_errors=True)
            cm = cm_()
        with cm as root:
            # the variant must still be valid Python
            for rel in {e[1] if e[0] in ("rename_local", "rewrite_func", "all") else e[0] for e in (payload or [])}:
                if rel.endswith(".py"):
                    ast.parse((root / rel).read_text())
            for p in props:
                buf = io.StringIO()
                with contextlib.redirect_stdout(buf), contextlib.redirect_stderr(buf):
                    code = run_one(p, "quick", str(root))
                lines = [l.strip() for l in buf.getvalue().splitlines() if l.startswith("  refuted:") or l.startswith("ANALYSIS")]
                res[p] = (code, lines)
    except Exception as e:  # corpus rot: an edit no longer applies
        err = f"{type(e).__name__}: {e}"
    return kind, jid, res, err


def jobs_for(prop: Optional[str], kinds: List[str]):
    jobs = []
    if "fire" in kinds:
        for jid, p, rule, edits in FIRE:
            if prop is None or p == prop:
                jobs.append(("fire", jid, [p], edits, rule))
    if "silent" in kinds:
        for jid, props, edits in SILENT:
            ps = [p for p in props if prop is None or p == prop]
            if ps:
                jobs.append(("silent", jid, ps, edits, None))
    if "seeded" in kinds:
        for d in sorted((VERIF / "seeded").iterdir()):
            if d.is_dir():
                meta = json.loads((d / "meta.json").read_text())
                if prop is None or meta["property"] == prop:
                    jobs.append(("seeded", d.name, [meta["property"]], None, None))
    if "kept" in kinds and (VERIF / "kept").exists():
        # behaviour-preserving refactors written by independent agents: every check stays silent on every one of them
        from .cli import PROPS
        for d in sorted((VERIF / "kept").iterdir()):
            if d.is_dir() and (d / "patch.diff").exists():
                jobs.append(("kept", d.name, [prop] if prop else list(PROPS), None, None))
    return jobs


def run_selftest(prop: Optional[str] = None, kinds: Optional[List[str]] = None, verbose: bool = False) -> Tuple[int, int, List[str]]:
    """-> (n_run, n_ok, failures)"""
    kinds = kinds or ["fire", "silent", "seeded", "kept"]
    jobs = jobs_for(prop, kinds)
    expect_rule = {j[1]: j[4] for j in jobs}
    failures: List[str] = []
    ok = 0
    with ProcessPoolExecutor(max_workers=min(16, max(1, len(jobs)))) as ex:
        for kind, jid, res, err in ex.map(_run, jobs):
            if err is not None:
                failures.append(f"{kind}:{jid}: variant could not be built ({err})")
                continue
            good = True
            why = ""
            if kind == "fire":
                (p, (code, lines)), = res.items()
                rule = expect_rule[jid] or ""
                if code != 1 or not any(l.startswith(f"refuted: {rule}") for l in lines):
                    good, why = False, f"expected VIOLATION by rule {rule} of {p}, got exit {code} {lines[:2]}"
            elif kind == "seeded":
                (p, (code, lines)), = res.items()
                if jid in EXPECTED_MISSES:
                    if code == 1:
                        good, why = False, "listed as expected miss but is reported now: update EXPECTED_MISSES"
                elif code != 1:
                    good, why = False, f"seeded change not reported by {p} (exit {code}) {lines[:1]}"
            else:
                for p, (code, lines) in res.items():
                    if code != 0:
                        good, why = False, f"behaviour-preserving refactor makes {p} exit {code}: {lines[:2]}"
            if good:
                ok += 1
                if verbose:
                    print(f"  ok   {kind}:{jid}")
            else:
                failures.append(f"{kind}:{jid}: {why}")
                if verbose:
                    print(f"  FAIL {kind}:{jid}: {why}")
    return len(jobs), ok, failures


def main() -> int:
    import argparse

    ap = argparse.ArgumentParser()
    ap.add_argument("--prop")
    ap.add_argument("--kind", action="append")
    ap.add_argument("-v", action="store_true")
    a = ap.parse_args()
    n, ok, failures = run_selftest(a.prop, a.kind, a.v)
    for f in failures:
        print("SELFTEST-FAIL", f[:400])
    print(f"selftest: {ok}/{n} expectations met")
    return 0 if not failures else 2


if __name__ == "__main__":
    sys.exit(main())
