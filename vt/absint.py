"""E2 - finite-domain abstract interpreter with atom forking.

Interprets one function body over symbolic terms (vt.sym).  Conditions are
evaluated in three-valued logic; an undecidable leaf condition becomes an
*atom* (normalised to its positive form) on which the interpreter forks.  All
paths are enumerated by re-execution with a decision prefix.  The result is a
list of Path objects: valuation (atom -> bool), ordered events, outcome.

No reasoning is done about atoms beyond a small sound implication theory on
type tests (X is None / isinstance(X, T) / truthiness / equality with distinct
constants), used only to prune infeasible combinations.
"""
from __future__ import annotations

import ast
from dataclasses import dataclass, field
from typing import Any, Callable, Dict, List, Optional, Sequence, Tuple

from .src import AnalysisError, Module
from .sym import from_ast  # noqa: E402
from .sym import (
    A, C, CALL, N, OP, Sym, _Builder, dotted, is_const, show, simplify, freeze, HDict,
)


@dataclass
class Event:
    kind: str            # call | store | aug | return | raise | yield | continue | break | loop | endloop | del | assert
    data: Any
    line: int = 0
    depth: int = 0       # inline depth (0 = analysed function itself)
    loops: Tuple[Any, ...] = ()   # iterables of the enclosing loops (outermost first)

    def __repr__(self) -> str:
        return f"<{self.kind}@{self.line} {show_event(self)}>"


def show_event(e: Event) -> str:
    d = e.data
    if e.kind == "call":
        return show(d)
    if e.kind == "store":
        return f"{show(d[0])} = {show(d[1])}"
    if e.kind == "aug":
        return f"{show(d[0])} {d[1]}= {show(d[2])}"
    if e.kind in ("return", "raise", "yield", "loop", "del"):
        return show(d) if d is not None else ""
    return ""


@dataclass
class Path:
    valuation: Dict[Sym, bool]
    events: List[Event]
    outcome: str                 # return | raise | fall
    value: Optional[Sym] = None
    locals: Dict[str, Sym] = field(default_factory=dict)

    def calls(self, name: Optional[str] = None, depth: Optional[int] = None) -> List[Event]:
        out = []
        for e in self.events:
            if e.kind != "call":
                continue
            if depth is not None and e.depth != depth:
                continue
            if name is not None:
                d = dotted(e.data[1])
                if d != name and not d.endswith("." + name):
                    continue
            out.append(e)
        return out

    def val_text(self) -> str:
        return ", ".join(f"{show(k)}={'T' if v else 'F'}" for k, v in self.valuation.items())


class _Return(Exception):
    def __init__(self, value: Sym):
        self.value = value


class _Raise(Exception):
    def __init__(self, value: Sym):
        self.value = value


class _Break(Exception):
    pass


class _Continue(Exception):
    pass


class _GenStop(Exception):
    """the consumer left its for-loop over an inlined generator with `break`"""


class _CallerExit(Exception):
    """return / raise of the consumer's loop body, carried through the frames of an inlined generator"""

    def __init__(self, exc: BaseException):
        self.exc = exc


class PathLimit(AnalysisError):
    pass


DISJOINT_CLASSES = {"list", "dict", "str", "bytes", "bytearray", "Message", "datetime", "timedelta", "float"}


class Interp:
    def __init__(
        self,
        mod: Module,
        *,
        bindings: Optional[Dict[Sym, Any]] = None,
        aliases: Optional[Dict[Sym, Sym]] = None,
        alias_fn: Optional[Callable[[Sym], Optional[Sym]]] = None,
        loop_roles: Optional[Callable[[Sym, int], Optional[List[Sym]]]] = None,
        inline: Optional[Dict[str, Tuple[Module, ast.FunctionDef]]] = None,
        assume: Optional[Dict[Sym, bool]] = None,
        max_paths: int = 20000,
        max_depth: int = 3,
        extra_consts: Optional[Dict[str, Any]] = None,
        fork_ifexp: bool = False,
        force_bool_kwargs: Optional[Sequence[str]] = None,
        fresh_calls: Optional[Sequence[str]] = None,
        unroll: int = 1,
        local_bindings: Optional[Dict[str, Any]] = None,
        auto_inline: bool = True,
        fork_while: bool = False,
        concrete_while: bool = False,
        named_containers: bool = False,
        replay_logs: bool = False,
        heap: bool = False,
        local_tables: bool = False,
        module_attrs: Optional[Dict[str, Any]] = None,
        getattr_default_as_ifexp: bool = False,
    ):
        self.mod = mod
        self.consts = dict(mod.consts)
        if extra_consts:
            self.consts.update(extra_consts)
        self.bindings = {k: freeze(v) for k, v in (bindings or {}).items()}
        self.aliases = aliases or {}
        self.alias_fn = alias_fn
        self.loop_roles = loop_roles
        self.inline = inline or {}
        self.assume = dict(assume or {})
        self.max_paths = max_paths
        self.max_depth = max_depth
        self.fork_ifexp = fork_ifexp
        self.force_bool_kwargs = set(force_bool_kwargs or ())
        self.fresh_calls = set(fresh_calls or ())
        self.unroll = unroll
        self.local_bindings = {k: freeze(v) for k, v in (local_bindings or {}).items()}
        # transparent inlining of private helpers of the same module / class that are not named in `inline`: a helper that a
        # refactoring extracted is analysed as if its body were still in place (same depth, same loop context)
        self.auto_inline = auto_inline
        self.fork_while = fork_while
        self.named_containers = named_containers   # a local bound to a fresh empty container keeps its name as identity
        self.replay_logs = replay_logs             # append-only local lists hold what was appended on the path; a later `for` over them replays it
        self.getattr_default_as_ifexp = getattr_default_as_ifexp   # getattr(x, "n", d) read as `x.n if hasattr(x, "n") else d` (decided like any conditional expression)
        self.local_tables = local_tables   # a store `T[<constant>] = v` into a local that holds a dict display with constant keys updates that display
        self.module_attrs = dict(module_attrs or {})   # imported module name -> names it binds at top level (decides hasattr(module, "NAME"))
        self.heap_on = heap            # attribute stores are visible to later reads of the same attribute term on the path
        self.heap: Dict[Sym, Sym] = {}
        self.concrete_while = concrete_while   # a while loop whose test folds to a constant is executed iteration by iteration
        self.inline_stack: List[int] = []
        self.yield_hooks: List[Any] = []
        self.lambdas: Dict[str, Any] = {}
        self.cur_class: Optional[str] = None
        self.fresh_count: Dict[Sym, int] = {}
        # per-run state
        self.choices: List[bool] = []
        self.pos = 0
        self.decided: Dict[Sym, bool] = {}
        self.events: List[Event] = []
        self.frames: List[Dict[str, Sym]] = []
        self.defdepth: List[Dict[str, int]] = []
        self.loops: List[Sym] = []
        self.depth = 0
        self.cur_line = 0

    # ------------------------------------------------------------------ API
    def run(self, fn: ast.FunctionDef, args: Optional[Dict[str, Sym]] = None) -> List[Path]:
        # names assigned somewhere in the function: reading one that is unbound on the current path means
        # "whatever an earlier loop iteration left there" (or an UnboundLocalError)
        self.top_locals = {n.id for n in ast.walk(fn) if isinstance(n, ast.Name) and isinstance(n.ctx, ast.Store)}
        self.cur_class = None
        origin = getattr(fn, "_vt_qual", None)     # set by the expander (vt/expand.py) on the copies it hands out
        if origin is not None and "." in origin:
            self.cur_class = origin.rsplit(".", 1)[0]
        for q, nodes in self.mod.defs.items():
            if any(x is fn for x in nodes) and "." in q:
                self.cur_class = q.rsplit(".", 1)[0]
        self.top_fn = fn
        # locals that are mutated in place (x.append(..), x[k] = .., del x[k] ...): a non-empty display bound to such a name
        # must not be read as if it still were what the literal says
        self.mutated_locals = set()
        for n_ in ast.walk(fn):
            if isinstance(n_, ast.Call) and isinstance(n_.func, ast.Attribute) and isinstance(n_.func.value, ast.Name) and n_.func.attr in (
                    "append", "pop", "extend", "insert", "remove", "clear", "update", "add", "discard", "setdefault", "popitem", "sort", "reverse", "appendleft", "popleft"):
                self.mutated_locals.add(n_.func.value.id)
            elif isinstance(n_, ast.Subscript) and isinstance(n_.ctx, (ast.Store, ast.Del)) and isinstance(n_.value, ast.Name):
                self.mutated_locals.add(n_.value.id)
        # tables of the class metadata that are derived from another of its tables in one comprehension
        # (`self.T = {k: EXPR(k, v) for k, v in base.items()}`): a lookup T.get(K) is EXPR at (K, BASE.get(K)), None when BASE has no K
        self.derived_tables = _derived_tables(self.mod)
        self.missing_tables = _missing_tables(self.mod)
        self.append_only = set()
        if self.replay_logs:
            uses = {}
            for n_ in ast.walk(fn):
                if isinstance(n_, ast.Name):
                    uses.setdefault(n_.id, []).append(n_)
            for nm in self.mutated_locals:
                muts = [n_ for n_ in ast.walk(fn) if isinstance(n_, ast.Call) and isinstance(n_.func, ast.Attribute) and isinstance(n_.func.value, ast.Name) and n_.func.value.id == nm]
                inits = [n_ for n_ in ast.walk(fn) if isinstance(n_, (ast.Assign, ast.AnnAssign)) and any(
                    isinstance(t_, ast.Name) and t_.id == nm for t_ in (n_.targets if isinstance(n_, ast.Assign) else [n_.target]))]
                iters = [n_ for n_ in ast.walk(fn) if isinstance(n_, ast.For) and isinstance(n_.iter, ast.Name) and n_.iter.id == nm]
                if muts and all(m_.func.attr == "append" and len(m_.args) == 1 and not m_.keywords for m_ in muts) and len(inits) == 1 and inits[0].value is not None and (
                        (isinstance(inits[0].value, ast.List) and not inits[0].value.elts) or (isinstance(inits[0].value, ast.Call) and ast.unparse(inits[0].value) in ("list()", "bytearray()"))) \
                        and len(uses.get(nm, [])) == len(muts) + len(inits) + len(iters) + len(_pure_reads(fn, nm)) + len(
                            [r_ for r_ in ast.walk(fn) if isinstance(r_, ast.Return) and isinstance(r_.value, ast.Name) and r_.value.id == nm]):
                    self.append_only.add(nm)
        from . import sym as _sym
        _sym.MODULE_DEFS.clear()
        _sym.MODULE_CLASSES.clear()
        _sym.MODULE_CLASSES.update(q for q, nodes in self.mod.defs.items() if "." not in q and nodes and all(isinstance(x, ast.ClassDef) for x in nodes))
        _sym.METHOD_NAMES.clear()
        _sym.DATA_ATTR_NAMES.clear()
        for q, nodes in self.mod.defs.items():
            if any(isinstance(x, (ast.FunctionDef, ast.AsyncFunctionDef, ast.ClassDef)) for x in nodes) and not all(
                    isinstance(x, ast.FunctionDef) and any(ast.unparse(d) in ("property", "functools.cached_property", "cached_property") for d in x.decorator_list) for x in nodes):
                _sym.MODULE_DEFS.add(q)
                if "." in q and any(isinstance(x, (ast.FunctionDef, ast.AsyncFunctionDef)) for x in nodes):
                    _sym.METHOD_NAMES.add(q.rsplit(".", 1)[-1])
        for n_ in ast.walk(self.mod.tree):
            if isinstance(n_, ast.Attribute) and isinstance(n_.ctx, ast.Store):
                _sym.DATA_ATTR_NAMES.add(n_.attr)
            elif isinstance(n_, ast.ClassDef):
                for st_ in n_.body:
                    if isinstance(st_, ast.AnnAssign) and isinstance(st_.target, ast.Name):
                        _sym.DATA_ATTR_NAMES.add(st_.target.id)
                    elif isinstance(st_, ast.Assign):
                        _sym.DATA_ATTR_NAMES |= {t_.id for t_ in st_.targets if isinstance(t_, ast.Name)}
                    elif isinstance(st_, ast.FunctionDef) and any(ast.unparse(d) in ("property", "functools.cached_property", "cached_property") for d in st_.decorator_list):
                        _sym.DATA_ATTR_NAMES.add(st_.name)
        _sym.NON_OPTIONAL_RETURNS.clear()
        for q, nodes in self.mod.defs.items():
            for x in nodes:
                if isinstance(x, (ast.FunctionDef, ast.AsyncFunctionDef)) and x.returns is not None and ast.unparse(x.returns) in ("bool", "int", "str", "bytes", "float"):
                    _sym.NON_OPTIONAL_RETURNS.add(q.rsplit(".", 1)[-1])
        paths: List[Path] = []
        prefix: List[bool] = []
        while True:
            self.choices = list(prefix)
            self.pos = 0
            self.decided = dict(self.assume)
            self.heap = {}
            self.events = []
            self.frames = []
            self.defdepth = []
            self.loops = []
            self.fresh_count = {}
            self.depth = 0
            outcome, value, loc = self._run_function(fn, args or {}, top=True)
            val = {k: v for k, v in self.decided.items() if k not in self.assume}
            paths.append(Path(val, self.events, outcome, value, loc))
            if len(paths) > self.max_paths:
                raise PathLimit(f"more than {self.max_paths} paths in {fn.name}")
            # next prefix: flip the last False choice
            ch = self.choices[: self.pos] if self.pos <= len(self.choices) else self.choices
            while ch and ch[-1] is True:
                ch.pop()
            if not ch:
                break
            ch[-1] = True
            prefix = ch
        return paths

    # ------------------------------------------------------------ internals
    def _run_function(self, fn: ast.FunctionDef, args: Dict[str, Sym], top: bool = False):
        frame: Dict[str, Sym] = {}
        a = fn.args
        params = [p.arg for p in a.posonlyargs + a.args]
        defaults = [None] * (len(params) - len(a.defaults)) + list(a.defaults)
        for p, d in zip(params, defaults):
            if p in args:
                frame[p] = args[p]
            elif d is not None and not top:
                frame[p] = self._const_default(d)
            else:
                frame[p] = self._rewrite(N(p))
        for p, d in zip(a.kwonlyargs, a.kw_defaults):
            if p.arg in args:
                frame[p.arg] = args[p.arg]
            elif d is not None and not top:
                frame[p.arg] = self._const_default(d)
            else:
                frame[p.arg] = self._rewrite(N(p.arg))
        if a.vararg:
            frame[a.vararg.arg] = args.get(a.vararg.arg, N("*" + a.vararg.arg))
        if a.kwarg:
            frame[a.kwarg.arg] = args.get(a.kwarg.arg, N("**" + a.kwarg.arg))
        self.frames.append(frame)
        self.defdepth.append({k: len(self.loops) for k in frame})
        try:
            try:
                self._block(fn.body)
                return "fall", C(None), dict(frame)
            except _Return as r:
                return "return", r.value, dict(frame)
            except _Raise as r:
                if not top:
                    raise
                return "raise", r.value, dict(frame)
            except (_Break, _Continue):
                raise AnalysisError(f"loop control outside loop in {fn.name}")
        finally:
            self.frames.pop()
            self.defdepth.pop()

    def _const_default(self, d: ast.AST) -> Sym:
        b = _EvalBuilder(self, pure=True)
        return b.ev(d)

    # names ---------------------------------------------------------------
    def lookup(self, name: str) -> Optional[Sym]:
        fr = self.frames[-1]
        if name in fr:
            return fr[name]
        if self.depth == 0 and name in getattr(self, "top_locals", ()) and len(self.frames) == 1:
            return N("$stale:" + name)
        if name in self.consts:
            v = self.consts[name]
            try:
                hash(freeze(v))
            except TypeError:
                return N(name)
            return self._rewrite(N(name)) if N(name) in self.bindings else C(v)
        return None

    def _rewrite(self, s: Sym) -> Sym:
        if self.heap_on and s in self.heap:
            return self.heap[s]
        if s in self.bindings:
            return ("c", self.bindings[s])
        if s in self.aliases:
            return self.aliases[s]
        if self.alias_fn is not None:
            r = self.alias_fn(s)
            if r is not None:
                return r
        return s

    def bind(self, name: str, value: Sym, aug: bool = False) -> None:
        if self.depth == 0 and name in self.local_bindings:
            value = ("c", self.local_bindings[name])
        self.frames[-1][name] = value
        if not aug:
            self.defdepth[-1][name] = len(self.loops)

    # statements ----------------------------------------------------------
    def _block(self, body: Sequence[ast.stmt]) -> None:
        for st in body:
            self._stmt(st)

    def _ev(self, node: ast.AST) -> Sym:
        return _EvalBuilder(self).ev(node)

    def emit(self, kind: str, data: Any, node: Optional[ast.AST] = None) -> None:
        self.events.append(Event(kind, data, getattr(node, "lineno", self.cur_line), self.depth, tuple(self.loops)))

    def _stmt(self, st: ast.stmt) -> None:
        self.cur_line = getattr(st, "lineno", self.cur_line)
        if isinstance(st, ast.Expr):
            v = self._ev(st.value)
            if self.local_tables and isinstance(st.value, ast.Call) and isinstance(st.value.func, ast.Attribute) and isinstance(st.value.func.value, ast.Name) and self.frames \
                    and st.value.func.value.id in self.frames[-1] and st.value.func.attr in ("append", "extend", "insert", "pop", "clear", "remove", "reverse", "sort") and v[0] == "call":
                # a method that changes a local sequence whose items are all known: append of a constant is tracked, anything else forgets the items
                nm_ = st.value.func.value.id
                cur = self.frames[-1][nm_]
                if cur[0] == "c" and isinstance(cur[1], tuple):
                    if st.value.func.attr == "append" and len(v[2]) == 1 and not v[3] and simplify(v[2][0])[0] == "c":
                        self.frames[-1][nm_] = C(cur[1] + (simplify(v[2][0])[1],))
                    else:
                        self.frames[-1][nm_] = ("call", N("$mutated"), (N(nm_),), ())
            if self.append_only and self.depth == 0 and not self.inline_stack and isinstance(st.value, ast.Call) and isinstance(st.value.func, ast.Attribute) \
                    and isinstance(st.value.func.value, ast.Name) and st.value.func.value.id in self.append_only and v[0] == "call" and len(v[2]) == 1:
                old = self.lookup(st.value.func.value.id)
                items = old[1] if old is not None and old[0] == "list" else (tuple(C(x) for x in old[1]) if old is not None and old[0] == "c" and isinstance(old[1], tuple) else None)
                if items is None and old is not None and old[0] == "call" and old[1] in (N("bytearray"), N("list")) and not old[2] and not old[3]:
                    items = ()
                if items is not None:
                    self.bind(st.value.func.value.id, ("list", tuple(items) + (v[2][0],)))
            if v[0] == "yield":
                if self.yield_hooks and self.yield_hooks[-1][0] == len(self.frames):
                    self.yield_hooks[-1][1](v[1])
                else:
                    self.emit("yield", v[1], st)
            return
        if isinstance(st, ast.Assign):
            v = self._ev(st.value)
            if v[0] == "yield":
                self.emit("yield", v[1], st)
            for t in st.targets:
                self._assign(t, v, st)
            return
        if isinstance(st, ast.AnnAssign):
            if st.value is not None:
                self._assign(st.target, self._ev(st.value), st)
            return
        if isinstance(st, ast.AugAssign):
            from .sym import _BINOPS

            op = _BINOPS[type(st.op)]
            rhs = self._ev(st.value)
            if isinstance(st.target, ast.Name):
                old = self.lookup(st.target.id) or N(st.target.id)
                self.emit("aug", (N(st.target.id), op, rhs, old), st)
                d0 = self.defdepth[-1].get(st.target.id, 0)
                acc = rhs
                for it in reversed(self.loops[d0:]):
                    if isinstance(it, tuple) and it and it[0] in ("while!", "for!"):
                        continue        # concretely executed iterations add up by themselves
                    acc = ("acc", it, acc)
                self.bind(st.target.id, simplify(OP(op, old, acc)), aug=True)
            else:
                tgt = self._ev(st.target)
                self.emit("aug", (tgt, op, rhs, tgt), st)
                if self.local_tables and isinstance(st.target, ast.Subscript) and isinstance(st.target.value, ast.Name) and self.frames and st.target.value.id in self.frames[-1]:
                    # L[i] op= c on a local sequence whose items are all known: the item is replaced
                    cur = self.frames[-1][st.target.value.id]
                    key = simplify(self._ev(st.target.slice))
                    new_v = simplify(OP(op, tgt, rhs))
                    if cur[0] == "c" and isinstance(cur[1], tuple) and key[0] == "c" and isinstance(key[1], int) and not isinstance(key[1], bool) and -len(cur[1]) <= key[1] < len(cur[1]) and new_v[0] == "c":
                        items = list(cur[1])
                        items[key[1]] = new_v[1]
                        self.frames[-1][st.target.value.id] = C(tuple(items))
                    elif cur[0] in ("c", "list", "tuple"):
                        self.frames[-1][st.target.value.id] = ("call", N("$mutated"), (N(st.target.value.id),), ())     # no longer known item by item
            return
        if isinstance(st, ast.Return):
            v = self._ev(st.value) if st.value is not None else C(None)
            if self.depth == 0:
                self.emit("return", v, st)
            raise _Return(v)
        if isinstance(st, ast.Raise):
            v = self._ev(st.exc) if st.exc is not None else N("<reraise>")
            self.emit("raise", v, st)
            raise _Raise(v)
        if isinstance(st, ast.If):
            if self.truth(st.test):
                self._block(st.body)
            else:
                self._block(st.orelse)
            return
        if isinstance(st, (ast.For, ast.AsyncFor)):
            it = self._ev(st.iter)
            if isinstance(st, ast.For) and self._generator_loop(st, it):
                return
            roles = self.loop_roles(it, self.depth) if self.loop_roles else None
            if isinstance(st, ast.For) and self.append_only and isinstance(st.iter, ast.Name) and st.iter.id in self.append_only and self.depth == 0 and not st.orelse \
                    and (it[0] == "list" or (it[0] == "c" and it[1] == ())):
                # replay of an append-only log: once per entry recorded on this path, in order
                kind = ("for!", it)
                self.emit("loop", kind, st)
                self.loops.append(kind)
                try:
                    for x in (it[1] if it[0] == "list" else ()):
                        self._assign(st.target, x, st, quiet=True)
                        try:
                            self._block(st.body)
                        except _Continue:
                            self.emit("continue", None, st)
                        except _Break:
                            self.emit("break", None, st)
                            break
                finally:
                    self.loops.pop()
                    self.emit("endloop", kind, st)
                return
            if isinstance(st, ast.For) and self.append_only and self.depth == 0 and not st.orelse and isinstance(st.iter, ast.Call) and isinstance(st.iter.func, ast.Name) \
                    and not st.iter.keywords and (
                        (st.iter.func.id == "enumerate" and len(st.iter.args) == 1 and isinstance(st.iter.args[0], ast.Name) and st.iter.args[0].id in self.append_only)
                        or (st.iter.func.id == "zip" and len(st.iter.args) == 2 and isinstance(st.iter.args[1], ast.Name) and st.iter.args[1].id in self.append_only
                            and isinstance(st.iter.args[0], ast.Call) and ast.unparse(st.iter.args[0].func) in ("count", "itertools.count") and len(st.iter.args[0].args) <= 2
                            and all(isinstance(a_, ast.Constant) and isinstance(a_.value, int) for a_ in st.iter.args[0].args))):
                # replay of an append-only log paired with its positions: zip(count(a, s), log) / enumerate(log)
                log = self.lookup(st.iter.args[-1].id)
                items = log[1] if log is not None and log[0] == "list" else () if log is not None and ((log[0] == "c" and log[1] == ()) or (log[0] == "call" and not log[2])) else None
                if items is not None:
                    cargs = [a_.value for a_ in st.iter.args[0].args] if st.iter.func.id == "zip" else []
                    start, step = (cargs + [0, 1][len(cargs):])[:2] if st.iter.func.id == "zip" else (0, 1)
                    kind = ("for!", it)
                    self.emit("loop", kind, st)
                    self.loops.append(kind)
                    try:
                        for i_, x in enumerate(items):
                            self._assign(st.target, ("tuple", (C(start + step * i_), x)), st, quiet=True)
                            try:
                                self._block(st.body)
                            except _Continue:
                                self.emit("continue", None, st)
                            except _Break:
                                self.emit("break", None, st)
                                break
                    finally:
                        self.loops.pop()
                        self.emit("endloop", kind, st)
                    return
            if isinstance(st, ast.For) and roles is None and it[0] == "c" and isinstance(it[1], tuple) and len(it[1]) <= 32 and not st.orelse:
                # a loop over a folded constant tuple is executed element by element (exact)
                kind = ("for!", it)
                self.emit("loop", kind, st)
                self.loops.append(kind)
                try:
                    for x in it[1]:
                        self._assign(st.target, C(x), st, quiet=True)
                        try:
                            self._block(st.body)
                        except _Continue:
                            self.emit("continue", None, st)
                        except _Break:
                            self.emit("break", None, st)
                            break
                finally:
                    self.loops.pop()
                    self.emit("endloop", kind, st)
                return
            self.emit("loop", it, st)
            elem = _elem_of(it)
            if roles is not None and isinstance(st.target, (ast.Tuple, ast.List)) and len(roles) == len(st.target.elts):
                for t, r in zip(st.target.elts, roles):
                    self._assign(t, r, st, quiet=True)
            elif roles is not None and len(roles) == 1:
                self._assign(st.target, roles[0], st, quiet=True)
            else:
                self._assign(st.target, elem, st, quiet=True)
            self.loops.append(it)
            try:
                try:
                    for _k in range(self.unroll):
                        try:
                            self._block(st.body)
                        except _Continue:
                            self.emit("continue", None, st)
                        if _k + 1 < self.unroll:
                            self.emit("nextiter", it, st)
                except _Break:
                    self.emit("break", None, st)
                    self.loops.pop()
                    self.emit("endloop", it, st)
                    self.loops.append(it)
                    return
            finally:
                self.loops.pop()
            self.emit("endloop", it, st)
            self._block(st.orelse)
            return
        if isinstance(st, ast.While):
            t = self._ev(st.test)
            if self.concrete_while and simplify(t)[0] == "c":
                self.emit("loop", ("while!", t), st)
                self.loops.append(("while!", t))
                try:
                    k = 0
                    while True:
                        c = simplify(self._ev(st.test))
                        if c[0] != "c":
                            raise AnalysisError(f"while test at {self.mod.rel}:{st.lineno} stops folding after {k} iterations")
                        if not c[1]:
                            break
                        k += 1
                        if k > 64:
                            raise AnalysisError(f"while loop at {self.mod.rel}:{st.lineno} does not terminate within 64 concrete iterations")
                        try:
                            self._block(st.body)
                        except _Continue:
                            self.emit("continue", None, st)
                        except _Break:
                            self.emit("break", None, st)
                            return
                finally:
                    self.loops.pop()
                    self.emit("endloop", ("while!", t), st)
                self._block(st.orelse)
                return
            if self.fork_while and simplify(t)[0] != "c":
                # the loop may not be entered at all (its test decides, like an `if`)
                if not self.truth_sym(t):
                    self.emit("loop", ("while", t), st)
                    self.emit("endloop", ("while", t), st)
                    self._block(st.orelse)
                    return
            self.emit("loop", ("while", t), st)
            self.loops.append(("while", t))
            try:
                try:
                    for _k in range(self.unroll):
                        if _k > 0 and self.fork_while:
                            # a further unrolled iteration is entered only if the test holds again
                            t2 = self._ev(st.test)
                            if not self.truth_sym(t2):
                                break
                        try:
                            self._block(st.body)
                        except _Continue:
                            self.emit("continue", None, st)
                        if _k + 1 < self.unroll:
                            self.emit("nextiter", ("while", t), st)
                except _Break:
                    self.emit("break", None, st)
                    self.loops.pop()
                    self.emit("endloop", ("while", t), st)
                    self.loops.append(("while", t))
                    return
            finally:
                self.loops.pop()
            self.emit("endloop", ("while", t), st)
            if self.fork_while:
                # left normally after the unrolled iterations: the test is false now (a flag the body computed, `while more:`)
                t_end = self._ev(st.test)
                if simplify(t_end)[0] != "c":
                    self.assume_test(t_end, False)
            return
        if isinstance(st, ast.Try):
            self._try(st)
            return
        if isinstance(st, (ast.With, ast.AsyncWith)):
            for item in st.items:
                ctx = self._ev(item.context_expr)
                if item.optional_vars is not None:
                    self._assign(item.optional_vars, ("call", A(ctx, "__enter__"), (), ()), st, quiet=True)
            self._block(st.body)
            return
        if isinstance(st, ast.Continue):
            raise _Continue()
        if isinstance(st, ast.Break):
            raise _Break()
        if isinstance(st, ast.Assert):
            self.emit("assert", self._ev(st.test), st)
            return
        if isinstance(st, ast.Delete):
            for t in st.targets:
                self.emit("del", self._ev(t), st)
            return
        if isinstance(st, (ast.FunctionDef, ast.AsyncFunctionDef, ast.ClassDef)):
            self.bind(st.name, ("opaque", f"<def {st.name}>"))
            return
        if isinstance(st, (ast.Pass, ast.Import, ast.ImportFrom, ast.Global, ast.Nonlocal)):
            return
        raise AnalysisError(f"unsupported statement {type(st).__name__} at {self.mod.rel}:{st.lineno}")

    def _generator_loop(self, st: ast.For, it: Sym) -> bool:
        """`for T in self._gen(...)` / `for T in _gen(...)` over a private generator that is not a unit known to the rules:
        the generator body is executed in place and the loop body runs at each of its `yield`s (with T bound to the yielded
        value), so that moving a loop into a generator does not change what the rules see"""
        if not self.auto_inline or it[0] != "call" or self.frames is None:
            return False
        f = it[1]
        fn = None
        if f[0] == "n" and self.mod.has(f[1]):
            cands = [x for x in self.mod.defs[f[1]] if isinstance(x, ast.FunctionDef)]
            fn = cands[0] if len(cands) == 1 else None
        elif f[0] == "a" and f[1] in (N("self"), N("cls")) and self.cur_class and self.mod.has(f"{self.cur_class}.{f[2]}"):
            cands = [x for x in self.mod.defs[f"{self.cur_class}.{f[2]}"] if isinstance(x, ast.FunctionDef)]
            fn = cands[0] if len(cands) == 1 else None
        if fn is None or id(fn) in self.inline_stack or len(self.inline_stack) >= self.max_depth:
            return False
        qual = next((q for q, nodes in self.mod.defs.items() if any(x is fn for x in nodes)), None)
        if qual is None or qual in _known_units().get(self.mod.rel, ()):
            return False
        if not any(isinstance(x, ast.Yield) for x in ast.walk(fn)) or any(isinstance(x, (ast.YieldFrom, ast.Await)) for x in ast.walk(fn)):
            return False
        if any(isinstance(x, ast.Assign) and isinstance(x.value, ast.Yield) for x in ast.walk(fn)) or fn.args.vararg or fn.args.kwarg:
            return False
        params = [p.arg for p in fn.args.posonlyargs + fn.args.args]
        argmap: Dict[str, Sym] = {}
        pos = list(it[2])
        if params and params[0] in ("self", "cls") and f[0] == "a":
            argmap[params[0]] = f[1]
            plist = params[1:]
        else:
            plist = params
        if any(a[0] == "star" for a in pos):
            return False
        for p_, a in zip(plist, pos):
            argmap[p_] = a
        for k, v in it[3]:
            if k is not None and k != "#":
                argmap[k] = v
        caller_depth = len(self.frames)

        def on_yield(value: Sym) -> None:
            saved_frames = self.frames[caller_depth:]
            saved_dd = self.defdepth[caller_depth:]
            del self.frames[caller_depth:]
            del self.defdepth[caller_depth:]
            try:
                self._assign(st.target, value, st, quiet=True)
                try:
                    self._block(st.body)
                except _Continue:
                    self.emit("continue", None, st)
                except _Break:
                    raise _GenStop()
                except (_Return, _Raise) as e:
                    raise _CallerExit(e)
            finally:
                self.frames.extend(saved_frames)
                self.defdepth.extend(saved_dd)

        self.inline_stack.append(id(fn))
        self.yield_hooks.append((caller_depth + 1, on_yield))
        try:
            try:
                self._run_function(fn, argmap)
            except _GenStop:
                self.emit("break", None, st)
                return True
            except _CallerExit as ce:
                raise ce.exc
        finally:
            self.yield_hooks.pop()
            self.inline_stack.pop()
        self._block(st.orelse)
        return True

    def _try(self, st: ast.Try) -> None:
        # model: the body either completes, or raises one of the handled exception
        # classes *at its first call* (bodies in this code base are one statement).
        handled = False
        if st.handlers:
            first_call = None
            for n in ast.walk(ast.Module(body=st.body, type_ignores=[])):
                if isinstance(n, ast.Call):
                    first_call = n
                    break
            for h in st.handlers:
                names = _handler_names(h)
                key = ("raises", names, ast.unparse(st.body[0]) if st.body else "")
                # key is made robust to local renaming by evaluating the first statement's value
                probe = None
                b0 = st.body[0] if st.body else None
                if isinstance(b0, (ast.Assign, ast.Expr, ast.Return)) and b0.value is not None:
                    save = len(self.events)
                    try:
                        probe = _EvalBuilder(self, pure=True).ev(b0.value)
                    finally:
                        del self.events[save:]
                atom = ("raises", names, probe if probe is not None else key[2])
                if self.decide(atom):
                    handled = True
                    if h.name:
                        self.bind(h.name, N(h.name))
                    try:
                        self._block(h.body)
                    finally:
                        pass
                    break
        try:
            if not handled:
                self._block(st.body)
                self._block(st.orelse)
        finally:
            # finalbody runs on every exit; events recorded in order
            if st.finalbody:
                self._block(st.finalbody)

    def _assign(self, t: ast.AST, v: Sym, st: ast.AST, quiet: bool = False) -> None:
        if isinstance(t, ast.Name) and self.named_containers and self.depth == 0 and not self.inline_stack and (
                v in (("dictd", ()), ("list", ()), ("set", ()), ("tuple", ())) or (v[0] == "call" and v[1] in (N("dict"), N("list"), N("set")) and not v[2] and not v[3])):
            self.bind(t.id, N(t.id))
            return
        if isinstance(t, ast.Name) and self.local_tables and v[0] == "list" and all(simplify(x)[0] == "c" for x in v[1]):
            self.bind(t.id, C(tuple(simplify(x)[1] for x in v[1])))      # a local sequence known item by item (stores / appends are tracked)
            return
        if isinstance(t, ast.Name) and self.depth == 0 and not self.inline_stack and t.id in getattr(self, "mutated_locals", ()) and (
                (v[0] in ("list", "set", "dictd") and v[1]) or (v[0] == "c" and isinstance(v[1], (tuple, frozenset, dict)) and len(v[1]) > 0 and False)):
            self.bind(t.id, N(t.id))        # contents change later: keep the identity only
            return
        if isinstance(t, ast.Name):
            self.bind(t.id, self._rewrite_value(v))
            return
        if isinstance(t, (ast.Tuple, ast.List)):
            if v[0] in ("tuple", "list") and len(v[1]) == len(t.elts):
                for e, x in zip(t.elts, v[1]):
                    self._assign(e, x, st, quiet)
            elif v[0] == "c" and isinstance(v[1], tuple) and len(v[1]) == len(t.elts):
                from .sym import const_or_name as _con
                for e, x in zip(t.elts, v[1]):
                    self._assign(e, _con(x) if type(x).__name__ in ("SymName", "SymCall", "SymLambda") else C(x), st, quiet)
            else:
                for i, e in enumerate(t.elts):
                    self._assign(e, self._rewrite(("item", v, i)), st, quiet)
            return
        if isinstance(t, ast.Starred):
            self._assign(t.value, ("star", v), st, quiet)
            return
        if self.heap_on and isinstance(t, ast.Attribute):
            # the target is the attribute *location*: evaluate the object, not the attribute's current value
            tgt = ("a", self._ev(t.value), t.attr)
            self.emit("store", (tgt, v), st)
            self.heap[tgt] = v
            return
        if self.local_tables and isinstance(t, ast.Subscript) and isinstance(t.value, ast.Name) and self.frames and t.value.id in self.frames[-1]:
            cur = self.frames[-1][t.value.id]
            key = simplify(self._ev(t.slice))
            if cur[0] == "dictd" and key[0] == "c" and all(k_[0] == "c" for k_, _ in cur[1]):
                ents = [(k_, v_) for k_, v_ in cur[1] if not (k_[1] == key[1] and type(k_[1]) is type(key[1]))] + [(key, v)]
                self.emit("store", (("sub", N(t.value.id), key), v), st)
                self.frames[-1][t.value.id] = ("dictd", tuple(ents))
                return
            if cur[0] == "c" and isinstance(cur[1], tuple) and key[0] == "c" and isinstance(key[1], int) and not isinstance(key[1], bool) and -len(cur[1]) <= key[1] < len(cur[1]):
                # an item store into a local sequence whose items are all known
                vv = simplify(v)
                self.emit("store", (("sub", N(t.value.id), key), v), st)
                if vv[0] == "c":
                    items = list(cur[1])
                    items[key[1]] = vv[1]
                    self.frames[-1][t.value.id] = C(tuple(items))
                else:
                    items_t = [C(x) for x in cur[1]]
                    items_t[key[1]] = v
                    self.frames[-1][t.value.id] = ("list", tuple(items_t))
                return
        tgt = self._ev(t)
        self.emit("store", (tgt, v), st)

    def _rewrite_value(self, v: Sym) -> Sym:
        if v in self.aliases:
            return self.aliases[v]
        if self.alias_fn is not None:
            r = self.alias_fn(v)
            if r is not None:
                return r
        return v

    # conditions ----------------------------------------------------------
    def truth(self, node: ast.AST) -> bool:
        if isinstance(node, ast.BoolOp):
            if isinstance(node.op, ast.And):
                for v in node.values:
                    if not self.truth(v):
                        return False
                return True
            for v in node.values:
                if self.truth(v):
                    return True
            return False
        if isinstance(node, ast.UnaryOp) and isinstance(node.op, ast.Not):
            return not self.truth(node.operand)
        return self.truth_sym(self._ev(node))

    def truth_sym(self, s: Sym) -> bool:
        s = simplify(s)
        if s[0] == "c":
            return bool(s[1])
        if s[0] == "op":
            op = s[1]
            if op == "not":
                return not self.truth_sym(s[2])
            if op == "truth":
                return self.truth_sym(s[2])
            if op == "and":
                for x in s[2:]:
                    if not self.truth_sym(x):
                        return False
                return True
            if op == "or":
                for x in s[2:]:
                    if self.truth_sym(x):
                        return True
                return False
        if s[0] == "ife":
            return self.truth_sym(s[2]) if self.truth_sym(s[1]) else self.truth_sym(s[3])
        if s[0] == "call" and s[1] == N("bool") and len(s[2]) == 1 and not s[3]:
            return self.truth_sym(s[2][0])
        if s[0] in ("tuple", "list", "set"):
            return len(s[1]) > 0
        if _nonempty_text(s):
            return True
        if s[0] == "call" and s[1] == N("isinstance") and len(s[2]) == 2 and not s[3] and s[2][1][0] == "tuple" and s[2][1][1]:
            # isinstance(x, (A, B)) is isinstance(x, A) or isinstance(x, B): decided class by class, so that it relates to
            # what a scenario (or an earlier test) says about the single classes
            for c in s[2][1][1]:
                if self.truth_sym(("call", N("isinstance"), (s[2][0], c), ())):
                    return True
            return False
        return self.decide(s)

    def assume_test(self, t: Sym, want: bool) -> None:
        """record, without forking, the decisions under which the test `t` has the value `want` - used where the model only follows
        the executions for which it has (a loop left after the iterations that were unrolled): tried with every undecided atom
        false, then true; left alone when neither gives `want`"""
        for forced in (False, True):
            before = dict(self.decided)
            self._force = forced
            try:
                got = self.truth_sym(t)
            finally:
                self._force = None
            if got == want:
                return
            self.decided = before

    def decide(self, atom: Sym) -> bool:
        if atom in self.decided:
            return self.decided[atom]
        imp = self._implied(atom)
        if imp is not None:
            return imp
        if getattr(self, "_force", None) is not None:
            self.decided[atom] = self._force
            return self._force
        if self.pos < len(self.choices):
            v = self.choices[self.pos]
        else:
            v = False
            self.choices.append(False)
        self.pos += 1
        self.decided[atom] = v
        return v

    # a small sound implication theory (pruning only)
    def _implied(self, atom: Sym) -> Optional[bool]:
        kind, subj, arg = classify_atom(atom)
        if kind is None:
            return None
        for other, val in self.decided.items():
            k2, s2, a2 = classify_atom(other)
            if k2 is None or s2 != subj:
                continue
            if val:
                if k2 == "isnone":
                    if kind in ("truthy", "isinstance"):
                        return False
                    if kind == "eq" and arg is not None:
                        return False
                if k2 == "truthy" and kind == "isnone":
                    return False
                if k2 == "isinstance":
                    if kind == "isnone":
                        return False
                    if kind == "isinstance" and _disjoint(a2, arg):
                        return False
                if k2 == "eq":
                    if kind == "eq" and a2 != arg:
                        return False
                    if kind == "isnone" and a2 is not None:
                        return False
                    if kind == "in" and isinstance(arg, (tuple, frozenset)):
                        return a2 in arg
                if k2 == "in" and kind == "eq" and isinstance(a2, (tuple, frozenset)) and arg not in a2:
                    return False
            else:
                if k2 == "in" and kind == "eq" and isinstance(a2, (tuple, frozenset)) and arg in a2:
                    return False
                if k2 == "in" and kind == "in" and isinstance(a2, (tuple, frozenset)) and isinstance(arg, (tuple, frozenset)) and set(arg) <= set(a2):
                    return False
        return None


def _handler_names(h: ast.ExceptHandler) -> Tuple[str, ...]:
    if h.type is None:
        return ("BaseException",)
    if isinstance(h.type, ast.Tuple):
        return tuple(sorted(ast.unparse(e) for e in h.type.elts))
    return (ast.unparse(h.type),)


def _disjoint(a: Any, b: Any) -> bool:
    sa = set(a) if isinstance(a, tuple) else {a}
    sb = set(b) if isinstance(b, tuple) else {b}
    if not sa <= DISJOINT_CLASSES or not sb <= DISJOINT_CLASSES:
        return False
    if ("bytes" in sa and "bytearray" in sb) or ("bytearray" in sa and "bytes" in sb):
        pass
    return not (sa & sb)


def classify_atom(atom: Sym):
    """-> (kind, subject, argument) with kind in isnone|truthy|isinstance|eq|in or None"""
    if atom[0] == "op":
        op = atom[1]
        if op == "is" and len(atom) == 4 and atom[3] == C(None):
            return "isnone", atom[2], None
        if op == "==" and len(atom) == 4 and atom[3][0] == "c":
            v = atom[3][1]
            try:
                hash(v)
            except TypeError:
                return None, None, None
            return "eq", atom[2], v
        if op == "in" and len(atom) == 4 and atom[3][0] == "c":
            return "in", atom[2], atom[3][1]
        return None, None, None
    if atom[0] == "call" and atom[1] == N("isinstance") and len(atom[2]) == 2:
        cls = atom[2][1]
        if cls[0] == "n":
            return "isinstance", atom[2][0], cls[1]
        if cls[0] == "tuple" and all(x[0] == "n" for x in cls[1]):
            return "isinstance", atom[2][0], tuple(x[1] for x in cls[1])
        return None, None, None
    if atom[0] in ("n", "a", "sub", "item", "elem") or (atom[0] == "call"):
        return "truthy", atom, None
    return None, None, None


class _EvalBuilder(_Builder):
    """expression evaluation inside the interpreter: records call events, folds
    constants, applies bindings/aliases, inlines designated callees."""

    def __init__(self, interp: Interp, pure: bool = False):
        super().__init__(lambda n: interp.lookup(n) if interp.frames else None)
        self.i = interp
        self.pure = pure

    def ev(self, n: ast.AST) -> Sym:
        i = self.i
        if isinstance(n, ast.Call):
            s = super().ev(n)
            # functools.partial(f, a, k=v)(b) is f(a, b, k=v)
            if s[0] == "call" and s[1][0] == "call" and dotted(s[1][1]) in ("partial", "functools.partial") and s[1][2] and not any(k is None or k == "#" for k, _ in s[1][3]):
                inner = s[1]
                merged_kw = dict(inner[3])
                merged_kw.update(dict(s[3]))
                s = ("call", inner[2][0], tuple(inner[2][1:]) + tuple(s[2]), tuple(sorted(merged_kw.items(), key=lambda kv: str(kv[0]))))
            # struct.Struct(F).pack(v) / .unpack(b) / .iter_unpack(b) / .size are struct.pack(F, v) ... of the same format
            if s[0] == "call" and s[1][0] == "a" and s[1][2] in ("pack", "unpack", "iter_unpack", "unpack_from", "pack_into") and s[1][1][0] == "call" \
                    and dotted(s[1][1][1]) in ("struct.Struct", "Struct") and len(s[1][1][2]) == 1:
                s = ("call", A(N("struct"), s[1][2]), (s[1][1][2][0],) + tuple(s[2]), s[3])
            s = self._fold_call(s)
            if s[0] != "call":
                return s
            if not self.pure and i.derived_tables and s[1][0] == "a" and s[1][2] == "get" and s[1][1][0] == "a" and s[1][1][2] in i.derived_tables and len(s[2]) == 1 and not s[3]:
                owner = s[1][1][1]
                base_attr, kvar, vvar, val_ast, local_attr = i.derived_tables[s[1][1][2]]
                L = i._rewrite(("call", A(A(owner, base_attr), "get"), (s[2][0],), ()))
                if L[0] == "c" and L[1] is None or (L[0] != "c" and not i.decide(L)):
                    return C(None)

                def res_(nm: str):
                    if nm == kvar:
                        return s[2][0]
                    if nm == vvar:
                        return L
                    if nm == "self":
                        return owner
                    if nm in local_attr:
                        return A(owner, local_attr[nm])
                    return None

                def rw_(t):
                    if isinstance(t, tuple) and t and t[0] in ("tuple", "list"):
                        return (t[0], tuple(rw_(x) for x in t[1]))
                    if isinstance(t, tuple) and t and t[0] == "op":
                        return simplify(("op", t[1]) + tuple(rw_(x) for x in t[2:]))
                    if isinstance(t, tuple) and t and t[0] in ("n", "a", "sub", "item"):
                        t2 = t
                        if t[0] == "sub":
                            t2 = ("sub", rw_(t[1]), rw_(t[2]))
                        elif t[0] == "a":
                            t2 = ("a", rw_(t[1]), t[2])
                        return i._rewrite(t2)
                    return t
                return rw_(from_ast(val_ast, res_))
            if s[1][0] == "call" and dotted(s[1][1]) in ("partial", "functools.partial") and s[1][2] and not s[1][3]:
                # partial(F, a..)(b..) is F(a.., b..)
                s = ("call", s[1][2][0], tuple(s[1][2][1:]) + tuple(s[2]), s[3])
                s = self._fold_call(s) if hasattr(self, "_fold_call") else s
                if s[0] != "call":
                    return s
            if not self.pure and i.auto_inline and s[1][0] == "call" and s[1][1][0] == "n" and not s[1][3]:
                # F(..)(args): a factory / selector of the module; what it returns (a closure, a function reference) is applied
                inner = self._maybe_inline(s[1], n)
                if inner is not None and (inner[0] == "opaque" or (inner[0] in ("n", "a") and inner in _sym_function_refs())):
                    s = ("call", inner, s[2], s[3])
            if not self.pure:
                if i.force_bool_kwargs and any(k in i.force_bool_kwargs for k, _ in s[3]):
                    s = ("call", s[1], s[2], tuple((k, C(i.truth_sym(v)) if k in i.force_bool_kwargs else v) for k, v in s[3]))
                if i.fresh_calls and (dotted(s[1]).split(".")[-1] in i.fresh_calls):
                    k = i.fresh_count.get(s, 0)
                    i.fresh_count[s] = k + 1
                    s = ("call", s[1], s[2], s[3] + (("#", C(k)),))
                i.events.append(Event("call", s, getattr(n, "lineno", i.cur_line), i.depth, tuple(i.loops)))
                r = self._maybe_inline(s, n)
                if r is not None:
                    return r
                r = self._map_fold(s, n)
                if r is not None:
                    return r
            return i._rewrite(s)
        if isinstance(n, ast.BoolOp) and not self.pure:
            # value-level and/or: evaluate left to right, stop at a deciding constant
            op = "and" if isinstance(n.op, ast.And) else "or"
            vals = []
            for v in n.values:
                x = self.ev(v)
                vals.append(x)
                if x[0] == "c" and (bool(x[1]) != (op == "and")):
                    break
            return simplify(OP(op, *vals)) if len(vals) > 1 else vals[0]
        if isinstance(n, ast.IfExp) and not self.pure:
            t = self.ev(n.test)
            t = simplify(t)
            if t[0] == "c":
                return self.ev(n.body) if t[1] else self.ev(n.orelse)
            if i.fork_ifexp:
                return self.ev(n.body) if i.truth_sym(t) else self.ev(n.orelse)
            return simplify(("ife", t, self.ev(n.body), self.ev(n.orelse)))
        if isinstance(n, ast.Lambda) or isinstance(n, (ast.ListComp, ast.SetComp, ast.DictComp, ast.GeneratorExp)):
            return self._comp(n)
        if isinstance(n, ast.NamedExpr) and isinstance(n.target, ast.Name) and not self.pure and i.frames:
            v = self.ev(n.value)
            i._assign(n.target, v, n, quiet=True)
            return i.lookup(n.target.id) or v
        s = super().ev(n)
        if s[0] == "sub" and i.missing_tables and s[1][0] == "a" and s[1][2] in i.missing_tables and isinstance(n, ast.Subscript) and isinstance(n.ctx, ast.Load) and not self.pure:
            pname, expr = i.missing_tables[s[1][2]]
            fallback = from_ast(expr, lambda nm: s[2] if nm == pname else None)
            if fallback[0] == "call":
                i.events.append(Event("call", fallback, getattr(n, "lineno", i.cur_line), i.depth, tuple(i.loops)))
            s = i._rewrite(("op", "or", ("call", A(s[1], "get"), (s[2],), ()), i._rewrite(fallback)))
        if s[0] in ("n", "a", "sub", "item"):
            s = i._rewrite(s)
        if s[0] == "a" and s[2] in ("format", "size") and s[1][0] == "call" and dotted(s[1][1]) in ("struct.Struct", "Struct") and len(s[1][2]) == 1 \
                and s[1][2][0][0] == "c" and isinstance(s[1][2][0][1], str):
            # attributes of a compiled struct.Struct(F): its format text and the size that format packs to
            import struct as _struct
            try:
                return C(s[1][2][0][1]) if s[2] == "format" else C(_struct.calcsize(s[1][2][0][1]))
            except _struct.error:
                return s
        return s

    def _comp(self, n: ast.AST) -> Sym:
        i = self.i
        if isinstance(n, ast.Lambda):
            text = ast.unparse(n)
            snap = dict(i.frames[-1]) if i.frames else {}
            prev = i.lambdas.get(text)
            if prev is None and text not in i.lambdas:
                i.lambdas[text] = (n, snap)
            elif prev is not None and prev[0] is not n:
                i.lambdas[text] = None      # two different lambdas with the same text: never applied
            elif prev is not None:
                i.lambdas[text] = (n, snap)
            return ("opaque", text)
        # comprehension: evaluate element with generator targets bound to elem(iter)
        gens = n.generators  # type: ignore[attr-defined]
        frame = i.frames[-1] if i.frames else {}
        saved = dict(frame)
        if i.frames and len(gens) == 1 and not gens[0].is_async and isinstance(n, (ast.ListComp, ast.SetComp, ast.GeneratorExp)) and not self.pure:
            # over a constant sequence whose filter and element fold: the comprehension is the constant result (exact)
            it0 = self.ev(gens[0].iter)
            if it0[0] == "c" and isinstance(it0[1], tuple) and len(it0[1]) <= 32:
                out_c = []
                ok_c = True
                save_ev = len(i.events)
                try:
                    for x in it0[1]:
                        i._assign(gens[0].target, C(x), n, quiet=True)
                        keep = True
                        for c_ in gens[0].ifs:
                            t_ = simplify(self.ev(c_))
                            if t_[0] != "c":
                                ok_c = False
                                break
                            if not t_[1]:
                                keep = False
                                break
                        if not ok_c:
                            break
                        if keep:
                            e_ = simplify(self.ev(n.elt))  # type: ignore[attr-defined]
                            if e_[0] != "c":
                                ok_c = False
                                break
                            out_c.append(e_[1])
                finally:
                    frame.clear()
                    frame.update(saved)
                if ok_c:
                    return C(frozenset(out_c)) if isinstance(n, ast.SetComp) else C(tuple(out_c))
                del i.events[save_ev:]
        if i.frames and len(gens) == 1 and not gens[0].is_async and isinstance(n, ast.DictComp) and not self.pure:
            # a dict comprehension over a constant sequence whose filter and keys fold: the display with those keys (values stay terms)
            it0 = self.ev(gens[0].iter)
            if it0[0] == "call" and it0[1][0] == "a" and it0[1][2] == "items" and not it0[2] and not it0[3] and it0[1][1][0] == "dictd" \
                    and all(k_[0] == "c" for k_, _ in it0[1][1][1]) and not gens[0].ifs and isinstance(gens[0].target, ast.Tuple) and len(gens[0].target.elts) == 2:
                # {K(k, v): V(k, v) for k, v in {<const>: t, ..}.items()}: entry by entry
                ents_d = []
                ok_d = True
                save_ev = len(i.events)
                try:
                    for k_, v_ in it0[1][1][1]:
                        i._assign(gens[0].target, ("tuple", (k_, v_)), n, quiet=True)
                        kk_ = simplify(self.ev(n.key))
                        if kk_[0] != "c":
                            ok_d = False
                            break
                        ents_d = [e_ for e_ in ents_d if e_[0] != kk_] + [(kk_, self.ev(n.value))]
                finally:
                    frame.clear()
                    frame.update(saved)
                if ok_d:
                    return ("dictd", tuple(ents_d))
                del i.events[save_ev:]
            if it0[0] == "c" and isinstance(it0[1], tuple) and len(it0[1]) <= 64:
                ents_c = []
                ok_c = True
                save_ev = len(i.events)
                try:
                    for x in it0[1]:
                        i._assign(gens[0].target, C(x), n, quiet=True)
                        keep = True
                        for c_ in gens[0].ifs:
                            t_ = simplify(self.ev(c_))
                            if t_[0] != "c":
                                ok_c = False
                                break
                            if not t_[1]:
                                keep = False
                                break
                        if not ok_c:
                            break
                        if keep:
                            k_ = simplify(self.ev(n.key))
                            if k_[0] != "c":
                                ok_c = False
                                break
                            ents_c = [e_ for e_ in ents_c if e_[0] != k_] + [(k_, self.ev(n.value))]
                finally:
                    frame.clear()
                    frame.update(saved)
                if ok_c:
                    return ("dictd", tuple(ents_c))
                del i.events[save_ev:]
        try:
            its = []
            for g in gens:
                it = self.ev(g.iter)
                its.append(it)
                if i.frames:
                    i._assign(g.target, _elem_of(it), n, quiet=True)
                conds = [self.ev(c) for c in g.ifs]
            if isinstance(n, ast.DictComp):
                el: Sym = ("tuple", (self.ev(n.key), self.ev(n.value)))
                kind = "dictcomp"
            else:
                el = self.ev(n.elt)  # type: ignore[attr-defined]
                kind = {ast.ListComp: "listcomp", ast.SetComp: "setcomp", ast.GeneratorExp: "genexp"}[type(n)]
            conds_all = tuple(self.ev(c) for g in gens for c in g.ifs)
            return ("call", N("$" + kind), (el,) + tuple(its), tuple(("if", c) for c in conds_all))
        finally:
            if i.frames:
                frame.clear()
                frame.update(saved)

    def _fold_call(self, s: Sym) -> Sym:
        f, args, kw = s[1], s[2], s[3]
        if not kw and f == N("getattr") and len(args) == 2 and args[1][0] == "c" and isinstance(args[1][1], str) and args[1][1].isidentifier():
            return A(args[0], args[1][1])
        if not kw and f == N("getattr") and len(args) == 3 and args[1][0] == "c" and isinstance(args[1][1], str) and self.i.getattr_default_as_ifexp:
            # getattr(x, "name", d) is x.name when x has the attribute, else d
            cond_ = ("call", N("hasattr"), (args[0], args[1]), ())
            attr_ = self.i._rewrite(("a", args[0], args[1][1]))
            if self.i.fork_ifexp and not self.pure:
                return attr_ if self.i.truth_sym(cond_) else args[2]
            return ("ife", cond_, attr_, args[2])
        if not kw and f[0] == "a" and f[1] == N("re") and f[2] in ("match", "search", "fullmatch") and len(args) == 2 and all(a[0] == "c" and isinstance(a[1], str) for a in args):
            # a regular expression applied to a constant: the match (its groups) or None
            import re as _re
            from .sym import FoldedMatch
            try:
                m_ = getattr(_re, f[2])(args[0][1], args[1][1])
            except _re.error:
                return s
            return C(None) if m_ is None else C(FoldedMatch((m_.group(0),) + tuple(m_.groups())))
        if not kw and f[0] == "a" and f[1][0] == "c" and type(f[1][1]).__name__ == "FoldedMatch" and f[2] == "group" and len(args) <= 1 and all(a[0] == "c" and isinstance(a[1], int) for a in args):
            try:
                return C(f[1][1].groups[args[0][1] if args else 0])
            except IndexError:
                return s
        if not kw and f == N("hasattr") and len(args) == 2 and args[0][0] == "n" and args[0][1] in self.i.module_attrs and args[1][0] == "c" and isinstance(args[1][1], str):
            # hasattr(<imported module of this repository>, "NAME"): whether that module binds NAME at top level
            return C(args[1][1] in self.i.module_attrs[args[0][1]])
        if not kw and f[0] == "a" and f[2] == "get" and f[1][0] == "dictd" and len(args) in (1, 2) and args[0][0] == "c" and all(k_[0] == "c" for k_, _ in f[1][1]):
            # {..constant keys..}.get(<constant>, default)
            for k_, v_ in f[1][1]:
                if k_[1] == args[0][1] and type(k_[1]) is type(args[0][1]):
                    return v_
            return args[1] if len(args) == 2 else C(None)
        if not kw and f[0] == "a" and f[2] == "get" and f[1][0] == "dictd" and len(args) in (1, 2) and f[1][1]:
            # a display keyed by global names (classes / functions): {Union: .., list: ..}.get(<reference to such a global>, default)
            def _ref(t_):
                if t_[0] == "c" and type(t_[1]).__name__ == "SymName":
                    return str(t_[1])
                if t_[0] in ("n", "a"):
                    d_ = dotted(t_)
                    return d_ if d_ and "?" not in d_ and not d_.startswith("$") and d_ not in self.i.frames[-1] else None
                return None
            want_ = _ref(args[0])
            keys_ = [_ref(k_) for k_, _ in f[1][1]]
            if want_ is not None and all(k_ is not None for k_ in keys_) and (args[0][0] == "c" or want_ in keys_):
                for k_, (_, v_) in zip(keys_, f[1][1]):
                    if k_ == want_:
                        return v_
                return args[1] if len(args) == 2 else C(None)
        if not kw and len(args) == 1 and f[0] == "a" and f[2] == "join" and f[1][0] == "c" and isinstance(f[1][1], (bytes, str)) and len(f[1][1]) == 0 \
                and args[0][0] in ("list", "tuple") and args[0][1] and not any(x[0] == "star" for x in args[0][1]):
            # b"".join([a, b, c]) is a + b + c
            items = args[0][1]
            return items[0] if len(items) == 1 else simplify(OP("+", *items))
        if not kw and not args and f[0] == "a" and f[1][0] == "c" and isinstance(f[1][1], dict) and f[2] in ("items", "keys", "values") and len(f[1][1]) <= 64:
            d_ = f[1][1]
            return C(tuple(d_.items()) if f[2] == "items" else tuple(d_.keys()) if f[2] == "keys" else tuple(d_.values()))
        if not kw and len(args) == 1 and dotted(f) in ("os.path.commonprefix", "commonprefix"):
            # the longest common leading run of constant sequences (a pure standard-library function)
            seqs = None
            if args[0][0] in ("list", "tuple") and all(x[0] == "c" and isinstance(x[1], (tuple, str)) for x in args[0][1]):
                seqs = [x[1] for x in args[0][1]]
            elif args[0][0] == "c" and isinstance(args[0][1], tuple) and all(isinstance(x, (tuple, str)) for x in args[0][1]):
                seqs = list(args[0][1])
            if seqs is not None:
                if not seqs:
                    return C("")
                lo, hi = min(seqs), max(seqs)
                k = 0
                while k < len(lo) and k < len(hi) and lo[k] == hi[k]:
                    k += 1
                return C(lo[:k])
        if f[0] == "n" and not kw:
            name = f[1]
            if name in ("zip", "enumerate", "reversed", "sorted", "tuple", "list") and args and all(a[0] == "c" and isinstance(a[1], (tuple, str)) for a in args) \
                    and (name == "zip" or len(args) == 1):
                # pure builtins over constant sequences
                try:
                    return C(tuple({"zip": zip, "enumerate": enumerate, "reversed": reversed, "sorted": sorted, "tuple": tuple, "list": tuple}[name](*[a[1] for a in args])))
                except Exception:
                    return s
            if name == "sum" and len(args) in (1, 2) and args[0][0] == "call" and args[0][1] in (N("$genexp"), N("$listcomp")) and not args[0][3] and len(args[0][2]) >= 2:
                # sum(f(x) for x in xs) is what `total += f(x)` accumulates over a loop on xs
                acc: Sym = args[0][2][0]
                for it in reversed(args[0][2][1:]):
                    acc = ("acc", it, acc)
                return simplify(OP("+", args[1] if len(args) == 2 else C(0), acc))
            if name == "bool" and len(args) == 1 and args[0][0] == "c":
                return C(bool(args[0][1]))
            if name in ("bool", "len") and len(args) == 1 and args[0][0] in ("list", "tuple") and not any(x[0] == "star" for x in args[0][1]):
                return C(bool(args[0][1])) if name == "bool" else C(len(args[0][1]))
            if name == "isinstance" and len(args) == 2 and args[1][0] == "n":
                shape = {"list": "list", "tuple": "tuple", "set": "set", "dictd": "dict"}.get(args[0][0])
                if shape is not None and args[1][1] in ("list", "tuple", "set", "dict"):
                    return C(shape == args[1][1])
            if name == "len" and len(args) == 1 and args[0][0] == "c":
                try:
                    return C(len(args[0][1]))
                except Exception:
                    return s
            if name == "int" and len(args) == 1 and args[0][0] == "c" and isinstance(args[0][1], (int, str)):
                try:
                    return C(int(args[0][1]))
                except Exception:
                    return s
            if name == "str" and len(args) == 1 and args[0][0] == "c" and isinstance(args[0][1], (int, str)):
                return C(str(args[0][1]))
            if name == "divmod" and len(args) == 2 and args[1][0] == "c" and isinstance(args[1][1], int) and not isinstance(args[1][1], bool) and args[1][1] > 0:
                d = args[1][1]
                if args[0][0] == "c" and isinstance(args[0][1], int):
                    return C(divmod(args[0][1], d))
                if d & (d - 1) == 0:
                    # divmod(x, 2**k) == (x >> k, x & (2**k - 1)) for every int x
                    k = d.bit_length() - 1
                    return ("tuple", (simplify(OP(">>", args[0], C(k))), simplify(OP("&", args[0], C(d - 1)))))
            if name in ("tuple", "list") and len(args) == 1 and args[0][0] == "c" and isinstance(args[0][1], (tuple, frozenset)):
                return C(tuple(args[0][1]))
            if name in ("set", "frozenset") and len(args) == 1 and args[0][0] == "c" and isinstance(args[0][1], (tuple, frozenset)):
                return C(frozenset(args[0][1]))
        if f[0] == "a" and f[1][0] == "c" and isinstance(f[1][1], str) and f[2] == "format" and not kw and args and not any(a[0] == "star" for a in args):
            # "..{}..".format(x, y) with plain positional fields is the f-string with the same holes
            import re as _re
            pieces = _re.split(r"(\{\}|\{\{|\}\})", f[1][1])
            if "{" not in "".join(p_ for p_ in pieces if p_ not in ("{}", "{{", "}}")) and pieces.count("{}") == len(args):
                parts = []
                k = 0
                for p_ in pieces:
                    if p_ == "{}":
                        parts.append(("fmt", args[k], "", None))
                        k += 1
                    elif p_ in ("{{", "}}"):
                        parts.append(("c", p_[0]))
                    elif p_:
                        parts.append(("c", p_))
                return ("fstr", tuple(parts))
        if f[0] == "a" and f[1][0] == "c" and not kw and f[2] == "get" and len(args) == 2 and args[0][0] == "c" and args[1][0] != "c" \
                and isinstance(f[1][1], HDict):
            # table.get(<known key>, <symbolic default>)
            try:
                from .sym import const_or_name
                return const_or_name(f[1][1][args[0][1]]) if args[0][1] in f[1][1] else args[1]
            except Exception:
                return s
        if f[0] == "a" and f[1][0] == "c" and isinstance(f[1][1], int) and not isinstance(f[1][1], bool) and all(a[0] == "c" for a in args) and all(v_[0] == "c" for _, v_ in kw):
            # methods of a constant int: to_bytes / bit_length
            if f[2] in ("to_bytes", "bit_length"):
                try:
                    return C(getattr(f[1][1], f[2])(*[a[1] for a in args], **{k_: v_[1] for k_, v_ in kw}))
                except Exception:
                    return s
        if f[0] == "n" and f[1] in ("bytes", "bytearray") and not kw and len(args) == 1 and args[0][0] == "c" and isinstance(args[0][1], (tuple, bytes)):
            try:
                return C(bytes(args[0][1]))
            except Exception:
                return s
        if f[0] == "a" and f[1][0] == "c" and not kw and all(a[0] == "c" for a in args):
            recv = f[1][1]
            if isinstance(recv, str) and f[2] in ("upper", "lower", "strip", "lstrip", "rstrip", "replace", "startswith", "endswith", "split"):
                try:
                    return C(getattr(recv, f[2])(*[a[1] for a in args]))
                except Exception:
                    return s
            if isinstance(recv, str) and f[2] == "join" and len(args) == 1 and isinstance(args[0][1], tuple) and all(isinstance(x, str) for x in args[0][1]):
                return C(recv.join(args[0][1]))
            if isinstance(recv, str) and f[2] == "format" and False:
                pass
            if isinstance(recv, HDict) and f[2] == "get":
                try:
                    from .sym import const_or_name
                    return const_or_name(recv.get(*[a[1] for a in args]))
                except Exception:
                    return s
        return s

    def _map_fold(self, s: Sym, n: ast.Call) -> Optional[Sym]:
        """map(F, <constant tuple>) with an inlineable F -> constant tuple"""
        if s[1] != N("map") or len(s[2]) != 2 or s[3]:
            return None
        f, xs = s[2]
        if xs[0] != "c" or not isinstance(xs[1], tuple) or dotted(f) not in self.i.inline:
            return None
        out = []
        for x in xs[1]:
            r = self._maybe_inline(("call", f, (C(x),), ()), n)
            if r is None or r[0] != "c":
                return None
            out.append(r[1])
        return C(tuple(out))

    def _apply_lambda(self, s: Sym) -> Optional[Sym]:
        """application of a lambda that was created on this path: its body evaluated with the parameters bound, in the
        bindings the lambda closed over"""
        i = self.i
        ent = i.lambdas.get(s[1][1])
        if not ent:
            from .sym import MODULE_LAMBDAS
            nd = MODULE_LAMBDAS.get(s[1][1])
            ent = (nd, {}) if nd is not None else None
        if not ent or not i.frames or self.pure:
            return None
        node, snap = ent
        a = node.args
        if a.vararg or a.kwarg or a.kwonlyargs or s[3] or any(x[0] == "star" for x in s[2]):
            return None
        params = [p.arg for p in a.posonlyargs + a.args]
        if len(s[2]) > len(params) or len(s[2]) < len(params) - len(a.defaults):
            return None
        frame = dict(snap)
        defaults = [None] * (len(params) - len(a.defaults)) + list(a.defaults)
        for k, (p, d) in enumerate(zip(params, defaults)):
            frame[p] = s[2][k] if k < len(s[2]) else i._const_default(d)
        if len(i.inline_stack) >= i.max_depth + 2:
            return None
        i.frames.append(frame)
        i.defdepth.append({k: len(i.loops) for k in frame})
        i.inline_stack.append(id(node))
        try:
            return self.ev(node.body)
        finally:
            i.inline_stack.pop()
            i.frames.pop()
            i.defdepth.pop()

    def _maybe_inline(self, s: Sym, n: ast.Call) -> Optional[Sym]:
        i = self.i
        if s[1][0] == "opaque" and i.auto_inline:
            return self._apply_lambda(s)
        name = dotted(s[1])
        tgt = i.inline.get(name)
        transparent = False
        if tgt is None:
            tgt = self._auto_target(s, name)
            if tgt is None:
                return None
            transparent = True
        if (len(i.inline_stack) if transparent else i.depth) >= i.max_depth:
            return None
        mod, fn = tgt
        if transparent and (id(fn) in i.inline_stack or fn is getattr(i, "top_fn", None) or getattr(fn, "_vt_origin", fn) is getattr(getattr(i, "top_fn", None), "_vt_origin", None)):
            return None
        params = [p.arg for p in fn.args.posonlyargs + fn.args.args]
        is_method = bool(params) and params[0] in ("self", "cls") and s[1][0] == "a"
        argmap: Dict[str, Sym] = {}
        pos = list(s[2])
        if is_method:
            argmap[params[0]] = s[1][1]
            plist = params[1:]
        else:
            plist = params
        if any(k is None for k, _ in s[3]):
            return None
        extra = pos[len(plist):]
        pos = pos[:len(plist)]
        if any(a[0] == "star" for a in pos):
            return None
        if extra:
            if fn.args.vararg is None:
                return None
            if len(extra) == 1 and extra[0][0] == "star":
                argmap[fn.args.vararg.arg] = extra[0][1]          # f(a, *rest): rest is handed on as it is
            elif any(a[0] == "star" for a in extra):
                return None
            elif all(a[0] == "c" for a in extra):
                argmap[fn.args.vararg.arg] = C(tuple(a[1] for a in extra))
            else:
                argmap[fn.args.vararg.arg] = ("tuple", tuple(extra))
        elif fn.args.vararg is not None:
            argmap[fn.args.vararg.arg] = C(())
        for p, a in zip(plist, pos):
            argmap[p] = a
        named_ = set(plist) | {p_.arg for p_ in fn.args.kwonlyargs}
        rest_kw = []
        for k, v in s[3]:
            if k in named_ or fn.args.kwarg is None:
                argmap[k] = v
            else:
                rest_kw.append((C(k), v))
        if fn.args.kwarg is not None:
            argmap[fn.args.kwarg.arg] = ("dictd", tuple(rest_kw))     # f(.., a=x, b=y) with `**options`: options is {"a": x, "b": y}
        saved_consts = i.consts
        saved_mod = i.mod
        if transparent:
            i.inline_stack.append(id(fn))
        else:
            i.depth += 1
        try:
            if mod is not i.mod:
                i.consts = dict(mod.consts)
                i.mod = mod
            try:
                outcome, value, _ = i._run_function(fn, argmap)
            except _Raise:
                raise
            return value
        finally:
            if transparent:
                i.inline_stack.pop()
            else:
                i.depth -= 1
            i.consts = saved_consts
            i.mod = saved_mod

    def _auto_target(self, s: Sym, name: str):
        """a private helper of the same module (`_helper(...)`) or a private method of the class under analysis
        (`self._m(...)`, `self.__m(...)`, `cls._m(...)`) that is small, loop-light and not a generator"""
        i = self.i
        if not i.auto_inline or self.pure:
            return None
        fn = None
        f = s[1]
        if f[0] == "n" and not f[1].startswith("__") and i.mod.has(f[1]):
            cands = [x for x in i.mod.defs[f[1]] if isinstance(x, ast.FunctionDef)]
            fn = cands[0] if len(cands) == 1 else None
        elif f[0] == "a" and f[1] in (N("self"), N("cls")) and not (f[2].startswith("__") and f[2].endswith("__")) and i.cur_class:
            q = f"{i.cur_class}.{f[2]}"
            if i.mod.has(q):
                cands = [x for x in i.mod.defs[q] if isinstance(x, ast.FunctionDef)]
                fn = cands[0] if len(cands) == 1 else None
        elif f[0] == "a" and not (f[2].startswith("__") and f[2].endswith("__")) and not i.mod.has(f[2]):
            # a method on another object: resolved by name when exactly one class of the module defines it
            owners = [q for q in i.mod.defs if "." in q and q.rsplit(".", 1)[1] == f[2]]
            if len(owners) == 1:
                cands = [x for x in i.mod.defs[owners[0]] if isinstance(x, ast.FunctionDef)]
                fn = cands[0] if len(cands) == 1 else None
                if fn is not None and (not fn.args.args or fn.args.args[0].arg != "self"):
                    fn = None
        if fn is None:
            return None
        qual = next((q for q, nodes in i.mod.defs.items() if any(x is fn for x in nodes)), None)
        if qual is None or qual in _known_units().get(i.mod.rel, ()):
            return None      # a unit the rules know by name stays a named unit
        if fn.decorator_list and any(ast.unparse(d).split("(")[0].split(".")[-1] not in ("staticmethod", "classmethod") for d in fn.decorator_list):
            return None
        n_stmts = sum(1 for _ in ast.walk(fn) if isinstance(_, ast.stmt))
        if n_stmts > 40 or any(isinstance(x, (ast.Yield, ast.YieldFrom, ast.Await)) for x in ast.walk(fn)):
            return None
        if fn.args.kwarg:
            return None
        # the expanded form of the helper (its own helpers inlined, nested single-return defs read as lambdas)
        try:
            idx = [x for x in i.mod.defs[qual]].index(fn)
            ex = i.mod.func(qual, idx) if idx == 0 or len(i.mod.defs[qual]) > idx else fn
            if isinstance(ex, ast.FunctionDef):
                fn = ex
        except Exception:
            pass
        return (i.mod, fn)


_DERIVED_CACHE: Dict[int, Dict[str, Any]] = {}


def _derived_tables(mod) -> Dict[str, Any]:
    key = id(mod)
    if key in _DERIVED_CACHE:
        return _DERIVED_CACHE[key]
    out: Dict[str, Any] = {}
    nodes = mod.defs.get("ProtoClassMetadata.__init__")
    if nodes and isinstance(nodes[0], ast.FunctionDef):
        init = nodes[0]
        local_attr: Dict[str, str] = {}
        for st in ast.walk(init):
            if isinstance(st, ast.Assign) and len(st.targets) == 1 and isinstance(st.targets[0], ast.Attribute) and isinstance(st.targets[0].value, ast.Name) \
                    and st.targets[0].value.id == "self" and isinstance(st.value, ast.Name):
                local_attr[st.value.id] = st.targets[0].attr
        for st in init.body:
            if isinstance(st, ast.Assign) and len(st.targets) == 1 and isinstance(st.targets[0], ast.Attribute) and isinstance(st.targets[0].value, ast.Name) \
                    and st.targets[0].value.id == "self" and isinstance(st.value, ast.DictComp) and len(st.value.generators) == 1 and not st.value.generators[0].ifs:
                g = st.value.generators[0]
                it = g.iter
                if isinstance(it, ast.Call) and isinstance(it.func, ast.Attribute) and it.func.attr == "items" and isinstance(it.func.value, ast.Name) and it.func.value.id in local_attr \
                        and isinstance(g.target, ast.Tuple) and len(g.target.elts) == 2 and all(isinstance(e, ast.Name) for e in g.target.elts) \
                        and isinstance(st.value.key, ast.Name) and st.value.key.id == g.target.elts[0].id \
                        and not any(isinstance(x, (ast.GeneratorExp, ast.ListComp, ast.SetComp, ast.DictComp, ast.Lambda)) for x in ast.walk(st.value.value)):
                    out[st.targets[0].attr] = (local_attr[it.func.value.id], g.target.elts[0].id, g.target.elts[1].id, st.value.value, dict(local_attr))
    _DERIVED_CACHE.clear()
    _DERIVED_CACHE[key] = out
    return out


_MISSING_CACHE: Dict[int, Dict[str, Any]] = {}


def _missing_tables(mod) -> Dict[str, Any]:
    """attributes of the class metadata that hold an instance of a dict subclass with `__missing__(self, key): return EXPR`:
    T[K] is then `T.get(K) or EXPR(K)` (the stored values - field names - are never empty)"""
    key = id(mod)
    if key in _MISSING_CACHE:
        return _MISSING_CACHE[key]
    out: Dict[str, Any] = {}
    classes: Dict[str, Any] = {}
    for q, nodes in mod.defs.items():
        if q.endswith(".__missing__") and q.count(".") == 1 and isinstance(nodes[0], ast.FunctionDef):
            f = nodes[0]
            body = [b for b in f.body if not (isinstance(b, ast.Expr) and isinstance(b.value, ast.Constant))]
            if len(body) == 1 and isinstance(body[0], ast.Return) and body[0].value is not None and len(f.args.args) == 2:
                classes[q.split(".")[0]] = (f.args.args[1].arg, body[0].value)
    nodes = mod.defs.get("ProtoClassMetadata.__init__")
    if classes and nodes and isinstance(nodes[0], ast.FunctionDef):
        init = nodes[0]
        made: Dict[str, str] = {}
        for st in ast.walk(init):
            if isinstance(st, (ast.Assign, ast.AnnAssign)) and getattr(st, "value", None) is not None and isinstance(st.value, ast.Call) and isinstance(st.value.func, ast.Name) \
                    and st.value.func.id in classes:
                tg = st.targets[0] if isinstance(st, ast.Assign) else st.target
                if isinstance(tg, ast.Name):
                    made[tg.id] = st.value.func.id
                elif isinstance(tg, ast.Attribute) and isinstance(tg.value, ast.Name) and tg.value.id == "self":
                    out[tg.attr] = classes[st.value.func.id]
        for st in ast.walk(init):
            if isinstance(st, ast.Assign) and len(st.targets) == 1 and isinstance(st.targets[0], ast.Attribute) and isinstance(st.targets[0].value, ast.Name) \
                    and st.targets[0].value.id == "self" and isinstance(st.value, ast.Name) and st.value.id in made:
                out[st.targets[0].attr] = classes[made[st.value.id]]
    _MISSING_CACHE.clear()
    _MISSING_CACHE[key] = out
    return out


def _sym_function_refs():
    from .sym import FUNCTION_REFS
    return FUNCTION_REFS


def _pure_reads(fn: ast.AST, nm: str) -> List[ast.AST]:
    """reads of the local `nm` that cannot change it: argument of bool / len / tuple / sorted ..., operand of `not`, a test"""
    out: List[ast.AST] = []
    for n in ast.walk(fn):
        if isinstance(n, ast.Call) and isinstance(n.func, ast.Name) and n.func.id in ("bool", "len", "tuple", "sorted", "reversed", "enumerate", "any", "all", "sum", "min", "max", "bytes", "zip") \
                and not n.keywords:
            out += [a for a in n.args if isinstance(a, ast.Name) and a.id == nm]
        elif isinstance(n, ast.Call) and isinstance(n.func, ast.Attribute) and n.func.attr == "join" and isinstance(n.func.value, ast.Constant) and not n.keywords:
            out += [a for a in n.args if isinstance(a, ast.Name) and a.id == nm]
        elif isinstance(n, ast.UnaryOp) and isinstance(n.op, ast.Not) and isinstance(n.operand, ast.Name) and n.operand.id == nm:
            out.append(n.operand)
        elif isinstance(n, (ast.If, ast.While, ast.IfExp)) and isinstance(n.test, ast.Name) and n.test.id == nm:
            out.append(n.test)
    return out


def _nonempty_text(s: Sym) -> bool:
    """a string built by concatenation / f-string that contains a non-empty constant piece is never empty (truthy)"""
    if s[0] == "fstr":
        return any(x[0] == "c" and isinstance(x[1], str) and x[1] for x in s[1])
    if s[0] == "op" and s[1] == "+":
        return any((x[0] == "c" and isinstance(x[1], (str, bytes)) and len(x[1]) > 0) or _nonempty_text(x) for x in s[2:])
    return False


def _elem_of(it: Sym) -> Sym:
    """the element of an iterable; that of an unfiltered generator expression / list comprehension is its element term"""
    if it[0] == "call" and it[1] in (N("$genexp"), N("$listcomp")) and not it[3] and len(it[2]) == 2:
        return it[2][0]
    return ("elem", it)


_KNOWN_UNITS: Optional[Dict[str, Any]] = None


def _known_units() -> Dict[str, Any]:
    global _KNOWN_UNITS
    if _KNOWN_UNITS is None:
        import json
        from pathlib import Path as _P
        f = _P(__file__).with_name("known_units.json")
        _KNOWN_UNITS = {k: set(v) for k, v in json.loads(f.read_text())["units"].items()} if f.exists() else {}
    return _KNOWN_UNITS


# ---------------------------------------------------------------------------
# helpers for rules


def enumerate_paths(mod: Module, qual: str, index: int = 0, **kw: Any) -> List[Path]:
    fn = mod.func(qual, index)
    args = kw.pop("args", None)
    return Interp(mod, **kw).run(fn, args)


def feasible(val: Dict[Sym, bool]) -> bool:
    """re-check the implication theory on a complete valuation"""
    items = list(val.items())
    for a, (k1, v1) in enumerate(items):
        c1 = classify_atom(k1)
        if c1[0] is None or not v1:
            continue
        for k2, v2 in items[a + 1:]:
            c2 = classify_atom(k2)
            if c2[0] is None or not v2 or c1[1] != c2[1]:
                continue
            kinds = {c1[0], c2[0]}
            if kinds == {"isnone", "truthy"} or kinds == {"isnone", "isinstance"}:
                return False
            if c1[0] == c2[0] == "isinstance" and _disjoint(c1[2], c2[2]):
                return False
            if c1[0] == c2[0] == "eq" and c1[2] != c2[2]:
                return False
    return True
