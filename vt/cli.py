"""Command line: python -m vt.cli <ID> [--tier quick|thorough] [--replay path] | --list"""
from __future__ import annotations

import argparse
import importlib
import json
import os
import sys
import traceback
from pathlib import Path

from .report import Ctx, finish, VERIF
from .src import AnalysisError, Repo

PROPS = [f"C{n:02d}" for n in range(1, 21)]


def load_rules(prop: str):
    try:
        return importlib.import_module(f"vt.rules.{prop.lower()}")
    except ModuleNotFoundError as e:
        if e.name == f"vt.rules.{prop.lower()}":
            return None
        raise


def run_one(prop: str, tier: str, repo_root: str | None = None) -> int:
    try:
        mod = load_rules(prop)
    except Exception as e:  # a checker that cannot be loaded is broken, not a violation
        traceback.print_exc()
        print(f"ANALYSIS-ERROR property={prop} rules could not be loaded: {type(e).__name__}: {e}")
        return 2
    if mod is None:
        print(f"ANALYSIS-ERROR property={prop} no rules implemented")
        return 2
    ctx = Ctx(prop, tier, Repo(Path(repo_root)) if repo_root else None)
    err = None
    # watchdog: an analyser that does not terminate is a broken analyser (exit 2), never a hang
    import signal

    def _timeout(signum, frame):
        raise AnalysisError(f"analysis of {prop} exceeded the time limit")

    try:
        signal.signal(signal.SIGALRM, _timeout)
        signal.alarm(int(os.environ.get("VT_RULE_TIMEOUT", "180")))
    except (ValueError, AttributeError):
        pass
    try:
        mod.run(ctx)
    except AnalysisError as e:
        err = f"{e}"
    except Exception as e:  # a crash of the analyser is never a violation
        traceback.print_exc()
        err = f"analyser crashed: {type(e).__name__}: {e}"
    try:
        signal.alarm(0)
    except (ValueError, AttributeError):
        pass
    if ctx.deferred_errors:
        err = "; ".join(([err] if err else []) + ctx.deferred_errors)
    if tier == "thorough" and repo_root is None and not os.environ.get("VT_NO_SELFTEST"):
        # both-directions self-test of this property's rules on scratch-copy variants (DESIGN section 5)
        try:
            from .selftest import run_selftest

            n, ok, failures = run_selftest(prop)
            ctx.notes.append(f"selftest: {ok}/{n} expectations met (must-fire mutants, must-stay-silent refactors, seeded changes)")
            ctx.count(n)
            if failures:
                err = "; ".join(([err] if err else []) + [f"selftest: {f}" for f in failures[:5]])
        except Exception as e:
            traceback.print_exc()
            err = "; ".join(([err] if err else []) + [f"selftest crashed: {type(e).__name__}: {e}"])
    try:
        return finish(ctx, mod.EXPLANATION, mod.RULE_TEXT, err)
    except Exception as e:
        traceback.print_exc()
        print(f"ANALYSIS-ERROR property={prop} could not write evidence: {e}")
        return 2


def main(argv=None) -> int:
    ap = argparse.ArgumentParser()
    ap.add_argument("prop", nargs="?")
    ap.add_argument("--tier", default=os.environ.get("VERIF_TIER", "quick"))
    ap.add_argument("--replay")
    ap.add_argument("--list", action="store_true")
    a = ap.parse_args(argv)
    if a.list:
        for p in PROPS:
            m = load_rules(p)
            print(p, "implemented" if m else "-", getattr(m, "TECHNIQUE", "") if m else "")
        return 0
    if not a.prop:
        ap.error("property id required")
    if a.replay:
        rep = json.loads(Path(a.replay).read_text())
        print(f"replaying {rep['rule']} on {rep['construct']} (witness {rep['witness']})")
        code = run_one(rep["property"], "quick")
        return code
    if a.prop == "all":
        worst = 0
        for p in PROPS:
            if load_rules(p) is not None:
                worst = max(worst, run_one(p, a.tier))
        return worst
    return run_one(a.prop.upper(), a.tier)


if __name__ == "__main__":
    sys.exit(main())
