"""Linear normal forms of integer terms in one variable under a sign case, with
interval support - a small symbolic algebra (no solver, no evaluation on
sample points) used to decide whether two arithmetic arguments of a sizer /
encoder denote the same function.

lin(t, var, rng) -> (a, b) meaning a*var + b on the integer range rng, or None
when t is not linear on that range."""
from __future__ import annotations

from typing import Callable, List, Optional, Tuple

from .numeric import INF, interval
from .sym import C, N, Sym, dotted

Lin = Tuple[int, int]
Range = Tuple[int, int]


def _iv(t: Sym, var: Sym, rng: Range):
    return interval(t, lambda s: rng if s == var else None)


def lin(t: Sym, var: Sym, rng: Range) -> Optional[Lin]:
    iv = _iv(t, var, rng)
    if iv[0] == iv[1] and iv[0] not in (INF, -INF) and t != var:
        return (0, int(iv[0]))
    if t == var:
        return (1, 0)
    k = t[0]
    if k == "c":
        if isinstance(t[1], int) and not isinstance(t[1], bool):
            return (0, t[1])
        return None
    if k == "call":
        name = dotted(t[1])
        if name in ("int",) and len(t[2]) == 1:
            return lin(t[2][0], var, rng)
        if name == "abs" and len(t[2]) == 1:
            inner = lin(t[2][0], var, rng)
            if inner is None:
                return None
            lo, hi = _iv(t[2][0], var, rng)
            if lo >= 0:
                return inner
            if hi <= 0:
                return (-inner[0], -inner[1])
            return None
        return None
    if k == "ife":
        c = _cond(t[1], var, rng)
        if c is None:
            return None
        return lin(t[2] if c else t[3], var, rng)
    if k == "op":
        op = t[1]
        if op == "neg":
            x = lin(t[2], var, rng)
            return None if x is None else (-x[0], -x[1])
        if op == "pos":
            return lin(t[2], var, rng)
        if op == "~":
            x = lin(t[2], var, rng)
            return None if x is None else (-x[0], -x[1] - 1)
        if len(t) != 4:
            return None
        a, b = lin(t[2], var, rng), lin(t[3], var, rng)
        if op == "+" and a and b:
            return (a[0] + b[0], a[1] + b[1])
        if op == "-" and a and b:
            return (a[0] - b[0], a[1] - b[1])
        if op == "*" and a and b:
            if a[0] == 0:
                return (b[0] * a[1], b[1] * a[1])
            if b[0] == 0:
                return (a[0] * b[1], a[1] * b[1])
            return None
        if op == "<<" and a and b and b[0] == 0 and 0 <= b[1] <= 256:
            return (a[0] << b[1], a[1] << b[1])
        if op == ">>" and a and b and b[0] == 0 and 0 <= b[1] <= 256 and a[0] % (1 << b[1]) == 0:
            # (a*v + c) >> m with 2**m | a  ==  (a >> m)*v + (c >> m)   (floor shift)
            return (a[0] >> b[1], a[1] >> b[1])
        if op == "&" and a and b:
            for x, y in ((a, b), (b, a)):
                if y[0] == 0 and y[1] >= 0 and (y[1] & (y[1] + 1)) == 0 and x[0] % (y[1] + 1) == 0:
                    # (a*v + c) & (2**m - 1) with 2**m | a  ==  c & (2**m - 1)
                    return (0, x[1] & y[1])
        if op == "^" and a and b:
            # x ^ 0 = x ; x ^ -1 = ~x
            for x, y in ((a, b), (b, a)):
                if y == (0, 0):
                    return x
                if y == (0, -1):
                    return (-x[0], -x[1] - 1)
            return None
        if op == "|" and a and b:
            for x, y in ((a, b), (b, a)):
                if y == (0, 0):
                    return x
            return None
        if op == "&" and a and b:
            for x, y in ((a, b), (b, a)):
                if y == (0, -1):
                    return x
                if y == (0, 0):
                    return (0, 0)
            return None
    return None


def _cond(t: Sym, var: Sym, rng: Range) -> Optional[bool]:
    """truth value of a comparison on the whole range, if it is constant there"""
    neg = False
    while t[0] == "op" and t[1] == "not":
        neg = not neg
        t = t[2]
    if t[0] == "op" and t[1] == "<" and len(t) == 4:
        a, b = _iv(t[2], var, rng), _iv(t[3], var, rng)
        if a[1] < b[0]:
            r: Optional[bool] = True
        elif a[0] >= b[1]:
            r = False
        else:
            r = None
    elif t[0] == "op" and t[1] == "==" and len(t) == 4:
        a, b = _iv(t[2], var, rng), _iv(t[3], var, rng)
        if a[0] == a[1] == b[0] == b[1]:
            r = True
        elif a[1] < b[0] or b[1] < a[0]:
            r = False
        else:
            r = None
    else:
        return None
    if r is None:
        return None
    return (not r) if neg else r


def free_vars(t: Sym) -> List[Sym]:
    from .sym import walk

    out = []
    callees = {x[1] for x in walk(t) if x[0] == "call"}
    for x in walk(t):
        if x[0] == "n" and x not in out and x not in callees:
            out.append(x)
    return out


SIGN_CASES_64: List[Tuple[str, Range]] = [("v >= 0", (0, 2 ** 63 - 1)), ("v < 0", (-(2 ** 63), -1))]


def compare(t1: Sym, t2: Sym, var: Sym, cases: List[Tuple[str, Range]] = SIGN_CASES_64):
    """-> ('equal' | 'differ' | 'unknown', detail)"""
    unknown = False
    for cname, rng in cases:
        a, b = lin(t1, var, rng), lin(t2, var, rng)
        if a is None or b is None:
            unknown = True
            continue
        if a != b:
            return "differ", f"for {cname}: {a[0]}*v{a[1]:+d} vs {b[0]}*v{b[1]:+d}"
    return ("unknown", "not linear on some case") if unknown else ("equal", "")


def xor_mask_lemma(t: Sym, var: Sym, rng: Range) -> Optional[Tuple[Optional[Lin], Tuple[float, float]]]:
    """t = A ^ S  ->  (lin(A), interval(S)) so that the caller can apply: S == 0 -> A ; S == -1 -> ~A ;
    0 not in interval(S) -> t != A somewhere (everywhere) on the range"""
    if t[0] == "op" and t[1] == "^" and len(t) == 4:
        for a, s in ((t[2], t[3]), (t[3], t[2])):
            la = lin(a, var, rng)
            if la is not None:
                return la, _iv(s, var, rng)
    return None
