"""Presence and oneof rules: D1-D5 (C06), O1-O4 (C07)."""
from __future__ import annotations

import ast
from typing import Any, Dict, List, Optional, Set, Tuple

from ..absint import Interp, Path
from ..cfg import CFG, normal_edge, own_nodes
from ..effects import STATE_ATTRS, function_effects, state_writes
from ..fieldloop import FIELD_NAME, META, VALUE, interp_for, type_binding, val_text
from ..src import AnalysisError, M_INIT, PKG
from ..sym import A, C, CALL, N, OP, Sym, contains, dotted, show, simplify, subst, walk

SELF = N("self")
PLACEHOLDER = N("PLACEHOLDER")
INCL = ("call", A(SELF, "_include_default_value_for_oneof"), (), (("field_name", FIELD_NAME), ("meta", META)))


# ---------------------------------------------------------------------------
# D1 sentinel agreement


def _ife_values(s: Sym, cond: Sym, value: bool) -> Sym:
    """specialise a term under cond == value"""
    def f(t: Sym):
        if t == cond:
            return C(value)
        return None
    return _resimplify(subst(s, f))


def _resimplify(s):
    if not isinstance(s, tuple) or not s:
        return s
    if s[0] in ("op", "ife", "sub"):
        parts = tuple(_resimplify(x) if isinstance(x, tuple) else x for x in s)
        return simplify(parts)
    if s[0] == "call":
        return ("call", _resimplify(s[1]), tuple(_resimplify(a) for a in s[2]), tuple((k, _resimplify(v)) for k, v in s[3]))
    return s


def rule_D1(ctx) -> None:
    mod = ctx.repo.mod(M_INIT)
    ctx.analysed("dataclass_field", "Message.__setattr__", "Message.__post_init__", "Message.is_set")
    # writers -------------------------------------------------------------
    df = mod.func("dataclass_field")
    writers: Dict[bool, Dict[str, Set[str]]] = {False: {}, True: {}}
    for opt in (False, True):
        paths = Interp(mod, bindings={N("optional"): opt}).run(df)
        ctx.count(len(paths))
        vals = set()
        for p in paths:
            for e in p.calls("field"):
                d = dict(e.data[3]).get("default")
                if d is not None:
                    vals.add(show(d))
        if not vals:
            raise AnalysisError("dataclass_field: dataclasses.field(default=...) not found")
        writers[opt]["dataclass_field default"] = vals
    sa = mod.func("Message.__setattr__")
    paths = interp_for(mod).run(sa)
    ctx.count(len(paths))
    resets = set()
    for p in paths:
        for e in p.events:
            if e.kind == "call" and dotted(e.data[1]) in ("super().__setattr__", "object.__setattr__") and e.loops:
                resets.add(show(e.data[2][-1]))
    if not resets:
        raise AnalysisError("Message.__setattr__: sibling reset store not found")
    for opt in (False, True):
        writers[opt]["__setattr__ sibling reset (oneof members)"] = set(resets)
    # readers -------------------------------------------------------------
    readers: Dict[bool, Dict[str, Set[str]]] = {False: {}, True: {}}
    is_set = mod.func("Message.is_set")
    name_p = is_set.args.args[1].arg
    opt_sym = A(("sub", A(A(SELF, "_betterproto"), "meta_by_field_name"), N(name_p)), "optional")
    raw_is_set = ("call", A(SELF, "__raw_get"), (N(name_p),), ())
    for opt in (False, True):
        unset: Set[str] = set()
        for cand, atoms in (("PLACEHOLDER", {("op", "is", raw_is_set, PLACEHOLDER): True, ("op", "is", raw_is_set, C(None)): False}),
                            ("None", {("op", "is", raw_is_set, PLACEHOLDER): False, ("op", "is", raw_is_set, C(None)): True})):
            # the sentinel question is asked for a plain scalar member: not a wrapper, not a container / sub-message (V7 decides
            # those kinds) and, where is_set answers oneof members from the selection table, outside a group (D1b decides that)
            extra = {}
            for p0 in Interp(mod, bindings={opt_sym: opt}, assume=atoms).run(is_set):
                for k in p0.valuation:
                    txt = show(k)
                    if txt.startswith("isinstance(") or txt.endswith(".wraps"):
                        extra[k] = False
                    elif ".group is None" in txt:
                        extra[k] = True
                    elif ".group is not None" in txt:
                        extra[k] = False
            paths = Interp(mod, bindings={opt_sym: opt}, assume={**atoms, **extra}).run(is_set)
            ctx.count(len(paths))
            vals = set()
            for p in paths:
                if p.outcome != "return" or p.value is None:
                    continue
                wraps_sym = A(("sub", A(A(SELF, "_betterproto"), "meta_by_field_name"), N(name_p)), "wraps")
                vals.add(_eval_under(p.value, {**atoms, **extra, wraps_sym: False}))
            if vals == {False}:
                unset.add(cand)
            elif vals != {True}:
                ctx.inconclusive("D1", f"is_set[optional={opt}]", f"return value for raw == {cand} not decided: {[show(p.value) for p in paths]}", mod.loc(is_set))
                return
        readers[opt]["is_set"] = unset
    pi = mod.func("Message.__post_init__")
    for opt in (False, True):
        unset = set()
        for cand, atoms in (("PLACEHOLDER", {("op", "is", N("$raw"), PLACEHOLDER): True, ("op", "is", N("$raw"), C(None)): False}),
                            ("None", {("op", "is", N("$raw"), PLACEHOLDER): False, ("op", "is", N("$raw"), C(None)): True})):
            paths = interp_for(mod, bindings={A(META, "optional"): opt}, assume=atoms).run(pi)
            ctx.count(len(paths))
            considered_set = set()
            for p in paths:
                for e in p.events:
                    if e.kind == "store" and e.data[0] == ("sub", A(SELF, "__dict__"), C("_serialized_on_wire")):
                        considered_set.add(e.data[1])
            selected = any(e.kind == "store" and e.data[0][0] == "sub" and e.data[1] == FIELD_NAME and e.loops for p in paths for e in p.events)
            if considered_set == {C(False)} and selected:
                ctx.refuted("D1", f"__post_init__[optional={opt}]:selection-iff-set", f"selects-on-{cand}", mod.loc(pi),
                            f"__post_init__ records a oneof member as the selected one although its raw value {cand} counts as 'not passed' (optional={opt}): with members declared optional=True "
                            "(the pydantic mode) the last declared member always wins the group and the member really passed becomes unreadable",
                            "M(a=1) where a, b are optional=True members of one group: which_one_of gives b")
            if considered_set == {C(False)}:
                unset.add(cand)
            elif considered_set != {C(True)}:
                ctx.inconclusive("D1", f"__post_init__[optional={opt}]", f"presence store is {sorted(map(show, considered_set))} for raw value {cand}", mod.loc(pi))
                return
        readers[opt]["__post_init__"] = unset
    # comparison: every unset value a writer can store is unset for every reader
    for opt in (False, True):
        for rname, runset in readers[opt].items():
            missing = []
            for wname, wvals in writers[opt].items():
                for v in sorted(wvals - runset):
                    missing.append(f"{wname} writes {v}")
            name = f"{rname}[optional={opt}]"
            if missing:
                ctx.refuted("D1", name, ";".join(missing), mod.loc(mod.func("Message." + rname) if rname != "dataclass_field" else df),
                            f"{rname} treats only {sorted(runset)} as 'unset' when optional={opt}, but " + "; ".join(missing)
                            + " - a displaced oneof member declared optional=True still reads as set",
                            "class M: a: Optional[int] = int32_field(1, group='g', optional=True); b likewise; m = M(a=1); m.b = 2; m.is_set('a')")
            else:
                ctx.proved("D1", name, mod.loc(is_set), f"unset values {sorted(runset)} cover {sorted(set().union(*writers[opt].values()))}")


def _eval_under(v: Sym, atoms: Dict[Sym, bool]):
    """three-valued evaluation of a boolean term under fixed atoms (None = unknown)"""
    if v in atoms:
        return atoms[v]
    if v[0] == "c":
        return bool(v[1])
    if v[0] == "op":
        if v[1] == "not":
            r = _eval_under(v[2], atoms)
            return None if r is None else (not r)
        if v[1] in ("and", "or"):
            rs = [_eval_under(x, atoms) for x in v[2:]]
            if v[1] == "and":
                return False if False in rs else (None if None in rs else True)
            return True if True in rs else (None if None in rs else False)
        if v[1] == "is" and len(v) == 4 and v[3][0] == "ife":
            # raw is (A if c else B)
            c = _eval_under(v[3][1], atoms)
            if c is not None:
                return _eval_under(("op", "is", v[2], v[3][2] if c else v[3][3]), atoms)
    if v[0] == "ife":
        c = _eval_under(v[1], atoms)
        if c is not None:
            return _eval_under(v[2] if c else v[3], atoms)
    return None


def _unset_values(v: Sym) -> Set[str]:
    """values X for which the presence expression `v` is False, for shapes
    not (raw is X) / raw not in (X, Y) / conjunctions of those"""
    out: Set[str] = set()
    if v[0] == "op" and v[1] == "not":
        inner = v[2]
        if inner[0] == "op" and inner[1] == "is" and len(inner) == 4:
            out.add(show(inner[3]))
        elif inner[0] == "op" and inner[1] == "in" and len(inner) == 4:
            cont = inner[3]
            if cont[0] in ("tuple", "list", "set"):
                out |= {show(x) for x in cont[1]}
            elif cont[0] == "c" and isinstance(cont[1], (tuple, frozenset)):
                out |= {repr(x) for x in cont[1]}
        elif inner[0] == "op" and inner[1] == "or":
            for part in inner[2:]:
                out |= _unset_values(("op", "not", part))
    elif v[0] == "op" and v[1] == "and":
        for part in v[2:]:
            out |= _unset_values(part)
    return out


# ---------------------------------------------------------------------------
# D2 emission truth table


def _emitted(term: Optional[Sym]) -> bool:
    if term is None:
        return False
    # a field key (number << 3 | wire type) is part of what is written / counted, whichever way it is turned into bytes
    for t in walk(term):
        if t[0] == "op" and t[1] == "<<" and t[-1] == C(3):
            return True
    return False


def _atoms(**kw: bool) -> Dict[Sym, bool]:
    table = {
        "unselected": ("raises", ("AttributeError",), VALUE),
        "none": ("op", "is", VALUE, C(None)),
        "group": A(META, "group"),
        "optional": A(META, "optional"),
        "wraps": A(META, "wraps"),
        "is_msg": CALL(N("isinstance"), VALUE, N("Message")),
        "sow": A(VALUE, "_serialized_on_wire"),
        "incl": INCL,
        "eqdef": ("op", "==", VALUE, CALL(A(SELF, "_get_field_default"), FIELD_NAME)),
        "is_list": CALL(N("isinstance"), VALUE, N("list")),
        "is_dict": CALL(N("isinstance"), VALUE, N("dict")),
        "is_str": CALL(N("isinstance"), VALUE, N("str")),
        "eqempty": ("op", "==", VALUE, C("")),
    }
    return {table[k]: v for k, v in kw.items()}


# (name, expected emission, atoms, payload empty?)  payload only matters for length-delimited types
SCENARIOS: List[Tuple[str, bool, Dict[str, bool], Optional[bool]]] = [
    ("implicit scalar at default", False, dict(unselected=False, none=False, group=False, optional=False, wraps=False, is_msg=False, incl=False, eqdef=True, is_list=False, is_dict=False), True),
    ("implicit scalar non-default", True, dict(unselected=False, none=False, group=False, optional=False, wraps=False, is_msg=False, incl=False, eqdef=False, is_list=False, is_dict=False), False),
    ("optional unset (None)", False, dict(unselected=False, none=True, group=False, optional=True, wraps=False), None),
    ("optional set to the type default", True, dict(unselected=False, none=False, group=False, optional=True, wraps=False, is_msg=False, incl=False, eqdef=False, is_list=False, is_dict=False), True),
    ("optional set non-default", True, dict(unselected=False, none=False, group=False, optional=True, wraps=False, is_msg=False, incl=False, eqdef=False, is_list=False, is_dict=False), False),
    ("oneof member selected at default", True, dict(unselected=False, none=False, group=True, optional=False, wraps=False, is_msg=False, incl=True, eqdef=True, is_list=False, is_dict=False), True),
    ("oneof member selected non-default", True, dict(unselected=False, none=False, group=True, optional=False, wraps=False, is_msg=False, incl=True, eqdef=False, is_list=False, is_dict=False), False),
    ("oneof member not selected", False, dict(unselected=True, group=True), None),
]
MSG_SCENARIOS: List[Tuple[str, bool, Dict[str, bool], Optional[bool]]] = [
    ("wrapper unset (None)", False, dict(unselected=False, none=True, group=False, optional=False, wraps=True), None),
    ("wrapper set to the wrapped default", True, dict(unselected=False, none=False, group=False, optional=False, wraps=True, is_msg=False, incl=False, eqdef=False, is_list=False, is_dict=False), True),
    ("sub-message never touched (lazy default)", False, dict(unselected=False, none=False, group=False, optional=False, wraps=False, is_msg=True, sow=False, incl=False, eqdef=True, is_list=False, is_dict=False), True),
    ("sub-message present but empty", True, dict(unselected=False, none=False, group=False, optional=False, wraps=False, is_msg=True, sow=True, incl=False, is_list=False, is_dict=False), True),
    ("sub-message with content", True, dict(unselected=False, none=False, group=False, optional=False, wraps=False, is_msg=True, sow=True, incl=False, eqdef=False, is_list=False, is_dict=False), False),
    ("sub-message filled in place (never assigned, content)", True, dict(unselected=False, none=False, group=False, optional=False, wraps=False, is_msg=True, sow=False, incl=False, eqdef=False, is_list=False, is_dict=False), False),
    ("oneof sub-message selected, empty", True, dict(unselected=False, none=False, group=True, optional=False, wraps=False, is_msg=True, sow=False, incl=True, eqdef=True, is_list=False, is_dict=False), True),
]
CONTAINER_SCENARIOS = [
    ("repeated empty", False, dict(unselected=False, none=False, group=False, optional=False, is_msg=False, incl=False, eqdef=True, is_list=True), True),
    ("repeated non-empty", True, dict(unselected=False, none=False, group=False, optional=False, is_msg=False, incl=False, eqdef=False, is_list=True), False),
    ("map empty", False, dict(unselected=False, none=False, group=False, optional=False, is_msg=False, incl=False, eqdef=True, is_list=False, is_dict=True), True),
    ("map non-empty", True, dict(unselected=False, none=False, group=False, optional=False, is_msg=False, incl=False, eqdef=False, is_list=False, is_dict=True), False),
]
WIRE_CLASS_REPS = {"varint": "int32", "fixed32": "fixed32", "fixed64": "fixed64", "len:string": "string", "len:bytes": "bytes"}


def _is_payload_atom(k: Sym) -> bool:
    """the truth of a payload size: len(..) / the size helper, or a sum of those added up by hand"""
    if k[0] == "call" and dotted(k[1]) in ("len", "_len_preprocessed_single"):
        return True
    if k[0] == "acc" or (k[0] == "op" and k[1] == "+"):
        return any(t[0] == "call" and dotted(t[1]) in ("len", "_len_preprocessed_single") for t in walk(k))
    return False


def _payload_atoms(paths_probe: List[Path]) -> List[Sym]:
    """atoms that test whether the encoded payload is non-empty (inside the inlined single-field helper)"""
    out = []
    for p in paths_probe:
        for k in p.valuation:
            if k[0] == "call" and dotted(k[1]) in ("len", "_len_preprocessed_single") and k not in out:
                out.append(k)
    return out


def rule_D2(ctx, rule: str = "D2", only: Optional[Set[str]] = None) -> None:
    mod = ctx.repo.mod(M_INIT)
    emitters = {
        "dump": (mod.func("Message.dump"), {"_serialize_single": (mod, mod.func("_serialize_single"))}),
        # (the sizer may measure what the writer's helper produces: len(_serialize_single(..)) counts the key as well)
        "__len__": (mod.func("Message.__len__"), {"_len_single": (mod, mod.func("_len_single")), "_serialize_single": (mod, mod.func("_serialize_single"))}),
    }
    ctx.analysed("Message.dump", "Message.__len__", "_serialize_single", "_len_single")
    dump = emitters["dump"][0]
    dparams = [a.arg for a in dump.args.args]
    n_ob = 0
    for ename, (fn, inl) in emitters.items():
        if ename == "__len__":
            rets = [n for n in ast.walk(fn) if isinstance(n, ast.Return) and n.value is not None]
            if len(rets) == 1 and ast.unparse(rets[0].value) in ("len(bytes(self))", "len(self.__bytes__())"):
                ctx.proved(rule, "__len__:defined-through-dump", mod.loc(fn), "the sizer delegates to the writer; its presence table is dump's")
                n_ob += 40
                continue
        delimit_off: Dict[Sym, bool] = {}
        if ename == "dump" and len(dparams) > 2:
            delimit_off[("op", "==", N(dparams[2]), C(mod.consts.get("SIZE_DELIMITED")))] = False
        stream = dparams[1]
        cases = []
        for cls, t in WIRE_CLASS_REPS.items():
            for sc in SCENARIOS:
                cases.append((cls, t, sc))
        for sc in MSG_SCENARIOS:
            cases.append(("len:message", "message", sc))
        for sc in CONTAINER_SCENARIOS:
            t = "map" if "map" in sc[0] else "int32"
            cases.append(("container", t, sc))
        # an element of a repeated string / bytes / message field is a record of its own even when its payload is empty
        for t in ("string", "bytes", "message"):
            cases.append((f"container:{t}", t, ("repeated with an empty element", True, dict(unselected=False, none=False, group=False, optional=False, wraps=False, is_msg=False,
                                                                                             incl=False, eqdef=False, is_list=True), True)))
        for cls, t, (sname, want, atoms, payload_empty) in cases:
            if only is not None and sname not in only:
                continue
            assume = dict(_atoms(**atoms))
            assume.update(delimit_off)
            # strings: the empty-string special case; an empty payload of a str is ""
            if t == "string":
                assume[_atoms(is_str=True).popitem()[0]] = True
                if payload_empty is not None:
                    assume[_atoms(eqempty=True).popitem()[0]] = bool(payload_empty)
            else:
                assume[_atoms(is_str=True).popitem()[0]] = False
            paths = interp_for(mod, bindings=type_binding(t), inline=inl, assume=assume, max_depth=1).run(fn)
            ctx.count(len(paths))
            results = set()
            free_atoms = set()
            for p in paths:
                if p.outcome == "raise":
                    continue
                # payload atoms (inside the helper): keep only paths that agree with the scenario's payload emptiness
                pay = [k for k in p.valuation if _is_payload_atom(k)]
                if payload_empty is not None and any(p.valuation[k] == payload_empty for k in pay):
                    continue
                if ename == "dump":
                    em = any(e.kind == "call" and e.depth == 0 and dotted(e.data[1]) == f"{stream}.write" and _emitted(e.data[2][0]) for e in p.events)
                else:
                    em = _emitted(p.value)
                results.add(em)
                free_atoms |= {k for k in p.valuation if k not in pay}
            n_ob += 1
            name = f"{ename}[{cls}]:{sname}"
            loc = mod.loc(fn)
            if not results:
                ctx.inconclusive(rule, name, "no feasible path for the scenario", loc)
            elif results == {want}:
                ctx.proved(rule, name, loc)
            elif len(results) == 2:
                ctx.inconclusive(rule, name, f"emission depends on atoms outside the scenario: {[show(a) for a in sorted(free_atoms, key=repr)][:4]}", loc)
            else:
                ctx.refuted(rule, name, f"emitted={not want}", loc,
                            f"{ename}: a {cls} field in the state '{sname}' is {'emitted' if not want else 'NOT emitted (nothing keyed by the field number is written / counted)'}; the proto3 presence table says it must {'be emitted' if want else 'be skipped'}",
                            _example(sname, t))
    ctx.floor(rule, "scenario x wire class x emitter", n_ob, 1 if only else 80)


def _example(sname: str, t: str) -> str:
    return f"message with a {t} field in state: {sname}; compare bytes(m) / len(m) / parse(bytes(m))"


# ---------------------------------------------------------------------------
# D3 lazy defaults are raw


def rule_D3(ctx) -> None:
    mod = ctx.repo.mod(M_INIT)
    fn = mod.func("Message.__getattribute__")
    ctx.analysed("Message.__getattribute__")
    eff = function_effects(fn)
    tracked = [e for e in eff if e.kind in ("tracked-store", "state-store")]
    raw = [e for e in eff if e.kind == "raw-store"]
    if tracked:
        ctx.refuted("D3", "__getattribute__:materialisation-is-raw", "tracked-store", f"{mod.rel}:{tracked[0].line}",
                    f"reading an attribute performs a tracked store ({tracked[0].detail}): Message.__setattr__ flips _serialized_on_wire and oneof state, so a read changes presence",
                    "m = Outer(); m.inner.x; bytes(m) now contains an empty `inner`")
    elif not raw:
        ctx.inconclusive("D3", "__getattribute__:materialisation-is-raw", "no materialising store found", mod.loc(fn))
    else:
        ctx.proved("D3", "__getattribute__:materialisation-is-raw", mod.loc(fn), raw[0].detail)
    # the materialisation is guarded by "raw value is the placeholder"
    paths = Interp(mod).run(fn)
    ctx.count(len(paths))
    bad = []
    for p in paths:
        stores = [e for e in p.events if e.kind == "call" and dotted(e.data[1]) in ("super().__setattr__", "object.__setattr__")]
        if stores:
            # (tests of the selection table against the placeholder - "__post_init__ has not run" - are not about the field's value)
            ph = [v for k, v in p.valuation.items() if k[0] == "op" and k[1] == "is" and k[3] == PLACEHOLDER and "'_group_current'" not in show(k[2])]
            if ph != [True]:
                bad.append(p)
    if bad:
        ctx.refuted("D3", "__getattribute__:materialise-only-placeholder", "unguarded", mod.loc(fn), "a default is stored although the raw value is not the placeholder: " + val_text(bad[0].valuation))
    else:
        ctx.proved("D3", "__getattribute__:materialise-only-placeholder", mod.loc(fn))


# ---------------------------------------------------------------------------
# D4 every decoder sets presence


def rule_D4(ctx, rule: str = "D4") -> None:
    mod = ctx.repo.mod(M_INIT)
    targets = [("Message.load", 0), ("Message.from_dict", 0), ("Message.from_dict", 1), ("Message.from_pydict", 0)]
    for q, idx in targets:
        fn = mod.func(q, idx)
        ctx.analysed(q)
        paths = Interp(mod).run(fn)
        ctx.count(len(paths))
        bad = 0
        n = 0
        for p in paths:
            if p.outcome == "raise":
                continue
            n += 1
            ret = p.value
            ok = False
            for e in p.events:
                if e.kind == "store" and e.data[0][0] == "a" and e.data[0][2] == "_serialized_on_wire" and e.data[1] == C(True):
                    if e.data[0][1] == ret or e.data[0][1] == SELF:
                        ok = True
            if not ok:
                bad += 1
        form = "classmethod" if (q.endswith("from_dict") and idx == 0) else "instance" if q.endswith("from_dict") else ""
        name = f"{q.split('.')[-1]}{'(' + form + ')' if form else ''}:sets-presence"
        if bad:
            ctx.refuted(rule, name, "missing", mod.loc(fn),
                        f"{bad} of {n} normal paths return a message without `_serialized_on_wire = True`: a sub-message present as an empty object/payload loses its presence",
                        "Outer.from_dict({'inner': {}}) then bytes(...) / serialized_on_wire(outer.inner)")
        else:
            ctx.proved(rule, name, mod.loc(fn), f"{n} normal paths")
    # from_json delegates to from_dict
    fj = mod.func("Message.from_json")
    paths = Interp(mod).run(fj)
    if all(p.outcome == "return" and p.value is not None and p.value[0] == "call" and dotted(p.value[1]) == "self.from_dict" for p in paths):
        ctx.proved(rule, "from_json->from_dict", mod.loc(fj))
    else:
        ctx.refuted(rule, "from_json->from_dict", "no-delegation", mod.loc(fj), "from_json does not return self.from_dict(json.loads(value))")
    # both from_dict forms use the one decoder
    for idx in (0, 1):
        fn = mod.func("Message.from_dict", idx)
        if any(isinstance(n, ast.Call) and isinstance(n.func, ast.Attribute) and n.func.attr == "_from_dict_init" for n in ast.walk(fn)):
            ctx.proved(rule, f"from_dict[{idx}]->_from_dict_init", mod.loc(fn))
        else:
            ctx.refuted(rule, f"from_dict[{idx}]->_from_dict_init", "no-delegation", mod.loc(fn), "this from_dict form does not go through _from_dict_init")


# ---------------------------------------------------------------------------
# D5 default generator covers the annotation shapes the plugin emits


def rule_D5(ctx) -> None:
    """the default generator chosen for each kind of annotation the plugin emits: evaluated per kind with what the function
    can observe about the annotation bound (its __origin__, whether it is a PEP 604 union, an Enum subclass, datetime)"""
    from ..src import SymName
    mod = ctx.repo.mod(M_INIT)
    fn = mod.func("Message._get_field_default_gen")
    ctx.analysed("Message._get_field_default_gen")
    # the annotation: the value the function obtains from cls._type_hint(..)
    probe = Interp(mod).run(fn)
    tterms = {t for p in probe for k in p.valuation for t in walk(k) if t[0] == "call" and dotted(t[1]).endswith("_type_hint")}
    tterms |= {p.value for p in probe if p.value is not None and p.value[0] == "call" and dotted(p.value[1]).endswith("_type_hint")}
    if len(tterms) != 1:
        ctx.inconclusive("D5", "default-gen", f"the annotation lookup is not a single cls._type_hint(...) term ({len(tterms)})", mod.loc(fn))
        return
    T = next(iter(tterms))
    has_origin = CALL(N("hasattr"), T, C("__origin__"))
    is604 = CALL(N("isinstance"), T, N("_types_UnionType"))
    is_enum = CALL(N("issubclass"), T, N("Enum"))
    is_dt = ("op", "is", T, N("datetime"))
    attr_err = ("raises", ("AttributeError",), A(T, "__origin__"))

    def scenario(origin=None, pep604=False, enum=False, dt=False):
        b = {}
        assume = {is604: pep604, is_enum: enum, is_dt: dt, has_origin: origin is not None, attr_err: origin is None}
        if origin is not None:
            b[A(T, "__origin__")] = SymName(origin)
        # typing.get_origin(t): the origin of a generic alias, types.UnionType for `X | None`, None for a plain class
        go = SymName(origin) if origin is not None else SymName("_types_UnionType") if pep604 else None
        for f_ in (A(N("typing"), "get_origin"), N("get_origin")):
            b[CALL(f_, T)] = go
        return b, assume

    shapes = {
        "Optional / union": (scenario(origin="Union"), "type(None)"),
        "PEP 604 union": (scenario(pep604=True), "type(None)"),
        "list": (scenario(origin="list"), "list"),
        "dict": (scenario(origin="dict"), "dict"),
        "enum": (scenario(enum=True), "try_value"),
        "datetime": (scenario(dt=True), "datetime_default_gen"),
        "message / scalar": (scenario(), "$T"),
    }
    for shape, ((b, assume), expected) in shapes.items():
        paths = Interp(mod, bindings=b, assume=assume, fork_ifexp=True, getattr_default_as_ifexp=True).run(fn)
        # reading t.__origin__ inside a try raises AttributeError exactly when the annotation has no origin
        raising = {k for p in paths for k in p.valuation if k[0] == "raises" and "AttributeError" in k[1]}
        if raising:
            assume = dict(assume)
            assume.update({k: not b for k in raising})
            paths = Interp(mod, bindings=b, assume=assume, fork_ifexp=True, getattr_default_as_ifexp=True).run(fn)
        ctx.count(len(paths))
        rets = set()
        for p in paths:
            if p.outcome != "return" or p.value is None:
                rets.add(f"<{p.outcome}>")
                continue
            # atoms about raising must agree with the scenario: an AttributeError from t.__origin__ only without an origin
            v_ = p.value
            rets.add(str(v_[1]) if v_[0] == "c" and type(v_[1]).__name__ == "SymName" else show(v_))
        name = f"default-gen[{shape if shape != 'PEP 604 union' else 'PEP 604 union recognised'}]"
        want_txt = show(T) if expected == "$T" else expected
        ok = bool(rets) and all((r == want_txt) if expected == "$T" else (r.endswith(expected) or r == expected) for r in rets)
        if ok:
            ctx.proved("D5", name, mod.loc(fn), ",".join(sorted(rets)))
        elif not rets:
            ctx.refuted("D5", name, "unhandled", mod.loc(fn), f"_get_field_default_gen has no path for {shape} annotations, which the plugin emits")
        else:
            ctx.refuted("D5", name, ",".join(sorted(rets))[:100], mod.loc(fn), f"a {shape} annotation yields the default generator {sorted(rets)}, expected {want_txt}")


def rule_D8(ctx) -> None:
    """a field default is a fresh value per call: what _get_field_default returns is the result of calling the generator on that
    very path - not a value read from state shared by the instances of the class, and not stored there either.  The lazily
    materialised default becomes part of one instance and is filled in place; a shared one leaks content between messages."""
    mod = ctx.repo.mod(M_INIT)
    fn = mod.func("Message._get_field_default")
    ctx.analysed("Message._get_field_default")
    paths = Interp(mod, fork_ifexp=True).run(fn)
    ctx.count(len(paths))
    name = "_get_field_default:fresh-per-call"
    shared, stored, unknown = [], [], []
    n_ret = 0

    def immutable_only(p) -> bool:
        # the path is taken only for values that cannot be filled in place (an isinstance / issubclass test against Message failed)
        return any((k[0] == "call" and dotted(k[1]) in ("isinstance", "issubclass") and "Message" in show(k) and not v) for k, v in p.valuation.items())

    for p in paths:
        if p.outcome != "return" or p.value is None:
            continue
        n_ret += 1
        v = p.value
        accessor = v[0] == "call" and v[1][0] == "a" and v[1][2] in ("get", "setdefault", "pop", "__getitem__")
        made_here = v[0] == "call" and not accessor and any(e.kind == "call" and e.data == v for e in p.events)
        if not made_here:
            if v[0] in ("sub", "a") or accessor:
                if not immutable_only(p):
                    shared.append((p, v))
            else:
                unknown.append((p, v))
            continue
        for e in p.events:
            if e.kind == "store" and e.data[1] == v and e.data[0][0] in ("sub", "a"):
                if not immutable_only(p):
                    stored.append((p, e.data[0]))
            if e.kind == "call" and e.data[1][0] == "a" and e.data[1][2] in ("setdefault", "__setitem__", "append", "add") and v in e.data[2]:
                if not immutable_only(p):
                    stored.append((p, e.data[1][1]))
    if n_ret == 0:
        raise AnalysisError("_get_field_default: no returning path")
    if shared:
        p, v = shared[0]
        ctx.refuted("D8", name, "shared:" + show(v)[:60], mod.loc(fn), f"_get_field_default can return {show(v)}, a value kept in state shared by all instances, instead of a freshly generated one: "
                    "the default sub-message materialised into one message is the same object in every other message of the class", "a = M(); a.child.items.append(1); M().child.items")
    elif stored:
        p, t = stored[0]
        ctx.refuted("D8", name, "stored:" + show(t)[:60], mod.loc(fn), f"the generated default is also stored in {show(t)} (shared by the instances of the class) and handed out again later: "
                    "defaults filled in place leak between messages", "a = M(); a.child.items.append(1); M().child.items")
    elif unknown:
        ctx.inconclusive("D8", name, f"returned default {show(unknown[0][1])[:80]} is neither generated on the path nor a plain shared read", mod.loc(fn))
    else:
        ctx.proved("D8", name, mod.loc(fn), f"{n_ret} returning paths, each returns the generator's result of that call")


# ---------------------------------------------------------------------------
# O1 who may write


ALLOWED_WRITERS = {
    "_group_current": {"Message.__post_init__", "Message.__setattr__", "Message.__copy__", "Message.__deepcopy__"},
    "_unknown_fields": {"Message.__post_init__", "Message.load", "Message.__copy__", "Message.__deepcopy__"},
    "_serialized_on_wire": {"Message.__post_init__", "Message.__setattr__", "Message._postprocess_single", "Message.load",
                            "Message.from_dict", "Message.from_pydict", "Message.__copy__", "Message.__deepcopy__"},
    "<field>": {"Message.__getattribute__", "Message.__setattr__"},
}
# reasons (one line each): __post_init__ initialises all three; __setattr__ records selection / marks presence / resets
# siblings / performs the final store; _postprocess_single marks a received sub-message; load/from_dict/from_pydict mark
# the receiving message; __getattribute__ materialises the accessed default raw; the copy routines transfer state.
OTHER_RAW = {
    ("src/betterproto/plugin/models.py", "monkey_patch_oneof_index"): "patches FieldMetadata.group of two descriptor fields, not a message",
    ("src/betterproto/enum.py", "EnumType.__new__"): "type.__setattr__ on the enum metaclass while building members",
    ("src/betterproto/enum.py", "Enum.__new__"): "member construction",
}


def _effective_writers(mod, func: str, depth: int = 0) -> Optional[Set[str]]:
    """the known units on whose behalf `func` writes: itself when it is a unit the rules know; for a helper introduced
    later, the functions of the module that call it (transitively).  None when nobody calls it."""
    from ..absint import _known_units
    known = _known_units().get(mod.rel, set())
    if func in known or depth > 3:
        return {func}
    short = func.rsplit(".", 1)[-1]
    cls = func.rsplit(".", 1)[0] if "." in func else None
    mangled = f"_{cls}{short}" if cls and short.startswith("__") and not short.endswith("__") else None
    callers: Set[str] = set()
    for q, fn in mod.functions():
        if q == func:
            continue
        for c in ast.walk(fn):
            if isinstance(c, ast.Attribute) and c.attr in (short, mangled) and cls and (q.startswith(cls + ".") or mangled and c.attr == mangled):
                callers.add(q)
            elif isinstance(c, ast.Name) and c.id == short and cls is None:
                callers.add(q)
    if not callers:
        return None
    out: Set[str] = set()
    for q in callers:
        sub = _effective_writers(mod, q, depth + 1)
        if sub is None:
            return None
        out |= sub
    return out


def rule_O1(ctx) -> None:
    n = {k: 0 for k in ALLOWED_WRITERS}
    for rel in ctx.repo.all_py():
        if "/lib/" in rel:
            # generated classes: only plain tracked attribute stores are possible; scan for raw/state stores all the same
            pass
        mod = ctx.repo.mod(rel)
        for w in state_writes(mod):
            key = (w.module, w.func)
            if w.attr == "<field>":
                if key in OTHER_RAW:
                    continue
                # a helper of a listed function (called by nothing else in the module) writes on its behalf
                callers_ = {q for q, fn_ in mod.functions() if q != w.func and any(
                    isinstance(c_, ast.Call) and ((isinstance(c_.func, ast.Name) and c_.func.id == w.func) or (isinstance(c_.func, ast.Attribute) and c_.func.attr == w.func.rsplit(".", 1)[-1]))
                    for c_ in ast.walk(fn_))}
                if callers_ and all((w.module, q) in OTHER_RAW for q in callers_):
                    continue
                eff = _effective_writers(mod, w.func) if w.module == M_INIT else None
                if w.module == M_INIT and eff and eff <= ALLOWED_WRITERS["<field>"]:
                    n["<field>"] += 1
                    continue
                if w.form == "dict" and not w.module.endswith("betterproto/__init__.py"):
                    continue
                ctx.refuted("O1", f"raw-field-store:{w.func}", w.form, f"{w.module}:{w.line}",
                            f"{w.func} stores a field raw ({w.target} via {w.form}), bypassing Message.__setattr__: oneof selection and presence are not updated",
                            "set the member through this path and call which_one_of / bytes")
                continue
            n[w.attr] += 1
            eff = _effective_writers(mod, w.func) if w.module == M_INIT else None
            if w.module == M_INIT and eff and eff <= ALLOWED_WRITERS[w.attr]:
                continue
            ctx.refuted("O1", f"writer[{w.attr}]:{w.func}", w.form, f"{w.module}:{w.line}",
                        f"{w.func} writes {w.attr} ({w.target}); only {sorted(ALLOWED_WRITERS[w.attr])} may")
    ctx.floor("O1", "_group_current writers", n["_group_current"], 2)
    ctx.floor("O1", "_unknown_fields writers", n["_unknown_fields"], 2)
    ctx.floor("O1", "_serialized_on_wire writers", n["_serialized_on_wire"], 6)
    ctx.floor("O1", "raw field stores", n["<field>"], 3)
    for k, v in n.items():
        ctx.proved("O1", f"writers[{k}]", M_INIT, f"{v} write sites, all in the allowed functions") if not any(
            o.rule == "O1" and o.verdict != "PROVED" and k in o.construct for o in ctx.obs) else None
    # positive control: the embedded example must be flagged
    import pathlib
    from ..src import Module
    ctl = pathlib.Path(__file__).resolve().parent.parent / "controls" / "rogue_writer.py"
    cm = Module("controls/rogue_writer.py", ctl)
    if len([w for w in state_writes(cm) if w.attr != "<field>"]) < 2 or not any(w.attr == "<field>" for w in state_writes(cm)):
        raise AnalysisError("O1 positive control not flagged: who-may-write scan is broken")


# ---------------------------------------------------------------------------
# O2 __setattr__ bookkeeping on all paths


def _table_snapshot(mod, table: str):
    """how ProtoClassMetadata.__init__ fills self.<table>: ('stale', why, loc) when an entry is computed inside a loop from a
    collection that the same loop is still growing; ('unknown', why, loc) otherwise"""
    init = mod.func("ProtoClassMetadata.__init__")
    asg = next((n for n in ast.walk(init) if isinstance(n, ast.Assign) and isinstance(n.targets[0], ast.Attribute) and n.targets[0].attr == table), None)
    if asg is not None and isinstance(asg.value, ast.DictComp) and asg in init.body:
        # built in one expression at the top level of the constructor, after the loops that register the members: complete when
        # it is keyed by every member (iterates the member -> group table) and takes each entry's members from the group table,
        # leaving out at most the key itself
        locals_of = {n.targets[0].attr: n.value.id for n in ast.walk(init) if isinstance(n, ast.Assign) and isinstance(n.targets[0], ast.Attribute) and isinstance(n.value, ast.Name)}
        by_field, by_group = locals_of.get("oneof_group_by_field"), locals_of.get("oneof_field_by_group")
        comp = asg.value
        later_growth = any(isinstance(st, (ast.For, ast.While)) and st.lineno > asg.lineno and any(isinstance(x, ast.Name) and x.id in (by_field, by_group) for x in ast.walk(st)) for st in init.body)
        g0 = comp.generators[0]
        over_members = len(comp.generators) == 1 and not g0.ifs and by_field is not None and ast.unparse(g0.iter) in (f"{by_field}.items()", by_field, f"{by_field}.keys()")
        key_name = g0.target.elts[0].id if isinstance(g0.target, ast.Tuple) and isinstance(g0.target.elts[0], ast.Name) else (g0.target.id if isinstance(g0.target, ast.Name) else None)
        inner = [x for x in ast.walk(comp.value) if isinstance(x, (ast.GeneratorExp, ast.ListComp, ast.SetComp))]
        from_groups = by_group is not None and any(ast.unparse(c.generators[0].iter).startswith(f"{by_group}[") for c in inner)
        filters_ok = all(len(c.generators) == 1 and all(isinstance(f_, ast.Compare) and len(f_.ops) == 1 and isinstance(f_.ops[0], ast.NotEq) and key_name is not None
                                                        and key_name in {x.id for x in ast.walk(f_) if isinstance(x, ast.Name)} for f_ in c.generators[0].ifs) for c in inner)
        if over_members and from_groups and filters_ok and not later_growth and isinstance(comp.key, ast.Name) and comp.key.id == key_name:
            return "complete", "one entry per member, built from the finished group table (all members of the group but the key itself)", mod.loc(asg)
        return "unknown", "built by a comprehension whose coverage of the group's members is not recognised", mod.loc(asg)
    if asg is None or not isinstance(asg.value, ast.Name):
        return "unknown", "its construction was not found in ProtoClassMetadata.__init__", mod.loc(init)
    local = asg.value.id
    for loop in [n for n in ast.walk(init) if isinstance(n, ast.For)]:
        stores = [n for n in ast.walk(loop) if isinstance(n, ast.Assign) and isinstance(n.targets[0], ast.Subscript) and isinstance(n.targets[0].value, ast.Name)
                  and n.targets[0].value.id == local]
        stores += [n for n in ast.walk(loop) if isinstance(n, ast.Call) and isinstance(n.func, ast.Attribute) and n.func.attr == "setdefault" and isinstance(n.func.value, ast.Name)
                   and n.func.value.id == local]
        if not stores:
            continue
        # collections grown in this loop: X.add/append/update(...), X.setdefault(..).add(..), and local aliases of those
        grown = set()
        for c in ast.walk(loop):
            if isinstance(c, ast.Call) and isinstance(c.func, ast.Attribute) and c.func.attr in ("add", "append", "update", "extend", "insert"):
                base = c.func.value
                while isinstance(base, ast.Call) and isinstance(base.func, ast.Attribute):
                    base = base.func.value
                while isinstance(base, ast.Subscript):
                    base = base.value
                if isinstance(base, ast.Name):
                    grown.add(base.id)
        for a in ast.walk(loop):
            if isinstance(a, ast.Assign) and isinstance(a.targets[0], ast.Name):
                src_names = {x.id for x in ast.walk(a.value) if isinstance(x, ast.Name)}
                if src_names & grown and isinstance(a.value, (ast.Call, ast.Subscript, ast.Name)):
                    grown.add(a.targets[0].id)
        for st in stores:
            val = st.value if isinstance(st, ast.Assign) else (st.args[1] if len(st.args) > 1 else None)
            used = {x.id for x in ast.walk(val) if isinstance(x, ast.Name)} if val is not None else set()
            hit = sorted((used & grown) - {local})
            if hit:
                return "stale", f"whose entries are computed from `{hit[0]}` inside the very loop that is still adding members to it (line {st.lineno})", mod.loc(st)
        return "unknown", "filled in a loop; completeness of its entries not decided", mod.loc(stores[0])
    return "unknown", "no store into it found", mod.loc(asg)


def rule_O2(ctx) -> None:
    mod = ctx.repo.mod(M_INIT)
    fn = mod.func("Message.__setattr__")
    ctx.analysed("Message.__setattr__")
    attr_p = fn.args.args[1].arg
    ogbf = A(A(SELF, "_betterproto"), "oneof_group_by_field")
    member_atom = ("op", "in", N(attr_p), ogbf)
    get_call = ("call", A(ogbf, "get"), (N(attr_p),), ())
    post_atom = CALL(N("hasattr"), SELF, C("_group_current"))
    # the selection table, however the instance attribute is reached
    dict_get = CALL(A(A(SELF, "__dict__"), "get"), C("_group_current"))
    TABLES = {A(SELF, "_group_current"), ("sub", A(SELF, "__dict__"), C("_group_current")), dict_get}
    # attr is a oneof member, __post_init__ has run: whichever way the code asks - of the member -> group table or of another
    # per-class table that has one entry per member
    assume0 = {member_atom: True, post_atom: True, ("op", "is", get_call, C(None)): False, get_call: True, ("op", "is", dict_get, C(None)): False, dict_get: True,
               ("op", "in", C("_group_current"), A(SELF, "__dict__")): True}
    for p0 in Interp(mod, assume=dict(assume0), fork_ifexp=True).run(fn):
        for k in p0.valuation:
            for t in walk(k):
                if t[0] == "a" and t[1] == A(SELF, "_betterproto") and t[2] != "oneof_group_by_field":
                    tbl = t
                    g_ = ("call", A(tbl, "get"), (N(attr_p),), ())
                    if k in (("op", "is", g_, C(None)), g_, ("op", "in", N(attr_p), tbl)) and _table_snapshot(mod, t[2])[0] == "complete":
                        assume0[k] = (k[0] == "op" and k[1] == "in") or k == g_
    paths = Interp(mod, assume=assume0, fork_ifexp=True).run(fn)
    ctx.count(len(paths))
    if not paths:
        raise AnalysisError("__setattr__: no path")
    # The loop over the members of the group is evaluated for one abstract member X; a path decides whether X is the assigned
    # member (X.name == attr).  Per class of iteration: the assigned member is recorded as the selection (inside the loop or
    # unconditionally outside it), every other member is reset to the placeholder, and nobody else is recorded.
    rec, reset, final = 0, 0, 0
    bad_return = False
    missing_reset = missing_rec = wrong_rec = None
    for p in paths:
        if p.outcome == "raise":
            continue
        if p.outcome == "return" and not any(e.kind == "call" and dotted(e.data[1]) == "super().__setattr__" and not e.loops for e in p.events):
            bad_return = True
        eq = None
        for k, v in p.valuation.items():
            if k[0] == "op" and k[1] == "==" and N(attr_p) in k[2:] and any(t[0] == "a" and t[2] == "name" for t in k[2:]):
                eq = v
        in_loop = any(e.kind == "loop" for e in p.events)
        p_rec = p_reset = False
        for e in p.events:
            if e.kind == "store" and e.data[0][0] == "sub" and e.data[0][1] in TABLES:
                v = e.data[1]
                names_attr = v == N(attr_p) or (v[0] == "a" and v[2] == "name" and eq is True)
                if names_attr:
                    p_rec = True
                    rec += 1
                else:
                    wrong_rec = wrong_rec or (p, e)
            if e.kind == "call" and dotted(e.data[1]) == "super().__setattr__" and e.loops and e.data[2][-1] == PLACEHOLDER:
                p_reset = True
                reset += 1
            if e.kind == "call" and dotted(e.data[1]) == "super().__setattr__" and not e.loops and e.data[2] and e.data[2][0] == N(attr_p):
                final += 1
        if in_loop and eq is False and not p_reset:
            missing_reset = missing_reset or p
        if eq is not False and not p_rec:
            # also a path that never reaches the member loop: the bookkeeping may depend on membership only
            missing_rec = missing_rec or p
    name = "__setattr__:oneof-bookkeeping"
    if bad_return:
        ctx.refuted("O2", name, "early-return", mod.loc(fn), "a path through __setattr__ for a oneof member returns before the final store")
    elif not rec:
        ctx.refuted("O2", name, "no-selection-record", mod.loc(fn), "assigning a oneof member does not record it in _group_current", "m.a = 1; which_one_of(m, 'g')")
    elif not reset:
        ctx.refuted("O2", name, "no-sibling-reset", mod.loc(fn), "assigning a oneof member does not reset the other members of its group to the placeholder",
                    "m.a = 1; m.b = 2; bytes(m) contains both")
    elif final != len([p for p in paths if p.outcome != "raise"]):
        ctx.refuted("O2", name, "no-final-store", mod.loc(fn), "not every path performs the final raw store of the assigned value")
    else:
        ctx.proved("O2", name, mod.loc(fn), f"{len(paths)} paths: record + reset + final store")
    sel = "__setattr__:record-selected/reset-others"
    if wrong_rec:
        ctx.refuted("O2", sel, "records-a-sibling", f"{mod.rel}:{wrong_rec[1].line}",
                    f"_group_current of the group is set to {show(wrong_rec[1].data[1])}, which is not (known to be) the assigned member", "m.a = 1; which_one_of(m, 'g')")
    elif missing_reset:
        ctx.refuted("O2", sel, "sibling-not-reset", mod.loc(fn), "a member of the group other than the assigned one is not reset to the placeholder on some path",
                    "m.a = 1; m.b = 2; bytes(m) contains both")
    elif missing_rec:
        ctx.refuted("O2", sel, "selection-not-recorded", mod.loc(fn),
                    f"on the path { {show(k): v for k, v in missing_rec.valuation.items()} } the assigned member is not recorded as the selection of its group: whether a member becomes the "
                    "selected one may depend on its being a member only (not on what its slot held before - optional members start at None, not at the placeholder)",
                    "m.a = 1; which_one_of(m, 'g')")
    elif rec and reset:
        # the members that are reset come from a table of the class metadata: the complete member set of the group, or a
        # table whose construction can be shown not to be a snapshot of a half-built set
        tables = set()
        for p in paths:
            for e in p.events:
                if e.kind == "loop" and isinstance(e.data, tuple):
                    t = e.data
                    for _ in range(6):      # the iterated container: strip subscripts / method calls down to _betterproto.<table>
                        if t[0] in ("sub", "item"):
                            t = t[1]
                        elif t[0] == "call" and t[1] in (N("$genexp"), N("$listcomp"), N("$setcomp")) and len(t[2]) >= 2:
                            t = t[2][1]         # the iterable a comprehension ranges over
                        elif t[0] == "call" and t[1][0] == "a":
                            t = t[1][1]
                        elif t[0] == "call" and t[2]:
                            t = t[2][0]
                        else:
                            break
                    if t[0] == "a" and t[1] == A(SELF, "_betterproto"):
                        tables.add(t[2])
        other = sorted(tables - {"oneof_field_by_group"})
        if not tables:
            ctx.inconclusive("O2", sel, "the members to reset do not come from a table of the class metadata", mod.loc(fn))
        elif other:
            verdict, why, loc = _table_snapshot(mod, other[0])
            if verdict == "complete":
                ctx.proved("O2", sel, loc, f"assigned member recorded, the other members reset from {other[0]}: {why}")
            elif verdict == "stale":
                ctx.refuted("O2", sel, f"stale-table:{other[0]}", loc,
                            f"the members to reset are taken from {other[0]}, {why}: members registered later are missing from the entries of earlier ones and are not reset",
                            "select the later-declared member, then assign the earlier-declared one; copy / encode")
            else:
                ctx.inconclusive("O2", sel, f"the members to reset are taken from {other[0]}, whose completeness is not established ({why})", loc)
        else:
            ctx.proved("O2", sel, mod.loc(fn), "assigned member recorded, every other member of oneof_field_by_group[group] reset")
    else:
        ctx.inconclusive("O2", sel, "member loop not recognised", mod.loc(fn))
    # the selection is recorded whatever the value is (also for the type default): no test of `value` guards the bookkeeping
    val_p = fn.args.args[2].arg
    guarded = False
    for p in paths:
        recs = [i for i, e in enumerate(p.events) if e.kind == "store" and e.data[0][0] == "sub" and e.data[0][1] == A(SELF, "_group_current")]
        if not recs:
            for k in p.valuation:
                if contains(k, N(val_p)) and not (k[0] == "call" and dotted(k[1]) in ("isinstance", "hasattr")) and "meta_by_field_name" not in show(k):
                    guarded = True
    if guarded:
        ctx.refuted("O2", "__setattr__:selection-independent-of-value", "value-guard", mod.loc(fn), "whether the selection is recorded depends on the assigned value",
                    "m.a = 0 must select `a`")
    else:
        ctx.proved("O2", "__setattr__:selection-independent-of-value", mod.loc(fn))


# ---------------------------------------------------------------------------
# O3 access gate


def _selection_table_never_none(mod) -> bool:
    """every whole-object write of `_group_current` in the module stores a dict (a display, dict(...), a comprehension, or a
    local only ever bound to those): a successful raw read of it is never None"""
    def dictish(v: ast.AST, fn: ast.AST, depth: int = 0) -> bool:
        if isinstance(v, (ast.Dict, ast.DictComp)):
            return True
        if isinstance(v, ast.Call) and isinstance(v.func, ast.Name) and v.func.id in ("dict", "defaultdict", "OrderedDict"):
            return True
        if isinstance(v, ast.Call) and isinstance(v.func, ast.Attribute) and v.func.attr == "copy":
            return True
        if isinstance(v, ast.Name) and depth < 3:
            binds = [a for a in ast.walk(fn) if isinstance(a, (ast.Assign, ast.AnnAssign)) and any(
                isinstance(t, ast.Name) and t.id == v.id for t in (a.targets if isinstance(a, ast.Assign) else [a.target]))]
            return bool(binds) and all(a.value is not None and dictish(a.value, fn, depth + 1) for a in binds)
        return False

    found = 0
    for q, fn in mod.functions():
        for n in ast.walk(fn):
            vals = []
            if isinstance(n, ast.Assign):
                for t in n.targets:
                    if isinstance(t, ast.Attribute) and t.attr == "_group_current":
                        vals.append(n.value)
                    if isinstance(t, ast.Subscript) and isinstance(t.value, ast.Attribute) and t.value.attr == "__dict__" and isinstance(t.slice, ast.Constant) \
                            and t.slice.value == "_group_current":
                        vals.append(n.value)
            elif isinstance(n, ast.Call):
                f = ast.unparse(n.func)
                if f.endswith("__setattr__") or f == "setattr":
                    cs = [a for a in n.args if isinstance(a, ast.Constant)]
                    if cs and cs[0].value == "_group_current":
                        vals.append(n.args[-1])
                if f.endswith("__dict__.update"):
                    vals += [k.value for k in n.keywords if k.arg == "_group_current"]
                    if any(k.arg is None for k in n.keywords) or n.args:
                        return False
            for v in vals:
                found += 1
                if not dictish(v, fn):
                    return False
    return found > 0


def rule_O3(ctx) -> None:
    """the oneof gate of __getattribute__, decided on the paths of the function: a value is returned for a oneof member only
    after the group's current member was compared with the requested name (and found equal); the unequal outcome raises
    AttributeError before anything is stored; only the bootstrap names and the not-yet-initialised object skip the gate"""
    mod = ctx.repo.mod(M_INIT)
    fn = mod.func("Message.__getattribute__")
    name_p = fn.args.args[1].arg
    NAME = N(name_p)
    paths = Interp(mod, fork_ifexp=True).run(fn)
    ctx.count(len(paths))
    ctx.analysed("Message.__getattribute__")

    def gate_atom(k):
        # <current member of the group> ==/!= name : one side the requested name, the other a lookup keyed by the group
        if k[0] != "op" or k[1] not in ("==", "!=") or len(k) != 4:
            return None
        for x, y in ((k[2], k[3]), (k[3], k[2])):
            if x == NAME and y[0] in ("sub", "call") and "oneof_group_by_field" in show(y):
                return k[1]
        return None

    bypass, wrong_exc, stores_first = [], [], []
    boot_names: Set[str] = set()
    n_gate_raise = 0
    table_is_dict = _selection_table_never_none(mod)
    for p in paths:
        val = p.valuation
        boot = any(k[0] == "raises" and v for k, v in val.items())
        if table_is_dict and any(k[0] == "op" and k[1] in ("is", "is not") and k[-1] in (C(None), PLACEHOLDER) and "'_group_current'" in show(k[2]) and k[2][0] == "call"
                                 and bool(v) == (k[1] == "is") for k, v in val.items()):
            continue        # infeasible: the selection table, once readable, is a dict (neither None nor the placeholder object)
        for k, v in val.items():
            if k[0] == "op" and k[1] == "in" and k[2] == NAME and k[3][0] in ("c", "set", "tuple"):
                names = set(k[3][1]) if k[3][0] == "c" else {x[1] for x in k[3][1] if x[0] == "c"}
                boot_names |= names
                boot = boot or bool(v)
            elif k[0] == "op" and k[1] == "not in" and k[2] == NAME and k[3][0] in ("c", "set", "tuple"):
                names = set(k[3][1]) if k[3][0] == "c" else {x[1] for x in k[3][1] if x[0] == "c"}
                boot_names |= names
                boot = boot or not v
            elif k[0] == "op" and k[1] in ("==", "!=") and len(k) == 4 and NAME in (k[2], k[3]):
                other = k[3] if k[2] == NAME else k[2]
                if other[0] == "c" and isinstance(other[1], str):
                    boot_names.add(other[1])
                    boot = boot or (bool(v) == (k[1] == "=="))
        if boot:
            continue
        selected = None
        for k, v in val.items():
            g = gate_atom(k)
            if g is not None:
                selected = bool(v) == (g == "==")
        non_member = any(("oneof_group_by_field" in show(k) and gate_atom(k) is None) and (
            (k[0] == "op" and k[1] == "is" and k[-1] == C(None) and v) or (k[0] == "op" and k[1] == "is not" and k[-1] == C(None) and not v)
            or (k[0] == "op" and k[1] == "in" and not v) or (k[0] == "op" and k[1] == "not in" and v)
            or (k[0] not in ("op",) and not v)) for k, v in val.items())
        if p.outcome == "return":
            if not non_member and selected is not True:
                bypass.append(p)
        if selected is False:
            if p.outcome != "raise":
                if p.outcome != "return":
                    bypass.append(p)
                continue
            n_gate_raise += 1
            exc = p.value
            cname = dotted(exc[1]) if exc is not None and exc[0] == "call" else (dotted(exc) if exc is not None else "")
            if cname != "AttributeError":
                wrong_exc.append(cname or "?")
            if any(e.kind == "store" or (e.kind == "call" and "__setattr__" in show(e.data)) for e in p.events):
                stores_first.append(p)
    extra = boot_names - {"__class__", "_betterproto"}
    nm = "__getattribute__:oneof-gate"
    if bypass:
        ctx.refuted("O3", nm, "bypass", mod.loc(fn), "a value can be returned for a oneof member without comparing it with the group's current member: " + val_text(bypass[0].valuation),
                    "M(a=1, b='x'): both members readable / emitted")
    elif n_gate_raise == 0:
        ctx.refuted("O3", nm, "absent", mod.loc(fn), "no path compares the group's current member with the requested name and raises", "m = M(a=1); m.b")
    elif wrong_exc:
        ctx.refuted("O3", nm, "wrong-exception", mod.loc(fn), f"reading an unselected member raises {wrong_exc[0]}, not AttributeError (dump/to_dict/hasattr rely on that class)")
    elif stores_first:
        ctx.refuted("O3", nm, "stores-before-gate", mod.loc(fn), "the instance is written before the gate rejects the read of an unselected member: " + val_text(stores_first[0].valuation))
    elif extra:
        ctx.refuted("O3", nm, "exempt:" + ",".join(sorted(extra)), mod.loc(fn), f"names {sorted(extra)} are exempt from the oneof gate besides the bootstrap names")
    else:
        ctx.proved("O3", nm, mod.loc(fn), f"{len(paths)} paths, {n_gate_raise} rejecting; bootstrap exemptions {sorted(boot_names)}")


# ---------------------------------------------------------------------------
# O4 selected-default escape in every emitter


def rule_O4(ctx) -> None:
    only = {"oneof member selected at default", "oneof sub-message selected, empty"}
    rule_D2(ctx, "O4", only)
    mod = ctx.repo.mod(M_INIT)
    from ..fieldloop import TYPE_NAMES

    for ename in ("to_dict", "to_pydict"):
        fn = mod.func(f"Message.{ename}")
        ctx.analysed(f"Message.{ename}")
        inc = N(fn.args.args[2].arg) if len(fn.args.args) > 2 else N("include_default_values")
        n_br = 0
        for t in TYPE_NAMES:
            if t == "map":
                continue
            assume = {INCL: True, ("op", "is", VALUE, C(None)): False, inc: False,
                      ("raises", ("AttributeError",), VALUE): False,
                      ("op", "is", ("sub", A(A(SELF, "_betterproto"), "default_gen"), FIELD_NAME), N("list")): False}
            paths = interp_for(mod, bindings=type_binding(t), assume=assume).run(fn)
            ctx.count(len(paths))
            missing = []
            for p in paths:
                if p.outcome == "raise":
                    continue
                stores = [e for e in p.events if e.kind == "store" and e.data[0][0] == "sub" and e.data[0][1][0] in ("dictd", "n") and e.loops]
                if not stores:
                    missing.append(p)
            n_br += 1
            name = f"{ename}[{t}]:selected-default-kept"
            if missing:
                ctx.refuted("O4", name, val_text({k: v for k, v in missing[0].valuation.items()}), mod.loc(fn),
                            f"{ename} drops a {t} oneof member that is selected but holds its default value (valuation {val_text(missing[0].valuation)})",
                            f"M(member=<default {t}>).{ename}() must contain the member")
            else:
                ctx.proved("O4", name, mod.loc(fn), f"{len(paths)} paths")
        ctx.floor("O4", f"{ename} type branches", n_br, 17)


# ---------------------------------------------------------------------------
# V7 a read is not a set: what __getattribute__ may store while reading is reported unset by is_set


def rule_V7(ctx, rule: str = "V7") -> None:
    """__getattribute__ replaces the placeholder only by mutable defaults (objects that must keep their identity to be
    filled in place), and is_set answers for exactly those kinds from their content, not from 'is not the placeholder' """
    mod = ctx.repo.mod(M_INIT)
    ga = mod.func("Message.__getattribute__")
    isf = mod.func("Message.is_set")
    ctx.analysed("Message.__getattribute__", "Message.is_set")
    paths = Interp(mod).run(ga)
    ctx.count(len(paths))
    stored_kinds: Set[str] = set()
    unguarded = None
    n_store = 0
    for p in paths:
        stores = [e for e in p.events if e.kind == "call" and dotted(e.data[1]) in ("super().__setattr__", "object.__setattr__")]
        if not stores:
            continue
        n_store += 1
        val = stores[0].data[2][-1]
        kinds = None
        for k, v in p.valuation.items():
            if v and k[0] == "call" and k[1] == N("isinstance") and len(k[2]) == 2 and k[2][0] == val:
                t = k[2][1]
                kinds = {show(x) for x in t[1]} if t[0] == "tuple" else {show(t)}
        if kinds is None:
            unguarded = p
        else:
            stored_kinds |= kinds
    if n_store == 0:
        ctx.proved(rule, "__getattribute__:stores-only-mutable-defaults", mod.loc(ga), "a read stores nothing")
    elif unguarded is not None:
        ctx.refuted(rule, "__getattribute__:stores-only-mutable-defaults", "every-default-stored", mod.loc(ga),
                    "reading a never-assigned field stores its default whatever its kind; the raw value is then no longer the placeholder and is_set (defined through the placeholder) "
                    "answers True after a mere read - for wrapper fields (default None), scalars, and sub-messages alike", "m = M(); m.is_set('w') is False; m.w; m.is_set('w') is True")
    elif not stored_kinds <= {"Message", "list", "dict"}:
        ctx.refuted(rule, "__getattribute__:stores-only-mutable-defaults", ",".join(sorted(stored_kinds)), mod.loc(ga), f"defaults of kinds {sorted(stored_kinds)} are stored on read")
    else:
        ctx.proved(rule, "__getattribute__:stores-only-mutable-defaults", mod.loc(ga), ",".join(sorted(stored_kinds)))
    # is_set: for each stored kind, the freshly created default (flag off / empty) of a plain field is "not set"
    first = Interp(mod, fork_ifexp=True).run(isf)
    atoms = {}
    for p in first:
        for k in p.valuation:
            atoms[k] = show(k)
    for kind in sorted(stored_kinds or {"Message", "list", "dict"}):
        assume = {}
        for k, txt in atoms.items():
            if "is PLACEHOLDER" in txt:
                assume[k] = False
            elif txt.endswith(".optional"):
                assume[k] = False
            elif ".group is None" in txt:
                assume[k] = True
            elif ".group is not None" in txt or txt.endswith(".group"):
                assume[k] = False
            elif txt.startswith("isinstance("):
                assume[k] = kind in txt.split(",", 1)[1]
            elif "_serialized_on_wire" in txt:
                assume[k] = False
            elif txt.endswith(".wraps"):
                assume[k] = False
        res = Interp(mod, fork_ifexp=True, assume=assume).run(isf)
        ctx.count(len(res))
        verdicts = set()
        for p in res:
            v = p.value
            if v is not None:
                # getattr(x, "_serialized_on_wire", D): the flag of a message; D for a container, which has no such attribute
                def _flag(t):
                    if isinstance(t, tuple) and t and t[0] == "call" and t[1] == N("getattr") and len(t[2]) == 3 and t[2][1] == C("_serialized_on_wire") and not t[3]:
                        return A(t[2][0], "_serialized_on_wire") if kind == "Message" else t[2][2]
                    if isinstance(t, tuple) and t and t[0] == "op":
                        return simplify(("op", t[1]) + tuple(_flag(x) for x in t[2:]))
                    return t
                v = _flag(v)
                if v[0] == "op" and v[1] == "or" and any(x[0] == "c" and x[1] for x in v[2:]):
                    v = C(True)
                elif v[0] == "op" and v[1] == "or":
                    rest = tuple(x for x in v[2:] if not (x[0] == "c" and not x[1]))
                    v = rest[0] if len(rest) == 1 else ("op", "or") + rest if rest else C(False)
            if v == C(False):
                verdicts.add("F")
            elif v == C(True):
                verdicts.add("T")
            elif v is not None and _content_only(v):
                verdicts.add("content")
            else:
                verdicts.add("other:" + show(v))
        name = f"is_set:read-created-default[{kind}]"
        if verdicts <= {"F", "content"} and verdicts:
            ctx.proved(rule, name, mod.loc(isf), ",".join(sorted(verdicts)))
        else:
            ctx.refuted(rule, name, ",".join(sorted(verdicts)), mod.loc(isf),
                        f"for a plain field whose raw value is a {kind} is_set answers {sorted(verdicts)} without looking at the value's content: a default that __getattribute__ "
                        "created on a read counts as set", "m = M(); m.inner; m.is_set('inner')")


def rule_D7(ctx, rule: str = "D7") -> None:
    """is_set agrees with the writer about what is present: in every state in which dump writes a field because it is
    *set* (not because of its value), is_set answers True"""
    mod = ctx.repo.mod(M_INIT)
    isf = mod.func("Message.is_set")
    ctx.analysed("Message.is_set")
    first = Interp(mod, fork_ifexp=True).run(isf)
    atoms = {}
    for p in first:
        for k in p.valuation:
            atoms[k] = show(k)
    # state -> decisions for the atoms is_set consults (by what the atom asks)
    scenarios = {
        "plain sub-message present but empty": {"placeholder": False, "optional": False, "group": False, "kind": "Message", "flag": True, "truthy": False, "wraps": False, "none": False},
        "optional scalar set to its default": {"placeholder": False, "optional": True, "group": False, "kind": "", "flag": False, "truthy": False, "wraps": False, "none": False},
        "oneof member selected at its default": {"placeholder": False, "optional": False, "group": True, "kind": "", "flag": False, "truthy": False, "wraps": False, "none": False, "selected": True},
        "wrapper set to the wrapped default": {"placeholder": False, "optional": False, "group": False, "kind": "", "flag": False, "truthy": False, "wraps": True, "none": False},
    }
    def decide(k: Sym, sc) -> Optional[bool]:
        txt = show(k)
        if "is PLACEHOLDER" in txt:
            return sc["placeholder"]
        if txt.endswith(".optional"):
            return sc["optional"]
        if ".group is None" in txt:
            return not sc["group"]
        if txt.endswith(".group"):
            return sc["group"]
        if "_group_current" in txt and "==" in txt:
            return sc.get("selected", False)
        if k[0] == "call" and dotted(k[1]).endswith("_include_default_value_for_oneof"):
            return sc.get("selected", False)       # O5: true exactly for the selected member of a group
        if txt.startswith("isinstance("):
            return bool(sc["kind"]) and sc["kind"] in txt.split(",", 1)[1]
        if "_serialized_on_wire" in txt:
            return sc["flag"]
        if txt.endswith(".wraps"):
            return sc["wraps"]
        if txt.endswith(" is None)") or txt.endswith(" is None"):
            return sc["none"]
        if txt.startswith("bool(") or k[0] == "n" or (k[0] == "call" and dotted(k[1]) == "self.__raw_get"):
            return sc["truthy"]
        return None

    def ev(t: Sym, sc) -> Optional[bool]:
        if t[0] == "c":
            return bool(t[1])
        if t[0] == "op" and t[1] == "not":
            r = ev(t[2], sc)
            return None if r is None else not r
        if t[0] == "op" and t[1] == "truth":
            return ev(t[2], sc)
        if t[0] == "op" and t[1] in ("and", "or"):
            rs = [ev(x, sc) for x in t[2:]]
            if t[1] == "and":
                return False if False in rs else (None if None in rs else True)
            return True if True in rs else (None if None in rs else False)
        return decide(t, sc)

    for sname, sc in scenarios.items():
        assume = {}
        for k in atoms:
            d = decide(k, sc)
            if d is not None:
                assume[k] = d
        res = Interp(mod, fork_ifexp=True, assume=assume).run(isf)
        ctx.count(len(res))
        verdicts = set()
        for p in res:
            if p.outcome != "return" or p.value is None:
                continue
            r = ev(p.value, sc)
            verdicts.add("T" if r is True else "F" if r is False else "other:" + show(p.value))
        name = f"is_set:{sname}"
        if verdicts == {"T"}:
            ctx.proved(rule, name, mod.loc(isf))
        elif "F" in verdicts:
            ctx.refuted(rule, name, ",".join(sorted(verdicts)), mod.loc(isf),
                        f"in the state '{sname}' the writer emits the field (it is set) but is_set answers False: presence reported by the API differs from presence on the wire "
                        "and from the reference's HasField", "M().parse(b'\\x12\\x00').is_set('sub')")
        else:
            ctx.inconclusive(rule, name, f"is_set not decided: {sorted(verdicts)}", mod.loc(isf))


def _content_only(v: Sym) -> bool:
    """the term is a disjunction/conjunction of truthiness / presence-flag tests of the raw value"""
    if v[0] == "op" and v[1] in ("or", "and"):
        return all(_content_only(x) for x in v[2:])
    if v[0] == "call" and v[1] == N("bool") and len(v[2]) == 1:
        return True
    if v[0] == "a" and v[2] == "_serialized_on_wire":
        return True
    if v[0] == "call" and v[1] == N("len"):
        return True
    return False


# ---------------------------------------------------------------------------
# D6 per-field decisions of dump / __len__ do not depend on the previous field


def rule_D6(ctx, rule: str = "D6") -> None:
    """in the field loops of dump and __len__, a local that is assigned somewhere in the loop body is never read on a
    path of the same iteration that has not assigned it: otherwise what is emitted for one field depends on the field before
    it (accumulators written with an augmented assignment are what the loop is for and are exempt)"""
    mod = ctx.repo.mod(M_INIT)
    for q in ("Message.dump", "Message.__len__"):
        fn = mod.func(q)
        rets = [n for n in ast.walk(fn) if isinstance(n, ast.Return) and n.value is not None]
        if q.endswith("__len__") and len(rets) == 1 and ast.unparse(rets[0].value) == "len(bytes(self))":
            ctx.proved(rule, f"{q}:no-loop-carried-decisions", mod.loc(fn), "delegates to dump")
            continue
        targets = _d6_field_loops(mod, fn)
        if not targets:
            ctx.inconclusive(rule, f"{q}:no-loop-carried-decisions", "field loop not found", mod.loc(fn))
            continue
        carried = None
        n_reads = 0
        for g, head in targets:
            c, n = _d6_loop(g, head)
            n_reads += n
            carried = carried or c
        if carried:
            v, nd = carried
            ctx.refuted(rule, f"{q}:no-loop-carried-decisions", f"carried:{v}", f"{mod.rel}:{nd.line}",
                        f"in the field loop of {q.split('.')[-1]} the local `{v}` is read at line {nd.line} on a path of the iteration that has not assigned it: it still holds the value "
                        "computed for the previous field, so whether a default-valued field is written depends on the field declared before it", "a present sub-message followed by default scalars")
        else:
            ctx.proved(rule, f"{q}:no-loop-carried-decisions", mod.loc(fn), f"{n_reads} reads of loop-assigned locals, all dominated by an assignment of the same iteration")


def _d6_field_loops(mod, fn, depth: int = 0):
    """(cfg, loop head) of the loop over the declared fields in fn; when fn iterates a private generator method of the same
    class, the field loop inside that generator and the consuming loop"""
    g = CFG(fn, implicit_exc=False)
    loops = [nd for nd in g.nodes if nd.kind == "loop" and isinstance(nd.stmt, ast.For)]
    direct = [nd for nd in loops if "meta_by_field_name" in ast.unparse(nd.stmt.iter)]
    if direct:
        return [(g, direct[0])]
    if depth >= 2:
        return []
    for nd in loops:
        it = nd.stmt.iter
        if isinstance(it, ast.Call) and isinstance(it.func, ast.Attribute) and isinstance(it.func.value, ast.Name) and it.func.value.id == "self":
            try:
                helper = mod.func(f"Message.{it.func.attr}")
            except Exception:
                continue
            inner = _d6_field_loops(mod, helper, depth + 1)
            if inner:
                return inner + [(g, nd)]
    return []


def _d6_loop(g, head, loop_stmt=None, collect=None):
    body_stmts = set()
    for st in ast.walk(loop_stmt if loop_stmt is not None else head.stmt):
        body_stmts.add(id(st))
    body_nodes = [nd for nd in g.nodes if nd.stmt is not None and id(nd.stmt) in body_stmts and nd.id != head.id and nd.kind in ("stmt", "test", "loop")]
    assigns: Dict[str, Set[int]] = {}
    aug: Set[str] = set()
    for nd in body_nodes:
        st = nd.stmt
        if nd.kind == "stmt" and isinstance(st, (ast.Assign, ast.AnnAssign)):
            tgts = st.targets if isinstance(st, ast.Assign) else [st.target]
            for t in tgts:
                for x in ast.walk(t):
                    if isinstance(x, ast.Name) and isinstance(x.ctx, ast.Store):
                        assigns.setdefault(x.id, set()).add(nd.id)
        elif nd.kind == "stmt" and isinstance(st, ast.AugAssign) and isinstance(st.target, ast.Name):
            aug.add(st.target.id)
        elif nd.kind == "loop" and isinstance(st, ast.For):
            for x in ast.walk(st.target):
                if isinstance(x, ast.Name):
                    assigns.setdefault(x.id, set()).add(nd.id)
    loop_targets = {x.id for x in ast.walk(head.stmt.target) if isinstance(x, ast.Name)} if isinstance(head.stmt, ast.For) else set()
    carried = None
    n_reads = 0
    for nd in body_nodes:
        reads = {x.id for x in own_nodes(nd.stmt) if isinstance(x, ast.Name) and isinstance(x.ctx, ast.Load)}
        # names bound by a comprehension / lambda inside the statement are that scope's own variables, not the loop's locals
        scoped = set()
        for x in own_nodes(nd.stmt):
            if isinstance(x, (ast.ListComp, ast.SetComp, ast.DictComp, ast.GeneratorExp)):
                bound = {y.id for g_ in x.generators for y in ast.walk(g_.target) if isinstance(y, ast.Name)}
                outside = {y.id for y in ast.walk(x.generators[0].iter) if isinstance(y, ast.Name)}
                scoped |= bound - outside
            elif isinstance(x, ast.Lambda):
                scoped |= {a_.arg for a_ in x.args.args + x.args.kwonlyargs + x.args.posonlyargs}
        reads -= scoped
        for v in sorted(reads & set(assigns)):
            if v in loop_targets or v in aug:
                continue
            n_reads += 1
            through = set(assigns[v]) - {nd.id}
            if not g.must_pass(head.id, nd.id, through, labels=normal_edge):
                # a statement that assigns v and reads it only on its right-hand side after assigning is still a read-before-write: keep it
                carried = (v, nd)
                if collect is not None:
                    collect.append((v, nd))
    return carried, n_reads


# ---------------------------------------------------------------------------
# O5 the JSON side asks the same question about oneof selection as the wire side


def rule_O5(ctx, rule: str = "O5") -> None:
    """_include_default_value_for_oneof(field, meta) is True exactly when the field is the selected member of its group:
    nothing else (group size, value, ...) may switch it off, or the dict/JSON form drops a member the wire form carries"""
    mod = ctx.repo.mod(M_INIT)
    fn = mod.func("Message._include_default_value_for_oneof")
    ctx.analysed("Message._include_default_value_for_oneof")
    paths = Interp(mod, fork_ifexp=True).run(fn)
    ctx.count(len(paths))
    bad = None
    sel_seen = False
    for p in paths:
        if p.outcome != "return" or p.value is None:
            continue
        atoms = {show(k): v for k, v in p.valuation.items()}
        group_none = [v for t, v in atoms.items() if ".group is None" in t]
        group_not_none = [v for t, v in atoms.items() if ".group is not None" in t or t.endswith(".group")]
        in_group = (group_none and not group_none[0]) or (group_not_none and group_not_none[0])
        no_group = (group_none and group_none[0]) or (group_not_none and not group_not_none[0])
        extra = {t: v for t, v in atoms.items() if ".group" not in t or "_group_current" in t}
        v = p.value
        is_sel = v[0] == "op" and v[1] == "==" and "_group_current" in show(v)
        if v[0] == "op" and v[1] == "and" and "_group_current" in show(v) and ".group" in show(v):
            sel_seen = True          # `group is not None and selected == name` in one expression
            continue
        if is_sel:
            sel_seen = True
        if no_group and v == C(False):
            continue
        if no_group and v[0] == "op" and v[1] == "==" and len(v) == 4 and C(None) in (v[2], v[3]) and any(
                a.arg == (v[3] if v[2] == C(None) else v[2])[1] and a.annotation is not None and ast.unparse(a.annotation) == "str"
                for a in fn.args.args if (v[3] if v[2] == C(None) else v[2])[0] == "n"):
            continue        # `None == field_name` with field_name: str - a field outside any group is never "the selected member"
        if in_group and is_sel and not [t for t in extra if "_group_current" not in t]:
            continue
        bad = (p, atoms, v)
    if bad:
        p, atoms, v = bad
        ctx.refuted(rule, "_include_default_value_for_oneof:selection-only", ";".join(f"{k}={val}" for k, val in sorted(atoms.items()))[:140], mod.loc(fn),
                    f"for a field inside a group the answer is {show(v)} under {atoms}: something other than 'this member is the selected one' decides whether a default-valued oneof member "
                    "is written to the dict/JSON form, while dump() writes every selected member", "a oneof with a single member set to 0: bytes carry it, to_dict() drops it")
    elif not sel_seen:
        ctx.inconclusive(rule, "_include_default_value_for_oneof:selection-only", "selection test not recognised", mod.loc(fn))
    else:
        ctx.proved(rule, "_include_default_value_for_oneof:selection-only", mod.loc(fn), f"{len(paths)} paths")


# ---------------------------------------------------------------------------
# O8 a member is registered in the oneof tables exactly when it declares a group


def rule_O8(ctx, rule: str = "O8") -> None:
    """membership in the per-class oneof tables depends on the field's `group` alone: every condition under which
    ProtoClassMetadata.__init__ enters a field into oneof_group_by_field / oneof_field_by_group tests nothing but the group
    (the pydantic flavour declares every member of a real oneof optional=True as well - such members must not fall out)"""
    mod = ctx.repo.mod(M_INIT)
    init = mod.func("ProtoClassMetadata.__init__")
    ctx.analysed("ProtoClassMetadata.__init__")
    conds: List[ast.AST] = []
    n_tables = 0

    def parents_of(target: ast.AST) -> List[ast.AST]:
        out = []
        def rec(node, stack):
            for ch in ast.iter_child_nodes(node):
                if ch is target:
                    out.extend(stack + [node])
                    return True
                if rec(ch, stack + [node]):
                    return True
            return False
        rec(init, [])
        return out

    def collect(name: str, depth: int = 0) -> None:
        if depth > 3:
            return
        for n in ast.walk(init):
            # T[k] = v / T.setdefault(..) / T[k].add(..) under `if` tests
            hit = None
            if isinstance(n, ast.Assign) and any(isinstance(t, ast.Subscript) and isinstance(t.value, ast.Name) and t.value.id == name for t in n.targets):
                hit = n
            elif isinstance(n, ast.Expr) and isinstance(n.value, ast.Call) and any(isinstance(x, ast.Name) and x.id == name for x in ast.walk(n.value.func)):
                hit = n
            if hit is not None:
                for par in parents_of(hit):
                    if isinstance(par, ast.If) and hit in [x for b in par.body for x in ast.walk(b)]:
                        conds.append(par.test)
                    elif isinstance(par, ast.If):
                        conds.append(ast.UnaryOp(ast.Not(), par.test))
            # T = {.. for .. if C} / [.. for .. if C], possibly over another local that was filtered
            if isinstance(n, (ast.Assign, ast.AnnAssign)) and getattr(n, "value", None) is not None and any(
                    isinstance(t, ast.Name) and t.id == name for t in (n.targets if isinstance(n, ast.Assign) else [n.target])):
                for comp in [x for x in ast.walk(n.value) if isinstance(x, (ast.DictComp, ast.ListComp, ast.SetComp, ast.GeneratorExp))]:
                    for g in comp.generators:
                        conds.extend(g.ifs)
                        if isinstance(g.iter, ast.Name):
                            collect(g.iter.id, depth + 1)
                        elif isinstance(g.iter, ast.Call) and isinstance(g.iter.func, ast.Attribute) and isinstance(g.iter.func.value, ast.Name):
                            collect(g.iter.func.value.id, depth + 1)

    for attr in ("oneof_group_by_field", "oneof_field_by_group"):
        for n in ast.walk(init):
            if isinstance(n, ast.Assign) and any(isinstance(t, ast.Attribute) and t.attr == attr for t in n.targets):
                n_tables += 1
                if isinstance(n.value, ast.Name):
                    collect(n.value.id)
                else:
                    for comp in [x for x in ast.walk(n.value) if isinstance(x, (ast.DictComp, ast.ListComp, ast.SetComp, ast.GeneratorExp))]:
                        for g in comp.generators:
                            conds.extend(g.ifs)
                            if isinstance(g.iter, ast.Name):
                                collect(g.iter.id)
                            elif isinstance(g.iter, ast.Call) and isinstance(g.iter.func, ast.Attribute) and isinstance(g.iter.func.value, ast.Name):
                                collect(g.iter.func.value.id)
    ctx.count(len(conds))
    name = "metadata:oneof-membership-by-group-only"
    if n_tables < 2:
        ctx.inconclusive(rule, name, "the oneof tables are not assigned in ProtoClassMetadata.__init__", mod.loc(init))
        return
    bad = None
    for c in conds:
        attrs = {x.attr for x in ast.walk(c) if isinstance(x, ast.Attribute)}
        if attrs & {"optional", "proto_type", "wraps", "number", "map_types"}:
            bad = bad or c
    if bad is not None:
        ctx.refuted(rule, name, ast.unparse(bad)[:80], mod.loc(bad), f"a field enters the oneof tables only under `{ast.unparse(bad)}`: membership must follow the declared group alone - the pydantic "
                    "flavour of the plugin declares the members of a real oneof with optional=True too, such members are then neither selected nor reset by assignments "
                    "and which_one_of / the encoding report several members", "pydantic-style members: a = field(1, group='g', optional=True), b = field(2, group='g', optional=True); m.a = 1; m.b = 2")
    else:
        ctx.proved(rule, name, mod.loc(init), f"{len(conds)} conditions, each about the group only")


# O7 tables keyed by group are built from all members of the group


def _lossy_groupby(tree: ast.AST):
    """(function name, node) of `itertools.groupby(X, key=K)` results that are turned into a mapping (dict comprehension / dict())
    although X is not sorted by K: groupby only joins *adjacent* items, a key that occurs in several runs keeps its last run"""
    out = []
    for fn in ast.walk(tree):
        if not isinstance(fn, (ast.FunctionDef, ast.AsyncFunctionDef)):
            continue
        for n in ast.walk(fn):
            gb = None
            if isinstance(n, ast.DictComp) and len(n.generators) >= 1:
                it = n.generators[0].iter
                if isinstance(it, ast.Call) and ast.unparse(it.func).split(".")[-1] == "groupby":
                    gb = it
            elif isinstance(n, ast.Call) and isinstance(n.func, ast.Name) and n.func.id == "dict" and n.args and isinstance(n.args[0], (ast.GeneratorExp, ast.ListComp)):
                it = n.args[0].generators[0].iter
                if isinstance(it, ast.Call) and ast.unparse(it.func).split(".")[-1] == "groupby":
                    gb = it
            elif isinstance(n, ast.For) and isinstance(n.iter, ast.Call) and ast.unparse(n.iter.func).split(".")[-1] == "groupby":
                # for k, run in groupby(..): table[k] = <run>  (a plain store overwrites; setdefault / update / |= accumulate)
                if any(isinstance(st, ast.Assign) and any(isinstance(t, ast.Subscript) for t in st.targets) for st in ast.walk(n)):
                    gb = n.iter
            if gb is None or not gb.args:
                continue
            src = gb.args[0]
            key = next((ast.unparse(k.value) for k in gb.keywords if k.arg == "key"), ast.unparse(gb.args[1]) if len(gb.args) > 1 else None)
            if isinstance(src, ast.Name):
                binds = [a.value for a in ast.walk(fn) if isinstance(a, ast.Assign) and len(a.targets) == 1 and isinstance(a.targets[0], ast.Name) and a.targets[0].id == src.id]
                if len(binds) == 1:
                    src = binds[0]
            is_sorted = isinstance(src, ast.Call) and ast.unparse(src.func) == "sorted" and (
                key is None or any(k.arg == "key" and ast.unparse(k.value) == key for k in src.keywords))
            if not is_sorted:
                out.append((fn.name, gb))
    return out


def rule_O7(ctx, rule: str = "O7") -> None:
    """the per-group tables of the class metadata see every member of a group wherever it is declared: no table is filled from
    itertools.groupby over the fields in declaration order (groups of hand-written classes may be declared interleaved)"""
    import pathlib
    from ..src import Module
    ctl = pathlib.Path(__file__).resolve().parent.parent / "controls" / "groupby_unsorted.py"
    cm = Module("controls/groupby_unsorted.py", ctl)
    flagged = {f for f, _ in _lossy_groupby(cm.tree)}
    if flagged != {"members_by_group_lossy"}:
        raise AnalysisError(f"O7 positive control: expected exactly `members_by_group_lossy` to be flagged, got {sorted(flagged)}")
    mod = ctx.repo.mod(M_INIT)
    hits = _lossy_groupby(mod.tree)
    ctx.count(len([n for n in ast.walk(mod.tree) if isinstance(n, (ast.FunctionDef, ast.AsyncFunctionDef))]))
    if hits:
        fname, node = hits[0]
        ctx.refuted(rule, "metadata:group-tables-complete", f"{fname}:groupby", mod.loc(node),
                    f"{fname} builds a mapping from `{ast.unparse(node)[:100]}`: groupby joins adjacent items only, so for a class whose oneof groups are declared interleaved "
                    "(a1, b1, a2, b2) each group keeps its last run; an earlier member is then not in its group's table - assigning it neither selects it nor resets its siblings",
                    "class M: a1 (group a), b1 (group b), a2 (group a), b2 (group b);  m.a1 = 1; which_one_of(m, 'a')")
    else:
        ctx.proved(rule, "metadata:group-tables-complete", mod.rel, "no mapping is built from an unsorted groupby")


# O6 decoded members are assigned in wire order


def rule_O6(ctx, rule: str = "O6") -> None:
    """the decoder hands every decoded singular value to __setattr__ in the order the records appear on the wire (that is what
    makes the last oneof member win): the assignment with a computed field name sits inside the loop that takes records from
    the reader - or, when it is deferred to a later loop, that loop replays an order-preserving log (a list), not a dict keyed by
    field name (a dict keeps a key at its first insertion position)"""
    mod = ctx.repo.mod(M_INIT)
    fn = mod.func("Message.load")
    ctx.analysed("Message.load")
    readers = {"load_fields", "parse_fields"}
    # names bound to a reader generator
    gens = set()
    for n in ast.walk(fn):
        if isinstance(n, ast.Assign) and isinstance(n.value, ast.Call) and isinstance(n.value.func, ast.Name) and n.value.func.id in readers:
            gens |= {t.id for t in n.targets if isinstance(t, ast.Name)}

    def is_wire_loop(lp: ast.AST) -> bool:
        if isinstance(lp, ast.For):
            it = lp.iter
            if any(isinstance(c, ast.Call) and isinstance(c.func, ast.Name) and c.func.id in readers for c in ast.walk(it)):
                return True
            if isinstance(it, ast.Name) and it.id in gens:
                return True
        for c in ast.walk(lp):
            if isinstance(c, ast.Call) and isinstance(c.func, ast.Name) and c.func.id == "next" and c.args and ((isinstance(c.args[0], ast.Name) and c.args[0].id in gens) or (isinstance(c.args[0], ast.Call) and isinstance(c.args[0].func, ast.Name) and c.args[0].func.id in readers)):
                return True
        return False

    parents = {}
    for n in ast.walk(fn):
        for c in ast.iter_child_nodes(n):
            parents[c] = n

    def loops_of(n: ast.AST):
        out = []
        while n in parents:
            n = parents[n]
            if isinstance(n, (ast.For, ast.While)):
                out.append(n)
        return out

    sites = []
    for n in ast.walk(fn):
        if isinstance(n, ast.Call):
            f = ast.unparse(n.func)
            if (f == "setattr" and len(n.args) == 3 and not isinstance(n.args[1], ast.Constant)) or (
                    f.endswith("__setattr__") and len(n.args) >= 2 and not isinstance(n.args[-2], ast.Constant)):
                sites.append(n)
        if isinstance(n, ast.Assign):
            for t in n.targets:
                if isinstance(t, ast.Subscript) and isinstance(t.value, ast.Attribute) and t.value.attr == "__dict__" and not isinstance(t.slice, ast.Constant):
                    sites.append(n)
    if not sites:
        ctx.inconclusive(rule, "load:assigns-in-wire-order", "no assignment of a decoded value under a computed field name found in Message.load", mod.loc(fn))
        return
    ctx.count(len(sites))
    for k, site in enumerate(sites):
        lps = loops_of(site)
        name = f"load:assigns-in-wire-order[{k}]" if len(sites) > 1 else "load:assigns-in-wire-order"
        if any(is_wire_loop(lp) for lp in lps):
            ctx.proved(rule, name, mod.loc(site), "inside the record loop")
            continue
        replay = next((lp for lp in lps if isinstance(lp, ast.For)), None)
        if replay is None:
            ctx.inconclusive(rule, name, "assignment outside the record loop and outside any replay loop", mod.loc(site))
            continue
        it = replay.iter
        base = it.func.value if isinstance(it, ast.Call) and isinstance(it.func, ast.Attribute) and it.func.attr in ("items", "keys", "values") else it
        if not isinstance(base, ast.Name):
            ctx.inconclusive(rule, name, f"deferred assignment replays {ast.unparse(it)} (not a local log)", mod.loc(site))
            continue
        binds = [a.value for a in ast.walk(fn) if isinstance(a, (ast.Assign, ast.AnnAssign)) and a.value is not None and any(
            isinstance(t, ast.Name) and t.id == base.id for t in (a.targets if isinstance(a, ast.Assign) else [a.target]))]
        is_dict = bool(binds) and all(isinstance(b, (ast.Dict, ast.DictComp)) or (isinstance(b, ast.Call) and ast.unparse(b.func) in ("dict", "OrderedDict", "collections.OrderedDict")) for b in binds)
        is_list = bool(binds) and all(isinstance(b, (ast.List, ast.ListComp)) or (isinstance(b, ast.Call) and ast.unparse(b.func) in ("list", "deque", "collections.deque")) for b in binds)
        if is_list:
            ctx.proved(rule, name, mod.loc(site), f"deferred, replaying the list {base.id} in record order")
        elif is_dict:
            # re-inserting after removing the key moves it to the end: the only order-preserving use of a dict here
            moved = any(isinstance(c, ast.Call) and isinstance(c.func, ast.Attribute) and c.func.attr in ("pop", "move_to_end") and isinstance(c.func.value, ast.Name)
                        and c.func.value.id == base.id for c in ast.walk(fn)) or any(
                isinstance(d, ast.Delete) and any(isinstance(t, ast.Subscript) and isinstance(t.value, ast.Name) and t.value.id == base.id for t in d.targets) for d in ast.walk(fn))
            if moved:
                ctx.inconclusive(rule, name, f"deferred assignment from the dict {base.id} with re-insertion (order not analysed)", mod.loc(site))
            else:
                ctx.refuted(rule, name, f"deferred:{base.id}", mod.loc(site),
                            f"decoded values are collected in the dict {base.id} keyed by field name and assigned after the record loop: a dict keeps a key at its first insertion "
                            "position, so members are assigned in first-occurrence order and the oneof member that came last on the wire does not win when it also occurred earlier",
                            "oneof {a=1; b=2}: records a, b, a  ->  b stays selected")
        else:
            ctx.inconclusive(rule, name, f"deferred assignment replays {base.id}, whose construction is not recognised", mod.loc(site))


def rule_D9(ctx, rule: str = "D9") -> None:
    """the field helpers (string_field, bytes_field, ... - the calls the plugin emits) hand every presence-relevant parameter
    on: a helper that takes `optional` / `group` / `wraps` passes that very parameter to dataclass_field under the same name.
    Siblings must agree: a helper that drops `optional` declares a proto3-optional field as implicit-presence (default
    PLACEHOLDER, optional=False), so its explicit empty value is not written.  Read on the unexpanded source, nested defs
    (helpers made by a factory) included."""
    import os as _os
    mod = ctx.repo.mod(M_INIT)
    tree = mod.tree
    n = 0
    bad = []
    for f in ast.walk(tree):
        if not isinstance(f, ast.FunctionDef) or f.name == "dataclass_field":
            continue
        params = {a.arg for a in f.args.posonlyargs + f.args.args + f.args.kwonlyargs}
        watched = params & {"optional", "group", "wraps"}
        if not watched:
            continue
        calls = [c for c in ast.walk(f) if isinstance(c, ast.Call) and ast.unparse(c.func) in ("dataclass_field", "betterproto.dataclass_field")
                 and not any(c in list(ast.walk(g)) for g in ast.walk(f) if isinstance(g, ast.FunctionDef) and g is not f)]
        if not calls:
            continue
        for c in calls:
            kws = {k.arg: k.value for k in c.keywords if k.arg}
            star = any(k.arg is None for k in c.keywords)
            for w in sorted(watched):
                n += 1
                v = kws.get(w)
                name = f"{f.name}:forwards-{w}"
                if star and v is None:
                    ctx.inconclusive(rule, name, "keywords are passed as **mapping", mod.loc(c))
                elif isinstance(v, ast.Name) and v.id == w:
                    ctx.proved(rule, name, mod.loc(c))
                elif v is None:
                    bad.append((f.name, w))
                    ctx.refuted(rule, name, "dropped", mod.loc(c),
                                f"{f.name} takes `{w}` but does not pass it to dataclass_field (its siblings do): a field declared with {w}=... is built as if the argument had not been given"
                                + (" - a proto3 optional field becomes an implicit-presence field whose explicit empty value is not encoded" if w == "optional" else ""),
                                f"{f.name}(1, {w}=...)")
                else:
                    ctx.inconclusive(rule, name, f"{w}={ast.unparse(v)}", mod.loc(c))
    ctx.floor(rule, "helper parameters forwarded", n, 4)     # a factory that makes the scalar helpers leaves few call sites
