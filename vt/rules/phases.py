"""Y7 - construct/render phase discipline of the plugin model (models.py) and builtin-shadowing agreement.

The plugin builds its model in a *construct* phase (dataclass __post_init__ methods driven by parser.py) and then renders
the body template, then the header template.  Import decisions recorded during construction (flags and sets on
OutputTemplate filled by add_imports_to) are snapshots: they are only right if every piece of state they were computed
from was already complete.

Y7a (stale snapshot): a function reachable from a __post_init__ must not read model state whose only writers run at
      render time (methods reached only from the templates).
Y7b (sibling agreement): every `annotation` producer that embeds a Python builtin type name consults the message's
      table of shadowed builtins, and whenever it can emit the `builtins.` prefix its `use_builtins` agrees.
"""
from __future__ import annotations

import ast
from typing import Dict, List, Set, Tuple

from ..src import AnalysisError

M_MODELS = "src/betterproto/plugin/models.py"
M_PARSER = "src/betterproto/plugin/parser.py"
MUTATORS = {"add", "append", "update", "extend", "insert", "setdefault", "pop", "remove", "clear", "discard"}


def _functions(tree: ast.Module) -> Dict[str, ast.FunctionDef]:
    out: Dict[str, ast.FunctionDef] = {}
    for n in tree.body:
        if isinstance(n, ast.ClassDef):
            for m in n.body:
                if isinstance(m, (ast.FunctionDef, ast.AsyncFunctionDef)):
                    out[f"{n.name}.{m.name}"] = m
                elif isinstance(m, ast.ClassDef):
                    for mm in m.body:
                        if isinstance(mm, (ast.FunctionDef, ast.AsyncFunctionDef)):
                            out[f"{n.name}.{m.name}.{mm.name}"] = mm
        elif isinstance(n, (ast.FunctionDef, ast.AsyncFunctionDef)):
            out[n.name] = n
    return out


def _attr_facts(fn: ast.AST) -> Tuple[Set[str], Set[str], Set[str]]:
    """(attribute names read, attribute names written or mutated, names called or read as attribute of an object)"""
    reads: Set[str] = set()
    writes: Set[str] = set()
    uses: Set[str] = set()
    for n in ast.walk(fn):
        if isinstance(n, (ast.Assign, ast.AugAssign, ast.AnnAssign)):
            targets = n.targets if isinstance(n, ast.Assign) else [n.target]
            for t in targets:
                for tt in (t.elts if isinstance(t, (ast.Tuple, ast.List)) else [t]):
                    if isinstance(tt, ast.Attribute):
                        writes.add(tt.attr)
                    elif isinstance(tt, ast.Subscript) and isinstance(tt.value, ast.Attribute):
                        writes.add(tt.value.attr)
        elif isinstance(n, ast.Call) and isinstance(n.func, ast.Attribute) and n.func.attr in MUTATORS and isinstance(n.func.value, ast.Attribute):
            writes.add(n.func.value.attr)
        if isinstance(n, ast.Attribute) and isinstance(n.ctx, ast.Load):
            reads.add(n.attr)
            uses.add(n.attr)
        if isinstance(n, ast.Call) and isinstance(n.func, ast.Name):
            uses.add(n.func.id)
    return reads, writes, uses


def rule_Y7(ctx, rule: str = "Y7") -> None:
    mod = ctx.repo.mod(M_MODELS)
    pmod = ctx.repo.mod(M_PARSER)
    ctx.analysed("plugin/models.py (all methods)", "plugin/parser.py")
    fns = _functions(mod.tree)
    facts = {q: _attr_facts(f) for q, f in fns.items()}
    by_name: Dict[str, List[str]] = {}
    for q in fns:
        by_name.setdefault(q.rsplit(".", 1)[-1], []).append(q)
    # construct phase: every __post_init__, everything parser.py touches by name, closed under uses
    roots = [q for q in fns if q.endswith(".__post_init__")]
    if len(roots) < 4:
        raise AnalysisError("plugin model lost its __post_init__ construction methods")
    for n in ast.walk(pmod.tree):
        if isinstance(n, ast.Attribute) and n.attr in by_name:
            roots += by_name[n.attr]
        if isinstance(n, ast.Call) and isinstance(n.func, ast.Name) and n.func.id in by_name:
            roots += by_name[n.func.id]
    construct: Set[str] = set()
    work = list(dict.fromkeys(roots))
    while work:
        q = work.pop()
        if q in construct:
            continue
        construct.add(q)
        for u in facts[q][2]:
            for c in by_name.get(u, []):
                if c not in construct:
                    work.append(c)
    ctx.count(len(fns))
    # dataclass fields holding mutable model state (sets, lists, dicts, flags)
    state_fields: Set[str] = set()
    for n in ast.walk(mod.tree):
        if isinstance(n, ast.ClassDef):
            for st in n.body:
                if isinstance(st, ast.AnnAssign) and isinstance(st.target, ast.Name):
                    state_fields.add(st.target.id)
    writers: Dict[str, Set[str]] = {}
    for q, (_, w, _) in facts.items():
        for a in w:
            writers.setdefault(a, set()).add(q)
    n_ob = 0
    for q in sorted(construct):
        for a in sorted(facts[q][0] & state_fields):
            ws = writers.get(a, set())
            if not ws:
                continue
            n_ob += 1
            render_only = sorted(w for w in ws if w not in construct)
            construct_w = sorted(w for w in ws if w in construct)
            name = f"{q} reads {a}"
            if render_only and not construct_w:
                ctx.refuted(rule, name, f"writers={','.join(render_only)}", mod.loc(fns[q]),
                            f"{q} runs while the model is constructed and reads {a}, but {a} is only filled by {render_only} (render time, reached from the templates): what is "
                            f"recorded from it during construction (e.g. import decisions) is a stale snapshot", "a field named like a builtin after a field of that builtin type")
            else:
                ctx.proved(rule, name, mod.loc(fns[q]), f"writers in construct phase: {construct_w}" + (f"; render-time writers too: {render_only}" if render_only else ""))
    ctx.floor(rule, "construct-phase state reads", n_ob, 5)

    rule_Y7d(ctx, rule)
    # Y7b: annotation producers agree on builtin shadowing
    ann = {q: f for q, f in fns.items() if q.endswith(".annotation")}
    if len(ann) < 2:
        raise AnalysisError("expected at least two `annotation` producers (field and map entry)")
    for q, f in sorted(ann.items()):
        src = ast.unparse(f)
        # methods of the model that the producer calls (self.parent.qualify(..), self.parent.shadows(..)) are read with it
        called_ = {c.func.attr for c in ast.walk(f) if isinstance(c, ast.Call) and isinstance(c.func, ast.Attribute)} | {
            a.attr for a in ast.walk(f) if isinstance(a, ast.Attribute)}
        helpers_ = [ff for qq, ff in fns.items() if qq.rsplit(".", 1)[-1] in called_ and qq.rsplit(".", 1)[-1] not in ("annotation",) and not any(
            ast.unparse(d) == "property" for d in ff.decorator_list)]
        src_h = src + "".join(ast.unparse(ff) for ff in helpers_)
        embeds = any(isinstance(n, ast.Attribute) and n.attr.startswith("py_") and n.attr.endswith("type") for n in ast.walk(f))
        if not embeds:
            ctx.proved(rule, f"{q}:shadowing", mod.loc(f), "embeds no Python type name")
            continue
        consults = "builtins_types" in src_h or "use_builtins" in src
        prefixes = any(isinstance(n, ast.Constant) and isinstance(n.value, str) and "builtins." in n.value for ff in [f] + helpers_ for n in ast.walk(ff))
        if consults and prefixes:
            ctx.proved(rule, f"{q}:shadowing", mod.loc(f))
        else:
            ctx.refuted(rule, f"{q}:shadowing", "no-builtins-prefix", mod.loc(f),
                        f"{q} embeds a Python type name into the annotation without consulting the message's shadowed builtins (its siblings do): when another field of the "
                        "message is named like that builtin (e.g. `int`, `str`, `bool`), the annotation evaluates to the field object and the class cannot be used",
                        "message M { repeated int32 int = 1; map<int32, int32> m = 2; }")
        # a producer whose type name may come from unwrapping a wrapper message (get_type_reference with unwrap left on)
        # has to apply the shadowing to the unwrapped scalar as well
        unwraps = any(isinstance(c, ast.Call) and ast.unparse(c.func).endswith("get_type_reference") and not any(k.arg == "unwrap" for k in c.keywords)
                      for qq, ff in fns.items() if qq.rsplit(".", 1)[0] == q.rsplit(".", 1)[0] for c in ast.walk(ff))
        if consults and prefixes and unwraps:
            ub = fns.get(q.rsplit(".", 1)[0] + ".use_builtins")
            both = src + (ast.unparse(ub) if ub is not None else "")
            if any(w in both for w in ("wrapped", "field_wraps", "WRAPPER_TYPES")):
                ctx.proved(rule, f"{q}:shadowing-of-unwrapped-scalars", mod.loc(f))
            else:
                ctx.refuted(rule, f"{q}:shadowing-of-unwrapped-scalars", "wrapper-not-considered", mod.loc(f),
                            f"{q} compares the whole type string with the shadowed builtins; for a wrapper field that string is Optional[<scalar>], so the scalar is never "
                            "prefixed and evaluates to the shadowing field", "message M { string int = 1; google.protobuf.Int32Value w = 2; }")
        # whoever can emit the prefix must also report it through use_builtins of the same class (the import decision reads it)
        cls = q.rsplit(".", 1)[0]
        if consults and prefixes and "use_builtins" not in src:
            ub = fns.get(f"{cls}.use_builtins")
            if ub is None:
                ctx.refuted(rule, f"{cls}.use_builtins:agrees-with-annotation", "missing", mod.loc(f),
                            f"{cls}.annotation can emit the builtins. prefix on its own condition but {cls} does not define use_builtins accordingly: `import builtins` is not recorded")
            else:
                ctx.proved(rule, f"{cls}.use_builtins:agrees-with-annotation", mod.loc(ub))


def rule_Y7d(ctx, rule: str = "Y7") -> None:
    """the table of shadowed builtins holds the names that are *emitted* as class attributes: it is built with the same
    naming function as FieldCompiler.py_name"""
    mod = ctx.repo.mod(M_MODELS)
    fns = _functions(mod.tree)
    py = fns.get("FieldCompiler.py_name")
    if py is None:
        raise AnalysisError("FieldCompiler.py_name not found")
    namers = {ast.unparse(c.func) for n in ast.walk(py) if isinstance(n, ast.Return) and n.value is not None for c in ast.walk(n.value) if isinstance(c, ast.Call)}
    writers = []
    for q, f in fns.items():
        for n in ast.walk(f):
            if isinstance(n, ast.Assign) and any(isinstance(t, ast.Attribute) and t.attr == "builtins_types" for t in n.targets):
                writers.append((q, f, n))
    if not writers:
        ctx.proved(rule, "builtins_types:emitted-names", mod.loc(py), "no table of shadowed builtins is built")
        return
    for q, f, n in writers:
        # follow one level of local definitions used in the assigned expression
        exprs = [n.value]
        for x in ast.walk(n.value):
            if isinstance(x, ast.Name):
                for a in ast.walk(f):
                    if isinstance(a, ast.Assign) and any(isinstance(t, ast.Name) and t.id == x.id for t in a.targets):
                        exprs.append(a.value)
        calls = {ast.unparse(c.func) for e in exprs for c in ast.walk(e) if isinstance(c, ast.Call)}
        # map(F, names): F is applied to every name
        calls |= {ast.unparse(c.args[0]) for e in exprs for c in ast.walk(e) if isinstance(c, ast.Call) and ast.unparse(c.func) == "map" and c.args and isinstance(c.args[0], (ast.Name, ast.Attribute))}
        raw_names = any(isinstance(a, ast.Attribute) and a.attr == "name" for e in exprs for a in ast.walk(e))
        if namers & calls or any("py_name" in ast.unparse(e) for e in exprs):
            ctx.proved(rule, f"{q}:builtins_types:emitted-names", mod.loc(n), ",".join(sorted(namers & calls)) or "py_name")
        elif raw_names:
            ctx.refuted(rule, f"{q}:builtins_types:emitted-names", "raw-proto-names", mod.loc(n),
                        f"the shadowed-builtins table is filled with the raw proto field names, but the class attributes are named by {sorted(namers)}: a field `Str`/`BOOL`/`Int` is "
                        "emitted as `str`/`bool`/`int` and shadows the builtin without being in the table", "message M { int32 Str = 1; string s = 2; }")
        else:
            ctx.inconclusive(rule, f"{q}:builtins_types:emitted-names", "construction of the table not recognised", mod.loc(n))
