"""C08 - unknown fields survive decode/encode (U1-U4)."""
from . import codec, decode

PROP = "C08"
TECHNIQUE = "def-use of consumed bytes into ParsedField.raw by E2 with fresh call identities; who-writes/who-emits checks; CFG must-pass for byte accounting"
EXPLANATION = (
    "Static byte-conservation check: for each wire type the field readers are interpreted with every consuming call given a fresh "
    "identity, and the term yielded as ParsedField.raw must be exactly the concatenation of everything consumed; the unknown-number "
    "branch of Message.load must append exactly that raw term and touch no field; dump and __len__ must emit/count the unknown bytes "
    "on every normal path; the per-field byte accounting must lie on every path of the field loop (shared with C10)."
)
RULE_TEXT = "obligation = (rule, reader, wire type / branch); evaluations = abstract paths + CFG queries; non-trivial = distinct consuming sites"


def run(ctx) -> None:
    for name, fn in (("U1", decode.rule_U1), ("U2", decode.rule_U2), ("U3", decode.rule_U3), ("U2b", decode.rule_U2b), ("U5", decode.rule_U5), ("U9", decode.rule_U9), ("U11", decode.rule_U11)):
        ctx.rules_run.append(name)
        fn(ctx)
    ctx.rules_run.append("T1[message]")
    codec.rule_T1(ctx, "T1", only=("message",))   # unknown fields of a nested message travel inside bytes(sub): it must be encoded unconditionally
    ctx.rules_run.append("U4")
    decode.rule_S2(ctx, "U4")
    ctx.rules_run.append("U7")
    decode.rule_S1(ctx, "U7")      # an unknown field at the end of a sized message does not make the reader run into what follows
    ctx.rules_run.append("U8")
    from . import varint
    varint.rule_N7(ctx, "U8")      # the raw bytes kept for an unknown field are all the bytes that were read for it (tag included)
    ctx.rules_run.append("U10")
    from .c09 import rule_L5d
    rule_L5d(ctx, "U10")           # a delimited frame announces all it contains, the unknown fields included
    ctx.rules_run.append("U6")
    decode.rule_M2b(ctx, "U6")     # any field number of a newer schema (1 .. 2**29-1) is readable
