"""C09 - len(m) equals the encoded size; dump writes exactly bytes(m).

Rules L1..L5 (DESIGN.md section 3, C09)."""
from __future__ import annotations

import ast
from typing import Any, Dict, List

from ..absint import Interp, Path
from ..fieldloop import TYPE_NAMES, interp_for, type_binding, val_text, META
from ..lenalg import L, size_term, _sum, sizer_call
from ..sibling import Summary, acc_wrap, canon_val, outcome_class, report
from ..src import AnalysisError, M_INIT
from ..sym import A, C, N, Sym, dotted, show
from . import varint

PROP = "C09"
TECHNIQUE = "sibling comparison of E2 path summaries under a length homomorphism (static, finite-domain abstract interpretation)"
EXPLANATION = (
    "Static relational check between hand-duplicated siblings: every path of the writer (dump, _serialize_single, "
    "_preprocess_single, dump_varint) is enumerated by a finite-domain abstract interpreter over the 18 proto types and "
    "the code's own guard atoms, mapped through the length homomorphism L (write(e) -> size += L(e)) and compared with "
    "every compatible path of the sizer (__len__, _len_single, _len_preprocessed_single, size_varint). Decides that the "
    "two siblings are images of each other; does not execute any code and does not decide arithmetic inside varint arguments."
)
RULE_TEXT = (
    "obligation = one (rule, proto type / helper) pair; evaluations = compatible (writer path, sizer path) pairs compared; "
    "non-trivial = the pair has at least one emitting event"
)

TYPES_PLUS = TYPE_NAMES + ["<unlisted>"]


def _writer_total(p: Path, stream: str) -> Sym:
    parts = []
    for e in p.events:
        if e.kind != "call" or e.depth != 0:
            continue
        c = e.data
        name = dotted(c[1])
        if name == f"{stream}.write" and len(c[2]) == 1:
            parts.append(acc_wrap(e.loops, L(c[2][0])))
        elif name == "dump_varint" and len(c[2]) == 2 and c[2][1] == N(stream):
            parts.append(acc_wrap(e.loops, _sum([sizer_call("size_varint", (c[2][0],), ())])))
    return _sum(parts)


def _make_unfold(mod):
    """_len_single(n, <const type>, V, serialize_empty=<const>) is replaced by its own body when, under those constants, the
    function returns the same expression on every path (e.g. the always-emitted map entry): the sizer may
    then be written either through the helper or as the explicit tag + length prefix + payload sum"""
    from ..sym import subst
    cache: Dict[Any, Any] = {}

    def unfold(name, args, kw):
        if name != "_len_single" or not mod.has(name) or len(args) != 3:
            return None
        kwd = dict(kw)
        se, wr = kwd.get("serialize_empty", C(False)), kwd.get("wraps", C(""))
        if args[1][0] != "c" or se != C(True) or wr[0] != "c":
            return None
        key = (args[1], se, wr)
        if key not in cache:
            fn = mod.func(name)
            inl = {"_len_preprocessed_single": (mod, mod.func("_len_preprocessed_single"))} if mod.has("_len_preprocessed_single") else {}
            try:
                paths = Interp(mod, bindings={N("proto_type"): args[1][1], N("serialize_empty"): True, N("wraps"): wr[1]}, inline=inl).run(fn)
            except AnalysisError:
                paths = []
            # every path returns the same expression: the result does not depend on anything the function decides
            ok = bool(paths) and all(p.outcome == "return" and p.value is not None and p.value == paths[0].value for p in paths)
            cache[key] = paths[0].value if ok else None
        body = cache[key]
        if body is None:
            return None
        return subst(body, lambda t: args[0] if t == N("field_number") else (args[2] if t == N("value") else None))

    return unfold


def rule_L1(ctx) -> None:
    from .. import lenalg
    mod = ctx.repo.mod(M_INIT)
    from .. import sibling
    lenalg.UNFOLD = _make_unfold(mod)
    ld = mod.consts.get("WIRE_LEN_DELIM_TYPES")
    sibling.LEN_DELIM_TYPES = set(ld) if isinstance(ld, (list, tuple, set, frozenset)) else None
    try:
        _rule_L1(ctx, mod)
    finally:
        lenalg.UNFOLD = None
        sibling.LEN_DELIM_TYPES = None


def _rule_L1(ctx, mod) -> None:
    dump = mod.func("Message.dump")
    ln = mod.func("Message.__len__")
    ctx.analysed("Message.dump", "Message.__len__")
    params = [a.arg for a in dump.args.args]
    if len(params) < 2:
        raise AnalysisError("Message.dump lost its stream parameter")
    stream = params[1]
    delimit = params[2] if len(params) > 2 else None

    # accepted idiom: the sizer is defined through the writer
    rets = [n for n in ast.walk(ln) if isinstance(n, ast.Return)]
    if len(rets) == 1 and rets[0].value is not None and ast.unparse(rets[0].value) in ("len(bytes(self))", "len(self.__bytes__())"):
        ctx.proved("L1", "Message.__len__~Message.dump", mod.loc(ln), "sizer defined through the writer")
        return

    from ..fieldloop import VALUE
    is_dict = ("call", N("isinstance"), (VALUE, N("dict")), ())
    for t in TYPES_PLUS:
        # a field's value is a dict exactly when the field is a map (map_field is the only constructor with a dict default)
        shape = {is_dict: t == "map"}
        wi = interp_for(mod, bindings=type_binding(t), force_bool_kwargs=["serialize_empty"],
                        assume={**_delimit_false(mod, dump, delimit), **shape})
        wpaths = wi.run(dump)
        si = interp_for(mod, bindings=type_binding(t), force_bool_kwargs=["serialize_empty"], assume=shape)
        spaths = si.run(ln)
        writer = [Summary(canon_val(p.valuation), outcome_class(p), _writer_total(p, stream), 0) for p in wpaths]
        sizer = []
        for p in spaths:
            tot = size_term(p.value) if p.outcome == "return" and p.value is not None else _sum([])
            sizer.append(Summary(canon_val(p.valuation), outcome_class(p), tot, 0))
        report(ctx, "L1", f"Message.__len__~Message.dump[{t}]", mod.loc(ln), writer, sizer,
               "construct a message whose field satisfies the witness valuation and compare len(m) with len(bytes(m))")


def _delimit_false(mod, dump, delimit) -> Dict[Sym, bool]:
    """the delimiter is handled by L5; L1 compares the un-delimited body"""
    if delimit is None:
        return {}
    out: Dict[Sym, bool] = {}
    sd = mod.consts.get("SIZE_DELIMITED")
    out[("op", "==", N(delimit), C(sd))] = False
    out[N(delimit)] = False
    return out


def _pair(ctx, rule: str, wq: str, sq: str, wtotal, stotal, domain_param: str) -> None:
    mod = ctx.repo.mod(M_INIT)
    wf = mod.func(wq)
    sf = mod.func(sq)
    ctx.analysed(wq, sq)
    wparams = [a.arg for a in wf.args.args + wf.args.kwonlyargs]
    sparams = [a.arg for a in sf.args.args + sf.args.kwonlyargs]
    if wparams != sparams:
        ctx.inconclusive(rule, f"{sq}~{wq}", f"parameter lists differ: {wparams} vs {sparams}", mod.loc(sf))
        return
    # the table function of struct formats is part of both siblings' dispatch: read through it (either sibling may index a table
    # of compiled codecs instead)
    inl = {"_pack_fmt": (mod, mod.func("_pack_fmt"))} if mod.has("_pack_fmt") else {}
    # a sizer that is defined through its writer for some types (`return len(<writer>(same arguments))`): the writer is read
    # through, so that the comparison is between what is written and the length taken of it
    sinl = dict(inl)
    if any(isinstance(c, ast.Call) and isinstance(c.func, ast.Name) and c.func.id == wq for c in ast.walk(sf)):
        sinl[wq] = (mod, wf)
    for t in TYPES_PLUS:
        b = {N(domain_param): t}
        wpaths = Interp(mod, bindings=b, inline=dict(inl)).run(wf)
        spaths = Interp(mod, bindings=b, inline=dict(sinl)).run(sf)
        writer = [Summary(canon_val(p.valuation), outcome_class(p), wtotal(p), 0) for p in wpaths]
        sizer = [Summary(canon_val(p.valuation), outcome_class(p), stotal(p), 0) for p in spaths]
        report(ctx, rule, f"{sq}~{wq}[{t}]", mod.loc(sf), writer, sizer)


def rule_L2(ctx) -> None:
    def wt(p: Path) -> Sym:
        return L(p.value) if p.outcome == "return" and p.value is not None else _sum([])

    def st(p: Path) -> Sym:
        return size_term(p.value) if p.outcome == "return" and p.value is not None else _sum([])

    _pair(ctx, "L2", "_serialize_single", "_len_single", wt, st, "proto_type")


def rule_L3(ctx) -> None:
    def wt(p: Path) -> Sym:
        return L(p.value) if p.outcome == "return" and p.value is not None else _sum([])

    def st(p: Path) -> Sym:
        return size_term(p.value) if p.outcome == "return" and p.value is not None else _sum([])

    _pair(ctx, "L3", "_preprocess_single", "_len_preprocessed_single", wt, st, "proto_type")


def rule_L5(ctx) -> None:
    mod = ctx.repo.mod(M_INIT)
    # __bytes__ -> dump(stream) without delimiter, returns the stream's value
    fb = mod.func("Message.__bytes__")
    ctx.analysed("Message.__bytes__", "Message.SerializeToString")
    paths = Interp(mod).run(fb)
    ok = True
    detail = ""
    gen = shared_chunk_generator(mod)
    if gen is not None and all(p.outcome == "return" and p.value is not None and p.value == ("call", A(C(b""), "join"), (("call", A(N("self"), gen), (), ()),), ()) for p in paths):
        # dump writes every chunk of self.<gen>() and nothing else after the prefix; __bytes__ joins the same chunks
        ctx.count(len(paths))
        ctx.proved("L5", "Message.__bytes__->dump", mod.loc(fb), f"both are the chunks of self.{gen}()")
        paths = []
    for p in paths:
        dumps = [e for e in p.events if e.kind == "call" and dotted(e.data[1]) == "self.dump"]
        if len(dumps) != 1:
            ok, detail = False, f"{len(dumps)} calls of self.dump"
            break
        c = dumps[0].data
        extra = list(c[2][1:]) + [v for k, v in c[3] if k != "stream"]
        if any(x != C(False) and x != C(0) for x in extra):
            ok, detail = False, f"dump called with extra arguments {show(c)}"
            break
        stream_arg = c[2][0] if c[2] else dict(c[3]).get("stream")
        if p.outcome != "return" or p.value is None or p.value[0] != "call" or dotted(p.value[1]).split(".")[-1] != "getvalue" \
                or p.value[1][1] != stream_arg:
            ok, detail = False, f"does not return the dumped stream's value: {show(p.value) if p.value else None}"
            break
    ctx.count(len(paths))
    if not paths:
        pass
    elif ok:
        ctx.proved("L5", "Message.__bytes__->dump", mod.loc(fb))
    else:
        ctx.refuted("L5", "Message.__bytes__->dump", detail, mod.loc(fb), detail)

    fs = mod.func("Message.SerializeToString")
    paths = Interp(mod).run(fs)
    ctx.count(len(paths))
    good = all(p.outcome == "return" and p.value in (("call", N("bytes"), (N("self"),), ()),
                                                       ("call", A(N("self"), "__bytes__"), (), ())) for p in paths)
    if good:
        ctx.proved("L5", "Message.SerializeToString->bytes", mod.loc(fs))
    else:
        ctx.refuted("L5", "Message.SerializeToString->bytes", "returns " + "; ".join(show(p.value) for p in paths if p.value), mod.loc(fs),
                    "SerializeToString does not return bytes(self)")

    rule_L5d(ctx, "L5")


def shared_chunk_generator(mod):
    """name of the generator method G when Message.dump, after an optional size prefix, is exactly `for c in self.G(): stream.write(c)`
    (the unexpanded source): then the bytes of the message are the concatenation of G's chunks"""
    nodes = mod.defs.get("Message.dump")
    if not nodes:
        return None
    dump = nodes[0]
    stream = dump.args.args[1].arg if len(dump.args.args) > 1 else "stream"
    body = [st for st in dump.body if not (isinstance(st, ast.Expr) and isinstance(st.value, ast.Constant))]
    loops = [st for st in body if isinstance(st, ast.For)]
    if len(loops) != 1:
        return None
    lp = loops[0]
    if not (isinstance(lp.iter, ast.Call) and isinstance(lp.iter.func, ast.Attribute) and isinstance(lp.iter.func.value, ast.Name) and lp.iter.func.value.id == "self"
            and not lp.iter.args and not lp.iter.keywords and isinstance(lp.target, ast.Name) and len(lp.body) == 1 and not lp.orelse):
        return None
    w = lp.body[0]
    if not (isinstance(w, ast.Expr) and isinstance(w.value, ast.Call) and ast.unparse(w.value.func) == f"{stream}.write" and len(w.value.args) == 1
            and isinstance(w.value.args[0], ast.Name) and w.value.args[0].id == lp.target.id):
        return None
    # nothing else writes after the loop
    after = body[body.index(lp) + 1:]
    if any(isinstance(c, ast.Call) and ast.unparse(c.func) == f"{stream}.write" for st in after for c in ast.walk(st)):
        return None
    g = lp.iter.func.attr
    gn = mod.defs.get(f"Message.{g}")
    if not gn or not any(isinstance(y, (ast.Yield, ast.YieldFrom)) for y in ast.walk(gn[0])):
        return None
    return g


def stale_scratch_locals(fn: ast.AST, lp: ast.AST):
    """locals that the loop `lp` both changes in place (`x += ..`, `x.append(..)`) and reads (`len(x)`, passes on, tests) but that
    are bound only outside it: from the second iteration on they still hold what the earlier iterations put there.
    -> [(name, first read inside the loop)]"""
    inside = list(ast.walk(lp))
    mutated = {x.target.id for x in inside if isinstance(x, ast.AugAssign) and isinstance(x.target, ast.Name)} | {
        x.func.value.id for x in inside if isinstance(x, ast.Call) and isinstance(x.func, ast.Attribute) and isinstance(x.func.value, ast.Name)
        and x.func.attr in ("append", "extend", "add", "update", "write", "insert")}
    method_recv = {id(x.func.value) for x in inside if isinstance(x, ast.Call) and isinstance(x.func, ast.Attribute)}
    read = {x.id for x in inside if isinstance(x, ast.Name) and isinstance(x.ctx, ast.Load) and id(x) not in method_recv}
    bound_inside = {t.id for x in inside if isinstance(x, (ast.Assign, ast.AnnAssign)) for t in (x.targets if isinstance(x, ast.Assign) else [x.target]) if isinstance(t, ast.Name)} | {
        x.id for f_ in inside if isinstance(f_, (ast.For, ast.comprehension)) for x in ast.walk(f_.target) if isinstance(x, ast.Name)}
    params = {a.arg for a in fn.args.args}
    out = []
    for v in sorted(mutated & read):
        if v in bound_inside or v in params:
            continue
        use = next(x for x in inside if isinstance(x, ast.Name) and x.id == v and isinstance(x.ctx, ast.Load) and id(x) not in method_recv)
        out.append((v, use))
    return out, sorted(mutated & read)


def rule_L6(ctx, rule: str = "L6") -> None:
    """per-field scratch state starts fresh for every field: a local that the field loop of dump / __len__ both changes in place
    (`buf += ..`, `buf.append(..)`) and reads (`len(buf)`, passes on) is bound inside the loop before it is used - bound once
    above the loop it still holds the payloads of the fields handled earlier, and every later packed field is measured / written
    together with them.  (The running total and the output stream are only ever added to / written to, never read in the loop.)"""
    mod = ctx.repo.mod(M_INIT)
    n = 0
    for q in ("Message.dump", "Message.__len__"):
        fn = mod.func(q)
        ctx.analysed(q)
        loops = [lp for lp in ast.walk(fn) if isinstance(lp, ast.For) and "meta_by_field_name" in ast.unparse(lp.iter)]
        if not loops:
            # the field loop may have been moved into a generator helper: nothing local survives between fields there
            ctx.proved(rule, f"{q.split('.')[-1]}:scratch-state-fresh-per-field", mod.loc(fn), "no field loop in this function")
            n += 1
            continue
        lp = loops[0]
        stale, both = stale_scratch_locals(fn, lp)
        n += 1
        name = f"{q.split('.')[-1]}:scratch-state-fresh-per-field"
        if stale:
            v, use = stale[0]
            ctx.refuted(rule, name, v, mod.loc(use), f"{q.split('.')[-1]}: `{v}` is changed in place and read inside the field loop but bound only above it: from the second field on it still "
                        "contains what the earlier fields put there (two non-empty packed fields: the second is measured / written together with the first)",
                        "M(a=[1, 2, 3], b=[1.0]) with two packed repeated fields: len(m) != len(bytes(m))")
        else:
            ctx.proved(rule, name, mod.loc(lp), f"in-place locals read in the loop: {both or 'none'}, each bound inside it")
    ctx.floor(rule, "emitters", n, 2)


def rule_L5d(ctx, rule: str = "L5") -> None:
    """the delimiter: under delimit == SIZE_DELIMITED everything dump writes after the size prefix is what the prefix counts -
    the prefix is len(self) (whose agreement with the written bytes is L1), or the size of a local buffer that is then the only
    thing written after it; without the option no prefix is written"""
    mod = ctx.repo.mod(M_INIT)
    dump = mod.func("Message.dump")
    params = [a.arg for a in dump.args.args]
    stream = params[1]
    if len(params) < 3:
        raise AnalysisError("Message.dump lost its delimit parameter")
    delimit = params[2]
    sd = mod.consts.get("SIZE_DELIMITED")
    atom = ("op", "==", N(delimit), C(sd))
    bad = None
    n = 0
    for val in (True, False):
        paths = interp_for(mod, assume={atom: val, N(delimit): val}, fork_ifexp=True).run(dump)
        n += len(paths)
        for p in paths:
            if p.outcome == "raise":
                continue
            emits = []
            for e in p.events:
                if e.kind != "call" or e.depth != 0:
                    continue
                nm = dotted(e.data[1])
                if nm == f"{stream}.write":
                    emits.append(("write", e))
                elif nm in ("dump_varint",) and len(e.data[2]) == 2 and e.data[2][1] == N(stream):
                    emits.append(("varint", e))
            prefix = [e for k, e in emits if k == "varint" and size_term(e.data[2][0]) == _sum([("len", N("self"))])]
            if val:
                varints = [(i_, e) for i_, (k, e) in enumerate(emits) if k == "varint" and not e.loops]
                if emits and emits[0][0] == "varint" and emits[0][1] in prefix and len(prefix) == 1 and not emits[0][1].loops:
                    pass
                elif len(varints) == 1:
                    # a prefix measured on a local buffer: B.tell() / len(B.getvalue()) / len(B), followed by writing exactly B
                    i_, e = varints[0]
                    P = e.data[2][0]
                    buf = None
                    if P[0] == "call" and P[1][0] == "a" and P[1][2] == "tell" and not P[2]:
                        buf = P[1][1]
                    elif P[0] == "call" and dotted(P[1]) == "len" and len(P[2]) == 1:
                        inner = P[2][0]
                        buf = inner[1][1] if inner[0] == "call" and inner[1][0] == "a" and inner[1][2] in ("getvalue", "getbuffer") else inner
                    after = [x for k, x in emits[i_ + 1:]]
                    before = emits[:i_]
                    def is_buf(t):
                        return t == buf or (t[0] == "call" and t[1][0] == "a" and t[1][2] in ("getvalue", "getbuffer") and t[1][1] == buf) or (
                            t[0] == "call" and dotted(t[1]) in ("bytes", "memoryview") and len(t[2]) == 1 and is_buf(t[2][0]))
                    if buf is None or buf == N(stream):
                        bad = f"delimit=SIZE_DELIMITED: the size prefix {show(P)} is neither len(self) nor the size of a local buffer"
                    elif before:
                        bad = f"delimit=SIZE_DELIMITED: {show(before[0][1].data)} is written before the size prefix"
                    elif len(after) != 1 or not (after[0].data[2] and is_buf(after[0].data[2][0])):
                        extra = [show(x.data) for x in after if not (x.data[2] and is_buf(x.data[2][0]))]
                        bad = (f"delimit=SIZE_DELIMITED: the size prefix is {show(P)}, the size of the buffer only, but after it dump also writes {extra[:2]}: those bytes (the unknown "
                               "fields) lie outside the announced frame")
                else:
                    bad = f"delimit=SIZE_DELIMITED: first emission is not a single dump_varint(len(self), {stream}) ({[show(e.data) for _, e in emits[:2]]})"
            else:
                if prefix or any(k == "varint" and not e.loops for k, e in emits):
                    bad = "length prefix written although delimit is off"
            if bad:
                break
        if bad:
            break
    ctx.count(n)
    if bad:
        ctx.refuted(rule, "Message.dump:delimiter", bad[:120], mod.loc(dump), bad,
                    "m.dump(s, SIZE_DELIMITED) and compare with encode_varint(len(bytes(m))) + bytes(m)")
    else:
        ctx.proved(rule, "Message.dump:delimiter", mod.loc(dump), f"{n} paths")


def run(ctx) -> None:
    ctx.oracle("declared correspondence phi: write(e)->size+=L(e); encode_varint->size_varint; _serialize_single->_len_single; _preprocess_single->_len_preprocessed_single")
    for name, fn in (("L1", rule_L1), ("L2", rule_L2), ("L3", rule_L3), ("L4", varint.rule_L4), ("L4b", lambda c: varint.rule_N1b(c, "L4")), ("L5", rule_L5), ("L6", rule_L6)):
        ctx.rules_run.append(name)
        fn(ctx)
    ctx.floor("L1", "type instances", len([o for o in ctx.obs if o.rule == "L1"]), 1)
    ctx.floor("L2", "type instances", len([o for o in ctx.obs if o.rule == "L2"]), 19)
    ctx.floor("L3", "type instances", len([o for o in ctx.obs if o.rule == "L3"]), 19)
    ctx.assume("len(x) of a sub-message equals len(bytes(x)) (the property itself, used inductively for nested messages)")
    ctx.assume("struct.pack / str.encode lengths are taken as opaque equal terms on both sides")
