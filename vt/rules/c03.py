"""C03 - plugin output implements the schema (P1-P8)."""
from __future__ import annotations

import ast
import re
from typing import Dict, List, Optional, Set, Tuple

from ..cfg import CFG, normal_edge, own_nodes
from ..proto_text import load_protos, read_lib
from ..src import (AnalysisError, M_IMPORTING, M_INIT, M_LIB_PYD, M_LIB_PYD_COMPILER, M_LIB_STD, M_LIB_STD_COMPILER, M_MODELS, M_PARSER, M_PCOMPILER, M_PMAIN)
from . import template

PROP = "C03"
TECHNIQUE = "template/model interface typing over the Jinja AST; exhaustive table comparison of the bundled descriptor classes with descriptor.proto/plugin.proto text; sibling and ordering checks in the plugin"
EXPLANATION = (
    "Static plumbing check of the plugin (which cannot run here: ruff is absent): every attribute path in both templates is resolved "
    "against the dataclass fields, properties and methods of plugin/models.py (StrictUndefined makes a missing one fatal for every "
    "schema); the descriptor type enumeration is shown exhaustive and consistent with the *_field API; every field and enum value that "
    "the bundled descriptor / well-known-type classes share with descriptor.proto, plugin.proto and the WKT .proto files (parsed as "
    "text) has the same number, kind, cardinality and oneof membership - this clause of the property is decided completely; wrapper "
    "tables agree; required orderings hold; field classification is total and its sibling predicates agree. Translation validity for "
    "arbitrary schemas is not decided."
)
RULE_TEXT = "obligation = (rule, attribute path / descriptor type / class / table entry); evaluations = fields and paths compared; non-trivial = distinct entries"

SPEC_PY = {"TYPE_DOUBLE": "float", "TYPE_FLOAT": "float", "TYPE_BOOL": "bool", "TYPE_STRING": "str", "TYPE_BYTES": "bytes",
           "TYPE_MESSAGE": "<ref>", "TYPE_ENUM": "<ref>"}
INT_KINDS = {"TYPE_INT64", "TYPE_UINT64", "TYPE_INT32", "TYPE_FIXED64", "TYPE_FIXED32", "TYPE_UINT32", "TYPE_SFIXED32", "TYPE_SFIXED64", "TYPE_SINT32", "TYPE_SINT64"}
PROTO_FILES = ["descriptor.proto", "compiler/plugin.proto", "wrappers.proto", "timestamp.proto", "duration.proto", "struct.proto", "any.proto",
               "empty.proto", "field_mask.proto", "source_context.proto", "type.proto", "api.proto"]
SCALAR_KIND = {"double", "float", "int32", "int64", "uint32", "uint64", "sint32", "sint64", "fixed32", "fixed64", "sfixed32", "sfixed64", "bool", "string", "bytes"}


def _tuple_members(mod, name: str, depth: int = 0) -> List[str]:
    def members(v: ast.AST) -> Optional[List[str]]:
        if isinstance(v, (ast.Tuple, ast.List, ast.Set)):
            return [e.attr for e in v.elts if isinstance(e, ast.Attribute)]
        if isinstance(v, ast.Call) and isinstance(v.func, ast.Name) and v.func.id in ("frozenset", "tuple", "set", "list") and len(v.args) == 1 and not v.keywords:
            return members(v.args[0])
        if isinstance(v, ast.BinOp) and isinstance(v.op, (ast.Add, ast.BitOr)):
            a, b = members(v.left), members(v.right)
            return None if a is None or b is None else a + b
        if isinstance(v, ast.Name) and depth < 4:
            try:
                return _tuple_members(mod, v.id, depth + 1)
            except AnalysisError:
                return None
        return None

    for st in mod.tree.body:
        if isinstance(st, ast.Assign) and len(st.targets) == 1 and isinstance(st.targets[0], ast.Name) and st.targets[0].id == name:
            m = members(st.value)
            if m is not None:
                return m
    raise AnalysisError(f"models.py: table {name} vanished")


def rule_P2(ctx) -> None:
    models = ctx.repo.mod(M_MODELS)
    lib = read_lib(ctx.repo.mod(M_LIB_STD))
    init = ctx.repo.mod(M_INIT)
    if "FieldDescriptorProtoType" not in lib:
        raise AnalysisError("bundled lib: FieldDescriptorProtoType vanished")
    members = lib["FieldDescriptorProtoType"].values
    # py_type evaluated for every descriptor type (the member bound symbolically; the PROTO_*_TYPES tables fold to
    # tuples of member references): the Python type name it returns, <ref> for a type reference, or the raise
    from ..absint import Interp
    from ..src import SymName
    from ..sym import A as _A, N as _N, dotted as _dotted
    py_type = models.func("FieldCompiler.py_type")
    n_types = 0
    for mname in sorted(members):
        if mname == "TYPE_GROUP":
            continue
        n_types += 1
        b = {_A(_A(_N("self"), "proto_obj"), "type"): SymName(f"FieldDescriptorProtoType.{mname}")}
        paths = Interp(models, bindings=b).run(py_type)
        ctx.count(len(paths))
        got = set()
        for p in paths:
            if p.outcome == "raise":
                got.add("raise")
            elif p.value is not None and p.value[0] == "c":
                got.add(p.value[1])
            elif p.value is not None and p.value[0] == "call" and _dotted(p.value[1]).endswith("get_type_reference"):
                got.add("<ref>")
            else:
                got.add("?")
            if p.valuation:
                got.add("?")
        want = SPEC_PY.get(mname, "int" if mname in INT_KINDS else None)
        name = f"py_type[{mname}]"
        if "?" in got:
            ctx.inconclusive("P2", name, f"py_type does not evaluate to a definite result for {mname}", models.loc(py_type))
        elif got == {"raise"}:
            ctx.refuted("P2", name, "in=[]", models.loc(py_type), f"descriptor type {mname} is not classified by py_type: fields of this type make the plugin raise NotImplementedError",
                        f"a schema with a {mname[5:].lower()} field")
        elif got != {want}:
            ctx.refuted("P2", name, f"{sorted(map(str, got))}!={want}", models.loc(py_type), f"{mname} is annotated as {sorted(map(str, got))}; expected {want}", f"a schema with a {mname[5:].lower()} field")
        else:
            ctx.proved("P2", name, models.loc(py_type), f"-> {want}")
    ctx.floor("P2", "descriptor types through py_type", n_types, 17)
    # packed table (used by FieldCompiler.packed)
    packed = set(_tuple_members(models, "PROTO_PACKED_TYPES"))
    want_packed = {m for m in members if m not in ("TYPE_GROUP", "TYPE_STRING", "TYPE_BYTES", "TYPE_MESSAGE", "TYPE_ENUM")}
    if packed == want_packed or packed == want_packed | {"TYPE_ENUM"}:
        ctx.proved("P2", "PROTO_PACKED_TYPES", models.rel)
    else:
        ctx.refuted("P2", "PROTO_PACKED_TYPES", f"diff={sorted(packed ^ want_packed)}", models.rel, f"PROTO_PACKED_TYPES differs from the packable scalar kinds by {sorted(packed ^ want_packed)}")
    # field_type: TYPE_X -> x must name an existing betterproto.x_field; each *_field passes TYPE_X and forwards its parameters
    ft = models.func("FieldCompiler.field_type")
    src = ast.unparse(ft)
    # by evaluation: with the descriptor type's member name bound to each TYPE_X in turn, field_type returns "x" (the name the
    # `x_field` helper of the runtime is looked up under) - however the prefix is taken off
    by_eval = None
    try:
        from .. import concrete as _conc
        from ..sym import from_ast as _from_ast
        key_ = _from_ast(ast.parse("FieldDescriptorProtoType(self.proto_obj.type).name", mode="eval").body)
        wrong_ = []
        for m_ in sorted(members):
            ps_ = [p_ for p_ in Interp(models, bindings={key_: m_}, fork_ifexp=True).run(ft) if p_.outcome == "return" and p_.value is not None]
            if len(ps_) != 1:
                raise ValueError("paths")
            got_ = _conc.ev(ps_[0].value, {})
            if got_ != m_[len("TYPE_"):].lower():
                wrong_.append((m_, got_))
        by_eval = wrong_
    except Exception:
        by_eval = None
    if by_eval == []:
        ctx.proved("P2", "field_type:derivation", models.loc(ft), f"{len(members)} descriptor types evaluated")
    elif by_eval:
        ctx.refuted("P2", "field_type:derivation", f"{by_eval[0][0]}->{by_eval[0][1]}", models.loc(ft),
                    f"field_type yields {by_eval[0][1]!r} for {by_eval[0][0]}: the generated call `betterproto.{by_eval[0][1]}_field(..)` does not name the helper of that type",
                    f"a field of type {by_eval[0][0]}")
    elif ".name.lower()" in src.replace("\n", "") and "replace('type_', '')" in src:
        ctx.proved("P2", "field_type:derivation", models.loc(ft))
    else:
        ctx.inconclusive("P2", "field_type:derivation", "field_type is no longer `Type(...).name.lower().replace('type_', '')`", models.loc(ft))
    n_field = 0
    for mname in sorted(members):
        if mname == "TYPE_GROUP":
            continue
        x = mname[len("TYPE_"):].lower()
        q = f"{x}_field"
        made = None
        if not init.has(q):
            made = _factory_made_function(init, q)
            if made is None:
                ctx.refuted("P2", f"field-function[{x}]", "missing", init.rel, f"the plugin emits betterproto.{q}(...) for {mname} but that function does not exist")
                continue
        n_field += 1
        _check_field_fn(ctx, init, q, x, made)
    _check_field_fn(ctx, init, "map_field", "map")
    ctx.floor("P2", "field functions", n_field, 17)
    for t in ("enum", "bool", "int32", "int64", "uint32", "uint64", "sint32", "sint64", "float", "double", "fixed32", "sfixed32", "fixed64", "sfixed64", "string", "bytes", "message", "map"):
        cname = f"TYPE_{t.upper()}"
        if init.consts.get(cname) == t:
            ctx.proved("P2", f"const[{cname}]", init.rel)
        else:
            ctx.refuted("P2", f"const[{cname}]", repr(init.consts.get(cname)), init.rel, f"betterproto.{cname} = {init.consts.get(cname)!r}; MapEntryCompiler emits betterproto.{cname} and the runtime tables expect {t!r}")


def _factory_made_function(init, q: str):
    """`q = F(<constants / names>)` at module level with F a module function that defines one nested function and returns it
    (possibly after setting its __name__): that nested function with F's parameters replaced by the arguments"""
    import copy
    for st in init.tree.body:
        if isinstance(st, ast.Assign) and len(st.targets) == 1 and isinstance(st.targets[0], ast.Name) and st.targets[0].id == q and isinstance(st.value, ast.Call) \
                and isinstance(st.value.func, ast.Name) and init.has(st.value.func.id) and not st.value.keywords:
            f = init.defs[st.value.func.id][0]
            if not isinstance(f, ast.FunctionDef):
                return None
            inner = [b for b in f.body if isinstance(b, ast.FunctionDef)]
            rets = [r for r in ast.walk(f) if isinstance(r, ast.Return) and r.value is not None and not any(r in list(ast.walk(i_)) for i_ in inner)]
            params = [a.arg for a in f.args.args]
            if len(inner) != 1 or len(rets) != 1 or not isinstance(rets[0].value, ast.Name) or rets[0].value.id != inner[0].name or len(params) != len(st.value.args):
                return None
            binding = dict(zip(params, st.value.args))

            class R(ast.NodeTransformer):
                def visit_Name(self, n):
                    if isinstance(n.ctx, ast.Load) and n.id in binding:
                        return copy.deepcopy(binding[n.id])
                    return n
            made = R().visit(copy.deepcopy(inner[0]))
            ast.copy_location(made, st)
            ast.fix_missing_locations(made)
            return made
    return None


def _check_field_fn(ctx, init, q: str, x: str, fn=None) -> None:
    fn = fn if fn is not None else init.func(q)
    calls = [c for c in ast.walk(fn) if isinstance(c, ast.Call) and ast.unparse(c.func) == "dataclass_field"]
    if len(calls) != 1:
        ctx.inconclusive("P2", f"field-function[{x}]", "does not call dataclass_field exactly once", init.loc(fn))
        return
    c = calls[0]
    ty = ast.unparse(c.args[1]) if len(c.args) > 1 else ""
    params = [a.arg for a in fn.args.args]
    kws = {k.arg: ast.unparse(k.value) for k in c.keywords}
    problems = []
    if ty != f"TYPE_{x.upper()}":
        problems.append(f"passes {ty} instead of TYPE_{x.upper()}")
    if not c.args or ast.unparse(c.args[0]) != params[0]:
        problems.append("does not forward the field number")
    for p in params[1:]:
        if p in ("key_type", "value_type"):
            continue
        if kws.get(p) != p:
            problems.append(f"does not forward `{p}`")
    if x == "map" and kws.get("map_types") != "(key_type, value_type)":
        problems.append(f"map_types={kws.get('map_types')}")
    if problems:
        ctx.refuted("P2", f"field-function[{x}]", ";".join(problems), init.loc(fn), f"betterproto.{q}: " + "; ".join(problems), f"a generated class using betterproto.{q}")
    else:
        ctx.proved("P2", f"field-function[{x}]", init.loc(fn))


def _kind_of(ptype: str, msgs, enums, scope: str = "") -> str:
    if ptype in SCALAR_KIND:
        return ptype
    base = ptype.lstrip(".").replace("google.protobuf.compiler.", "").replace("google.protobuf.", "")
    efull = {e.full for e in enums.values()}
    mfull = {m.full for m in msgs.values()}
    parts = scope.split(".") if scope else []
    for i in range(len(parts), -1, -1):
        cand = ".".join(parts[:i] + [base])
        if cand in efull:
            return "enum"
        if cand in mfull:
            return "message"
    return "message"


def rule_P3(ctx, which: str = "std") -> None:
    msgs, enums, used = load_protos(PROTO_FILES)
    if not msgs:
        ctx.notes.append("P3: .proto files not present in the environment; clause not checked")
        ctx.inconclusive("P3", "proto-text-oracle", ".proto files of descriptor.proto / plugin.proto not found next to the repository's environment", "")
        return
    ctx.oracle(f"{len(used)} .proto files under grpc_tools/_proto (parsed as text)")
    rels = (M_LIB_STD, M_LIB_STD_COMPILER) if which == "std" else (M_LIB_PYD, M_LIB_PYD_COMPILER)
    lib = {}
    for rel in rels:
        lib.update(read_lib(ctx.repo.mod(rel)))
    n_fields = n_enums = n_msgs = 0
    for mname, pm in sorted(msgs.items()):
        if mname not in lib or lib[mname].kind != "message":
            continue
        n_msgs += 1
        lc = lib[mname]
        bad = []
        for fname, pf in pm.fields.items():
            lf = lc.fields.get(fname) or lc.fields.get(fname + "_") or lc.fields.get(fname.lower())
            if lf is None:
                continue  # version skew of committed generated code: information only
            n_fields += 1
            ctx.count()
            if lf.number != pf.number:
                bad.append(f"{fname}: number {lf.number} != {pf.number}")
                continue
            kind = "map" if pf.map_types else _kind_of(pf.type, msgs, enums, pm.full)
            if lf.kind != kind:
                bad.append(f"{fname}: kind {lf.kind} != {kind}")
            if pf.map_types and lf.map_types and lf.map_types[0] != pf.map_types[0]:
                bad.append(f"{fname}: map key {lf.map_types[0]} != {pf.map_types[0]}")
            if (pf.label == "repeated") != lf.repeated and not pf.map_types:
                bad.append(f"{fname}: repeated {lf.repeated} != {pf.label == 'repeated'}")
            if which == "std" and (pf.oneof is not None) != (lf.group is not None):
                bad.append(f"{fname}: oneof {lf.group} != {pf.oneof}")
            elif pf.oneof is not None and lf.group != pf.oneof:
                bad.append(f"{fname}: oneof {lf.group} != {pf.oneof}")
        # two lib fields must not share a number
        nums: Dict[int, str] = {}
        for f in lc.fields.values():
            if f.number in nums:
                bad.append(f"{f.name} and {nums[f.number]} share number {f.number}")
            nums[f.number] = f.name
        if bad:
            ctx.refuted("P3", f"{which}:{mname}", ";".join(bad[:3]), f"{rels[0]}:{lc.line}", f"bundled class {mname} disagrees with its .proto definition: {bad}",
                        "plugin reads its CodeGeneratorRequest with this class")
        else:
            ctx.proved("P3", f"{which}:{mname}", f"{rels[0]}:{lc.line}")
    for ename, pe in sorted(enums.items()):
        if ename not in lib or lib[ename].kind != "enum":
            continue
        n_enums += 1
        le = lib[ename]
        bad = []
        for vname, num in pe.values.items():
            cands = [k for k in le.values if k == vname or vname.endswith("_" + k) or vname == k]
            if not cands:
                continue
            k = max(cands, key=len)
            if le.values[k] != num:
                bad.append(f"{vname}: {le.values[k]} != {num}")
        if bad:
            ctx.refuted("P3", f"{which}:{ename}", ";".join(bad[:3]), f"{rels[0]}:{le.line}", f"bundled enum {ename} disagrees with its .proto definition: {bad}")
        else:
            ctx.proved("P3", f"{which}:{ename}", f"{rels[0]}:{le.line}")
    ctx.floor("P3", f"{which} shared fields", n_fields, 200)
    ctx.floor("P3", f"{which} shared enums", n_enums, 18)


def _module_tables(models, kw) -> Dict[Any, Any]:
    """module-level names of the plugin that are bound once to a dict comprehension, or to the result of a module function
    called without arguments, and evaluate (by constant propagation) to a dict display with constant keys"""
    from ..absint import Interp
    from ..sym import N
    out: Dict[Any, Any] = {}
    for st in models.tree.body:
        if not isinstance(st, (ast.Assign, ast.AnnAssign)) or st.value is None:
            continue
        tg = st.targets[0] if isinstance(st, ast.Assign) else st.target
        if not isinstance(tg, ast.Name) or tg.id in models.consts:
            continue
        if isinstance(st.value, ast.Call) and isinstance(st.value.func, ast.Name) and models.has(st.value.func.id) and not st.value.args and not st.value.keywords \
                and isinstance(models.defs[st.value.func.id][0], ast.FunctionDef):
            fn = models.func(st.value.func.id)
        elif isinstance(st.value, ast.DictComp):
            fn = ast.parse("def _vt_module_table():\n    return 0").body[0]
            fn.body[0].value = st.value
            ast.fix_missing_locations(fn)
        else:
            continue
        try:
            paths = [p for p in Interp(models, aliases=dict(out), **kw).run(fn) if p.outcome == "return"]
        except AnalysisError:
            continue
        if len(paths) == 1 and paths[0].value is not None and paths[0].value[0] == "dictd" and all(k[0] == "c" for k, _ in paths[0].value[1]):
            out[N(tg.id)] = paths[0].value
    return out


def _field_wraps_by_class(ctx, models, imp, init, cnames) -> Dict[str, Any]:
    """FieldCompiler.field_wraps at proto_obj.type_name = '.google.protobuf.<class>' for every class name: the constant it
    returns (None = not a wrapper).  Anything that does not fold to one constant is an analysis error, never a verdict."""
    from ..absint import Interp
    from ..sym import A, N, show
    fw = models.func("FieldCompiler.field_wraps")
    kw: Dict[str, Any] = dict(fork_ifexp=True, local_tables=True, module_attrs={"betterproto": set(init.consts) | set(init.defs)})
    if "WRAPPER_TYPES" in imp.consts and any(isinstance(st, ast.ImportFrom) and any(a.name == "WRAPPER_TYPES" and a.asname in (None, "WRAPPER_TYPES") for a in st.names) for st in models.tree.body):
        kw["extra_consts"] = {"WRAPPER_TYPES": imp.consts["WRAPPER_TYPES"]}
    tables = _module_tables(models, kw)
    out: Dict[str, Any] = {}
    for cname in cnames:
        tn = f".google.protobuf.{cname}"
        paths = [p for p in Interp(models, bindings={A(A(N("self"), "proto_obj"), "type_name"): tn}, aliases=tables, **kw).run(fw) if p.outcome == "return"]
        ctx.count(len(paths))
        vals = {p.value for p in paths}
        if len(paths) != 1 or any(v is None or v[0] != "c" for v in vals):
            raise AnalysisError(f"field_wraps: does not fold to a constant for {tn}: {[show(v)[:80] if v else None for v in vals]}")
        out[cname] = next(iter(vals))[1]
    return out


def rule_P4(ctx) -> None:
    imp = ctx.repo.mod(M_IMPORTING)
    init = ctx.repo.mod(M_INIT)
    models = ctx.repo.mod(M_MODELS)
    lib = read_lib(ctx.repo.mod(M_LIB_STD))
    # table 1: WRAPPER_TYPES keys
    wt: Set[str] = set()
    for st in imp.tree.body:
        tgt = st.target if isinstance(st, ast.AnnAssign) else (st.targets[0] if isinstance(st, ast.Assign) else None)
        if tgt is not None and isinstance(tgt, ast.Name) and tgt.id == "WRAPPER_TYPES" and isinstance(st.value, ast.Dict):
            for k, v in zip(st.value.keys, st.value.values):
                if isinstance(k, ast.Constant):
                    wt.add(k.value.split(".")[-1])
    if not wt:
        raise AnalysisError("importing.py: WRAPPER_TYPES vanished")
    # table 2: names accepted by field_wraps - the property evaluated by constant propagation at the type name of every class of
    # the bundled library (however it decides: a regular expression and hasattr(betterproto, ...), or a table derived from
    # WRAPPER_TYPES when the module is loaded)
    fw = models.func("FieldCompiler.field_wraps")
    wraps_of = _field_wraps_by_class(ctx, models, imp, init, sorted(set(lib) | wt))
    accepted: Set[str] = set()
    for cname, w in wraps_of.items():
        if w is not None:
            if not (isinstance(w, str) and w.startswith("betterproto.TYPE_") and w[len("betterproto."):] in init.consts):
                ctx.refuted("P4", f"wrapper[{cname}]", f"wraps={w}", models.loc(fw), f"field_wraps yields {w!r} for google.protobuf.{cname}, which is not a TYPE_* constant of the runtime")
                continue
            accepted.add(cname)
    # table 3: _get_wrapper
    gw = init.table_function("_get_wrapper")
    gwc = {(ast.unparse(v) if isinstance(v, ast.AST) else str(v)): k for k, v in gw.items()}
    all_names = wt | accepted | set(gwc)
    for cname in sorted(all_names):
        problems = []
        if cname not in wt:
            problems.append("not in compile/importing.WRAPPER_TYPES (the annotation is not unwrapped)")
        if cname not in accepted:
            problems.append("not accepted by FieldCompiler.field_wraps")
        if cname not in gwc:
            problems.append("no entry in _get_wrapper")
        lc = lib.get(cname)
        if lc is None:
            problems.append("no such class in the bundled lib")
        else:
            vf = lc.fields.get("value")
            if len(lc.fields) != 1 or vf is None or vf.number != 1:
                problems.append(f"class has fields {sorted(lc.fields)} instead of a single `value = 1`")
            elif cname in gwc and vf.kind != gwc[cname]:
                problems.append(f"value field kind {vf.kind} != wrapped type {gwc[cname]}")
        if problems:
            ctx.refuted("P4", f"wrapper[{cname}]", ";".join(p.split(" (")[0] for p in problems), init.loc(init.func("_get_wrapper")),
                        f"the three wrapper tables disagree about {cname}: " + "; ".join(problems) + " - a field of this type is declared wraps=... but cannot be encoded",
                        f"a schema with a field of type google.protobuf.{cname}")
        else:
            ctx.proved("P4", f"wrapper[{cname}]", init.loc(init.func("_get_wrapper")))
    ctx.floor("P4", "wrapper classes", len(all_names), 9)


def rule_P5(ctx) -> None:
    main = ctx.repo.mod(M_PMAIN)
    fn = main.func("main")
    g = CFG(fn, implicit_exc=False)
    patch = {nd.id for nd in g.nodes if nd.stmt is not None and nd.kind == "stmt" and "monkey_patch_oneof_index" in ast.unparse(nd.stmt)}
    parse = [nd for nd in g.nodes if nd.stmt is not None and nd.kind == "stmt" and any(
        isinstance(c, ast.Call) and (ast.unparse(c.func).endswith(".parse") or ast.unparse(c.func).endswith("FromString") or ast.unparse(c.func) == "generate_code") for c in own_nodes(nd.stmt))]
    dom = g.dominators(labels=normal_edge)
    if patch and parse and all(dom[p.id] & patch for p in parse):
        ctx.proved("P5", "main:monkey-patch-before-parse", main.loc(fn))
    else:
        ctx.refuted("P5", "main:monkey-patch-before-parse", "order", main.loc(fn),
                    "monkey_patch_oneof_index() does not precede the parsing of the CodeGeneratorRequest: oneof_index is then not tracked as set and every oneof member is generated as a plain field",
                    "any schema with a oneof")
    comp = ctx.repo.mod(M_PCOMPILER)
    fn = comp.func("outputfile_compiler")
    g = CFG(fn, implicit_exc=False)
    # render events in evaluation order: `X.render(..)` with X bound to get_template(<name>), `..get_template(<name>).render(..)`,
    # and calls H(<name>, ..) of a function of the module that renders the template its parameter names
    tmpl = {}
    for n in ast.walk(fn):
        if isinstance(n, ast.Assign) and isinstance(n.value, ast.Call) and ast.unparse(n.value.func).endswith("get_template") and n.value.args and isinstance(n.value.args[0], ast.Constant) \
                and isinstance(n.targets[0], ast.Name):
            tmpl[n.targets[0].id] = n.value.args[0].value
    # `a, b = H()` with H a function of the module whose only return is a tuple of get_template(<name>) results (possibly through locals)
    for n in ast.walk(fn):
        if isinstance(n, ast.Assign) and isinstance(n.targets[0], ast.Tuple) and isinstance(n.value, ast.Call) and isinstance(n.value.func, ast.Name) and comp.has(n.value.func.id):
            h_ = comp.func(n.value.func.id)
            rets_ = [r.value for r in ast.walk(h_) if isinstance(r, ast.Return) and r.value is not None]
            loc_ = {a.targets[0].id: a.value for a in ast.walk(h_) if isinstance(a, ast.Assign) and len(a.targets) == 1 and isinstance(a.targets[0], ast.Name)}
            if len(rets_) == 1 and isinstance(rets_[0], ast.Tuple) and len(rets_[0].elts) == len(n.targets[0].elts):
                for t_, e_ in zip(n.targets[0].elts, rets_[0].elts):
                    if isinstance(e_, ast.Name) and e_.id in loc_:
                        e_ = loc_[e_.id]
                    if isinstance(t_, ast.Name) and isinstance(e_, ast.Call) and ast.unparse(e_.func).endswith("get_template") and e_.args and isinstance(e_.args[0], ast.Constant):
                        tmpl[t_.id] = e_.args[0].value
    renderers = {}
    for q, h in comp.functions():
        if "." in q or q == "outputfile_compiler":
            continue
        params = [a.arg for a in h.args.args]
        gets = [c for c in ast.walk(h) if isinstance(c, ast.Call) and ast.unparse(c.func).endswith("get_template") and c.args and isinstance(c.args[0], ast.Name) and c.args[0].id in params]
        if gets and any(isinstance(c, ast.Call) and isinstance(c.func, ast.Attribute) and c.func.attr == "render" for c in ast.walk(h)):
            renderers[q] = params.index(gets[0].args[0].id)

    def calls_in_order(e):
        for ch in ast.iter_child_nodes(e):
            yield from calls_in_order(ch)
        if isinstance(e, ast.Call):
            yield e

    def events(stmt):
        out = []
        for c in calls_in_order(stmt):
            name = None
            if isinstance(c.func, ast.Attribute) and c.func.attr == "render":
                r = c.func.value
                if isinstance(r, ast.Name):
                    name = tmpl.get(r.id)
                elif isinstance(r, ast.Call) and ast.unparse(r.func).endswith("get_template") and r.args and isinstance(r.args[0], ast.Constant):
                    name = r.args[0].value
            elif isinstance(c.func, ast.Name) and c.func.id in renderers and len(c.args) > renderers[c.func.id] and isinstance(c.args[renderers[c.func.id]], ast.Constant):
                name = c.args[renderers[c.func.id]].value
            if isinstance(name, str):
                out.append("body" if name.startswith("template") else "header" if name.startswith("header") else name)
        return out

    ev = {nd.id: events(nd.stmt) for nd in g.nodes if nd.stmt is not None and nd.kind == "stmt"}
    body_r = {i_ for i_, e in ev.items() if "body" in e and "header" not in e}
    # a statement that renders both is in order when the body comes first in it
    both_ok = {i_ for i_, e in ev.items() if "body" in e and "header" in e and e.index("body") < e.index("header")}
    head_r = [nd for nd in g.nodes if nd.id in ev and "header" in ev[nd.id] and nd.id not in both_ok]
    if both_ok and not head_r and not body_r:
        body_r = set(both_ok)
        head_r = []
        ctx.proved("P5", "outputfile_compiler:body-before-header", comp.loc(fn))
        return
    if not body_r and not both_ok:
        ctx.inconclusive("P5", "outputfile_compiler:body-before-header", "no rendering of the body template found", comp.loc(fn))
        return
    if not head_r and not both_ok:
        ctx.inconclusive("P5", "outputfile_compiler:body-before-header", "no rendering of the header template found", comp.loc(fn))
        return
    dom = g.dominators(labels=normal_edge)
    if all(dom[h.id] & (body_r | both_ok) and h.id not in body_r for h in head_r):
        ctx.proved("P5", "outputfile_compiler:body-before-header", comp.loc(fn))
    else:
        ctx.refuted("P5", "outputfile_compiler:body-before-header", "order", comp.loc(fn),
                    "the header template is rendered before (or together with) the body: typing imports and imports_end are collected while the body renders, so the header misses them",
                    "any schema with an Optional/List field under typing.direct")


def field_compiler_paths(ctx):
    """paths of read_protobuf_type through its field loop: [(is_map, is_oneof, pydantic, [compiler classes constructed in the iteration])]"""
    from ..absint import Interp
    from ..sym import dotted as _dotted
    parser = ctx.repo.mod(M_PARSER)
    fn = parser.func("read_protobuf_type")
    inl = {}
    if parser.has("_make_one_of_field_compiler"):
        inl["_make_one_of_field_compiler"] = (parser, parser.func("_make_one_of_field_compiler"))
    paths = Interp(parser, inline=inl, fork_ifexp=True).run(fn)
    ctx.count(len(paths))
    out = []
    for p in paths:
        if p.outcome == "raise" or not any(e.kind == "loop" for e in p.events):
            continue
        is_map = is_oneof = pyd = None
        for k, v in p.valuation.items():
            if k[0] == "call" and _dotted(k[1]) == "is_map":
                is_map = v
            elif k[0] == "call" and _dotted(k[1]) == "is_oneof":
                is_oneof = v
            elif k[0] == "a" and k[2] == "pydantic_dataclasses":
                pyd = v
        ctors = [_dotted(e.data[1]) for e in p.events if e.kind == "call" and e.loops and _dotted(e.data[1]).endswith("Compiler")]
        out.append((is_map, is_oneof, pyd, ctors))
    return parser, fn, out


def rule_P6(ctx) -> None:
    parser, fn, rows = field_compiler_paths(ctx)
    lp = next((n for n in ast.walk(fn) if isinstance(n, ast.For)), fn)
    if not rows:
        raise AnalysisError("read_protobuf_type: field loop not found")
    bad = []
    seen = set()
    for is_map, is_oneof, pyd, ctors in rows:
        if is_map is None:
            bad.append(("map-test-missing", ctors))
            continue
        if is_map:
            want = {"MapEntryCompiler"}
            seen.add("map")
        elif is_oneof is None:
            bad.append(("oneof-test-missing", ctors))
            continue
        elif is_oneof:
            want = {"OneOfFieldCompiler", "PydanticOneOfFieldCompiler"}
            seen.add("oneof")
        else:
            want = {"FieldCompiler"}
            seen.add("plain")
        if len(ctors) != 1 or ctors[0] not in want:
            bad.append((f"map={is_map},oneof={is_oneof}", ctors))
    if bad:
        ctx.refuted("P6", "read_protobuf_type:classification-total", str(bad[0]), parser.loc(lp),
                    f"field classification is not map / oneof / plain with exactly one compiler per field and an unconditional plain fallback: {bad[:3]}", "a message with a plain field")
    elif seen != {"map", "oneof", "plain"}:
        ctx.inconclusive("P6", "read_protobuf_type:classification-total", f"only the classes {sorted(seen)} were found", parser.loc(lp))
    else:
        ctx.proved("P6", "read_protobuf_type:classification-total", parser.loc(lp), f"{len(rows)} paths: map / oneof / plain, one compiler each")
    # each compiler appends itself to parent.fields exactly once
    models = ctx.repo.mod(M_MODELS)
    pi = models.func("FieldCompiler.__post_init__")
    n_app = len([c for c in ast.walk(pi) if isinstance(c, ast.Call) and ast.unparse(c.func) == "self.parent.fields.append"])
    if n_app == 1:
        ctx.proved("P6", "FieldCompiler:registers-once", models.loc(pi))
    else:
        ctx.refuted("P6", "FieldCompiler:registers-once", str(n_app), models.loc(pi), f"FieldCompiler.__post_init__ appends itself to parent.fields {n_app} times")


def rule_P7(ctx) -> None:
    """the extra empty __init__.py files are disjoint from the generated package files"""
    from ..absint import Interp
    from ..sym import N as _N, A as _A, walk as _walk, show as _show
    parser = ctx.repo.mod(M_PARSER)
    fn = parser.func("generate_code")
    paths = Interp(parser, named_containers=True).run(fn)
    ctx.count(len(paths))
    OUT = _N("output_paths")
    # the set of generated paths may be bound to an expression (a comprehension) instead of being filled in a loop
    outs = {p_.locals.get("output_paths") for p_ in paths if p_.locals.get("output_paths") is not None}
    if len(outs) == 1 and next(iter(outs)) != OUT:
        OUT = next(iter(outs))
    name = "generate_code:init-files-disjoint"

    def mentions_init(t) -> bool:
        return any(x == ("c", "__init__.py") for x in _walk(t))

    def in_out(v):
        return ("op", "in", v, OUT)

    set_terms = set()      # form A: the set is one expression
    adds = []              # form B: (path, added value)
    for p in paths:
        for k, v in p.locals.items():
            if isinstance(v, tuple) and v and v[0] in ("op", "call") and v != OUT and not any(x == v for x in _walk(OUT)) and mentions_init(v) and any(x[0] == "call" and x[1][0] == "n" and x[1][1] in ("$setcomp", "$listcomp", "$genexp") for x in _walk(v)):
                set_terms.add(v)
        for e in p.events:
            if e.kind == "call" and e.data[1][0] == "a" and e.data[1][2] == "add" and e.data[1][1] != OUT and e.data[2] and mentions_init(e.data[2][0]) and e.loops:
                adds.append((p, e))
    loc = parser.loc(fn)
    if not set_terms and not adds:
        ctx.inconclusive("P7", name, "computation of the extra __init__.py files not found", loc)
        return
    disjoint = True
    parents_ok = True
    why = ""
    for t in set_terms:
        comps = [x for x in _walk(t) if x[0] == "call" and x[1][0] == "n" and x[1][1] in ("$setcomp", "$listcomp", "$genexp") and mentions_init(x)]
        sub = (t[0] == "op" and t[1] == "-" and t[3] == OUT) or (t[0] == "call" and t[1][0] == "a" and t[1][2] == "difference" and t[2] and t[2][0] == OUT)
        filt = any(tag == "if" and c == ("op", "not", in_out(comp[2][0])) for comp in comps for tag, c in comp[3])
        if not (sub or filt):
            disjoint = False
            why = _show(t)[:100]
        if not any(x == _A(("elem", OUT), "parents") for x in _walk(t)):
            parents_ok = False
    for p, e in adds:
        v = e.data[2][0]
        guarded = p.valuation.get(in_out(v)) is False
        later = any(ev.kind in ("call", "aug") and "output_paths" in _show(ev.data) and ("difference" in _show(ev.data) or ev.kind == "aug") and not ev.loops for ev in p.events)
        if not (guarded or later):
            disjoint = False
            why = f"{_show(v)} is added without testing it against output_paths"
        walks_up = any(l == ("elem", OUT) or l == OUT for l in e.loops) and any(isinstance(l, tuple) and l and l[0] in ("while", "while!") for l in e.loops) and any(
            x[0] == "a" and x[2] == "parent" for x in _walk(v))
        if not any(l == _A(("elem", OUT), "parents") for l in e.loops) and not walks_up:
            parents_ok = False
    if disjoint and parents_ok:
        ctx.proved("P7", name, loc, "set expression" if set_terms else f"{len(adds)} guarded additions")
    elif not disjoint:
        ctx.refuted("P7", name, "not-subtracted", loc,
                    "the set of extra empty __init__.py files is not made disjoint from the generated package files: when one package is an ancestor of another the response names the same file twice "
                    f"(protoc rejects it / the empty file overwrites the package) [{why}]", "packages `shop` and `shop.catalog` in one request")
    else:
        ctx.inconclusive("P7", name, "ancestor directories are not computed from path.parents of every output path", loc)


def rule_P13(ctx, rule: str = "P13") -> None:
    """nested types: the class of Outer.Inner is defined under the name the plugin derives from the flattened descriptor name
    and referenced under the name it derives from the dotted type name ('.pkg.Outer.Inner').  Both go through the same casing
    function, which treats '.' as a word boundary - so the flattening must put a word boundary between the enclosing and the
    nested name as well (it writes '_')"""
    import re
    from ..absint import Interp
    from ..sym import show
    parser = ctx.repo.mod(M_PARSER)
    fn = parser.func("traverse")
    ctx.analysed("traverse")
    cands = [n for n in ast.walk(fn) if isinstance(n, (ast.FunctionDef, ast.AsyncFunctionDef))]
    stores = []
    for f in cands:
        try:
            paths = Interp(parser).run(f)
        except AnalysisError:
            continue
        ctx.count(len(paths))
        for p in paths:
            for e in p.events:
                if e.kind == "store" and e.data[0][0] == "a" and e.data[0][2] == "name":
                    stores.append((e, e.data[0], e.data[1]))
    name = "traverse:nested-name-keeps-word-boundary"
    if not stores:
        ctx.inconclusive(rule, name, "no assignment of a flattened name found", parser.loc(fn))
        return
    bad = None
    ok = 0
    for e, tgt, v in stores:
        parts = None
        if v[0] == "fstr":
            parts = [("c", x[1]) if x[0] == "c" else ("v", x[1]) for x in v[1]]
        elif v[0] == "op" and v[1] == "+":
            parts = [("c", x[1]) if x[0] == "c" else ("v", x) for x in v[2:]]
        if parts is None:
            bad = bad or ("unrecognised", show(v), e.line)
            continue
        # the old name (tgt) and the prefix are variable parts: between two consecutive variable parts there must be a
        # constant holding a non-alphanumeric character
        idx = [i for i, (k, _) in enumerate(parts) if k == "v"]
        if len(idx) < 2 or not any(x == tgt for k, x in parts if k == "v"):
            bad = bad or ("unrecognised", show(v), e.line)
            continue
        glued = False
        for a, b in zip(idx, idx[1:]):
            between = "".join(str(x) for k, x in parts[a + 1:b] if k == "c")
            if not re.search(r"[^A-Za-z0-9]", between):
                glued = True
        if glued:
            bad = bad or ("glued", show(v), e.line)
        else:
            ok += 1
    if bad and bad[0] == "glued":
        ctx.refuted(rule, name, bad[1][:80], f"{parser.rel}:{bad[2]}",
                    f"nested type names are flattened as {bad[1]}: enclosing and nested name are glued together without a word boundary, so the class is defined as e.g. 'Ab' / 'Holderitem' "
                    "while every reference derives 'AB' / 'HolderItem' from the dotted type name - fields of that type have an unresolvable annotation", "message A { message B {} B b = 1; }")
    elif bad:
        ctx.inconclusive(rule, name, f"flattened name not recognised: {bad[1][:80]}", f"{parser.rel}:{bad[2]}")
    else:
        ctx.proved(rule, name, parser.loc(fn), f"{ok} stores")


def rule_P8(ctx) -> None:
    """is_map and MapEntryCompiler.__post_init__ must recognise the same nested entry type"""
    models = ctx.repo.mod(M_MODELS)

    def preds(fn) -> Set[str]:
        out = set()
        # tests nested inside an already recognising `if` refine what is done with the entry, not which type is the entry
        inner: Set[int] = set()
        for n in ast.walk(fn):
            if isinstance(n, ast.If) and "nested" in ast.unparse(n.test):
                for sub in n.body + n.orelse:
                    for m in ast.walk(sub):
                        if isinstance(m, ast.If):
                            inner.add(id(m))
        for n in ast.walk(fn):
            test = None
            if isinstance(n, ast.If) and id(n) not in inner:
                test = n.test
            elif isinstance(n, ast.comprehension):
                for t in n.ifs:
                    out |= _conj(t)
            elif isinstance(n, ast.Call) and ast.unparse(n.func) == "any" and n.args and isinstance(n.args[0], ast.GeneratorExp):
                out |= _conj(n.args[0].elt)
            if test is not None and "nested" in ast.unparse(test):
                out |= _conj(test)
        return {p for p in out if "nested." in p}

    def _conj(t: ast.AST) -> Set[str]:
        if isinstance(t, ast.BoolOp) and isinstance(t.op, ast.And):
            s: Set[str] = set()
            for v in t.values:
                s |= _conj(v)
            return s
        return {ast.unparse(t)}

    from ..absint import _known_units
    known = _known_units().get(models.rel, set())

    def with_helpers(fn, depth: int = 0):
        """fn and the module-level helpers it calls that are not units known to the rules (a shared recogniser)"""
        out = [fn]
        if depth >= 2:
            return out
        for c in ast.walk(fn):
            if isinstance(c, ast.Call) and isinstance(c.func, ast.Name) and c.func.id not in known and models.has(c.func.id):
                try:
                    h = models.func(c.func.id)
                except AnalysisError:
                    continue
                out += with_helpers(h, depth + 1)
        return out

    a = set().union(*[preds(f) for f in with_helpers(models.func("is_map"))])
    b = set().union(*[preds(f) for f in with_helpers(models.func("MapEntryCompiler.__post_init__"))])
    if not a or not b:
        ctx.inconclusive("P8", "is_map~MapEntryCompiler", "nested-entry predicates not recognised", models.loc(models.func("is_map")))
    elif a == b:
        ctx.proved("P8", "is_map~MapEntryCompiler", models.loc(models.func("is_map")), ";".join(sorted(a)))
    else:
        ctx.refuted("P8", "is_map~MapEntryCompiler", ";".join(sorted(a ^ b)), models.loc(models.func("is_map")),
                    f"is_map recognises the nested entry type by {sorted(a)} but MapEntryCompiler by {sorted(b)}: a field classified as a map whose entry type MapEntryCompiler does not find is rendered with placeholder key/value types",
                    "message M { message LinesEntry {..} repeated LinesEntry lines = 1; }")


def rule_P9(ctx) -> None:
    """per-package state that the compilers capture (the typing compiler instance) is final before the first type is read"""
    parser = ctx.repo.mod(M_PARSER)
    fn = parser.func("generate_code")
    g = CFG(fn, implicit_exc=False)
    assigns = [nd for nd in g.nodes if nd.kind == "stmt" and isinstance(nd.stmt, ast.Assign) and any(
        ast.unparse(t).endswith(".typing_compiler") or ast.unparse(t).endswith(".pydantic_dataclasses") for t in nd.stmt.targets)]
    reads = [nd for nd in g.nodes if nd.kind == "stmt" and any(isinstance(c, ast.Call) and ast.unparse(c.func) in ("read_protobuf_type", "read_protobuf_service") for c in own_nodes(nd.stmt))]
    if not assigns or not reads:
        ctx.inconclusive("P9", "generate_code:options-final-before-reading-types", "option assignments or read calls not found", parser.loc(fn))
        return
    late = None
    for r in reads:
        reach = g.reach_from_successors(r.id, labels=normal_edge)
        for a in assigns:
            if a.id in reach:
                late = (r, a)
    if late:
        r, a = late
        ctx.refuted("P9", "generate_code:options-final-before-reading-types", "assign-after-read", parser.loc(a.stmt),
                    f"`{ast.unparse(a.stmt)[:70]}` can execute after types have been read (line {r.line}): compilers created earlier keep the previous typing compiler instance, and the typing imports "
                    "they registered there are not rendered into the header", "two .proto files of one package; the first uses a repeated field, the last does not")
    else:
        ctx.proved("P9", "generate_code:options-final-before-reading-types", parser.loc(fn), f"{len(assigns)} option assignments precede {len(reads)} read sites")


def field_args_at(models, wraps, optional, qual: str = "FieldCompiler.betterproto_field_args"):
    """the list betterproto_field_args returns when self.field_wraps / self.optional hold the given constants, by constant
    propagation: (tuple of strings, None) when it folds, else (None, atoms the result still depends on)"""
    from ..absint import Interp
    from ..sym import A, N, show
    fn = models.func(qual)
    binds = {A(N("self"), "field_wraps"): wraps, A(N("self"), "optional"): optional}
    # other properties of the same class that are constants there (`oneof_group` is None for a plain field)
    cls_name = qual.rsplit(".", 1)[0]
    for n_ in ast.walk(fn):
        if isinstance(n_, ast.Attribute) and isinstance(n_.value, ast.Name) and n_.value.id == "self" and A(N("self"), n_.attr) not in binds and models.has(f"{cls_name}.{n_.attr}"):
            pf = models.defs[f"{cls_name}.{n_.attr}"][0]
            if isinstance(pf, ast.FunctionDef) and any(ast.unparse(d) == "property" for d in pf.decorator_list):
                body = [b_ for b_ in pf.body if not (isinstance(b_, ast.Expr) and isinstance(b_.value, ast.Constant))]
                if len(body) == 1 and isinstance(body[0], ast.Return) and isinstance(body[0].value, ast.Constant):
                    binds[A(N("self"), n_.attr)] = body[0].value.value
    paths = [p for p in Interp(models, bindings=binds, fork_ifexp=True, replay_logs=True).run(fn) if p.outcome == "return"]
    atoms = sorted({show(k) for p in paths for k in p.valuation})
    if len(paths) != 1 or paths[0].value is None:
        return None, atoms
    v = paths[0].value
    if v[0] == "c" and isinstance(v[1], tuple) and all(isinstance(x, str) for x in v[1]):
        return tuple(v[1]), None
    if v[0] in ("list", "tuple") and all(x[0] == "c" and isinstance(x[1], str) for x in v[1]):
        return tuple(x[1] for x in v[1]), None
    return None, atoms or [show(v)[:120]]


def rule_P10(ctx) -> None:
    """wrapper metadata survives in every position where the plugin unwraps a wrapper type to its scalar:
    a field annotated Optional[int] for Int32Value must carry wraps=..., or the runtime takes `int` for the message class"""
    models = ctx.repo.mod(M_MODELS)
    init = ctx.repo.mod("src/betterproto/__init__.py")
    fc_args = models.func("FieldCompiler.betterproto_field_args")
    me_args = models.func("MapEntryCompiler.betterproto_field_args")
    me_init = models.func("MapEntryCompiler.__post_init__")
    ctx.analysed("FieldCompiler.betterproto_field_args", "MapEntryCompiler.betterproto_field_args", "MapEntryCompiler.__post_init__", "map_field")
    # singular / repeated fields: wraps= is emitted whenever field_wraps is set
    # (the argument list evaluated at field_wraps = a TYPE_* reference / None, optional = True / False)
    verdicts = []
    for wraps in ("betterproto.TYPE_BOOL", None):
        for opt in (True, False):
            got, dep = field_args_at(models, wraps, opt)
            ctx.count(1)
            if got is None:
                verdicts.append(("unknown", f"field_wraps={wraps!r}, optional={opt}: the argument list does not fold ({dep})"))
            elif wraps is not None and f"wraps={wraps}" not in got:
                verdicts.append(("bad", f"with field_wraps={wraps!r} (optional={opt}) the arguments are {list(got)}: no wraps={wraps}"))
            elif wraps is None and any(a.startswith("wraps=") for a in got):
                verdicts.append(("bad", f"with field_wraps=None (optional={opt}) the arguments are {list(got)}: a wraps= argument for a field that is not a wrapper"))
    bad = [d for k, d in verdicts if k == "bad"]
    unknown = [d for k, d in verdicts if k == "unknown"]
    if bad:
        ctx.refuted("P10", "field:wrapper-metadata", "no-wraps-argument", models.loc(fc_args), "FieldCompiler does not emit wraps= exactly for wrapper-typed fields: " + bad[0])
    elif unknown:
        emits_wraps = any(isinstance(n, ast.If) and "field_wraps" in ast.unparse(n.test) and "wraps=" in ast.unparse(n) for n in ast.walk(fc_args))
        if emits_wraps:
            ctx.proved("P10", "field:wrapper-metadata", models.loc(fc_args), "an `if` on field_wraps appends wraps=")
        else:
            ctx.inconclusive("P10", "field:wrapper-metadata", unknown[0][:300], models.loc(fc_args))
    else:
        ctx.proved("P10", "field:wrapper-metadata", models.loc(fc_args), "wraps=<field_wraps> is in the argument list exactly when field_wraps is set (4 scenarios)")
    # map values: the value type comes from a helper FieldCompiler's py_type (unwrapping on) ...
    # (a wrapper-typed value re-referenced with unwrap=False under a test on the wrapper table keeps the message class)
    keeps_wrapper = any(isinstance(n, ast.If) and "WRAPPER_TYPES" in ast.unparse(n.test) and any(
        isinstance(c, ast.Call) and any(k.arg == "unwrap" and isinstance(k.value, ast.Constant) and k.value.value is False for k in c.keywords)
        and any(isinstance(a, ast.Assign) and "py_v_type" in ast.unparse(a.targets[0]) and c in list(ast.walk(a)) for a in ast.walk(n))
        for c in ast.walk(n)) for n in ast.walk(me_init))
    unwrapped_value = any(isinstance(n, ast.Attribute) and n.attr == "py_type" for n in ast.walk(me_init)) and not keeps_wrapper
    # ... and the emitted map_field(...) call has no slot for the value's wrapper kind
    passes_super = any(isinstance(n, ast.Call) and "super()" in ast.unparse(n.func) for n in ast.walk(me_args))
    mentions_wraps = "wraps" in ast.unparse(me_args)
    mf = init.func("map_field")
    runtime_slot = any("wraps" in a.arg for a in mf.args.args + mf.args.kwonlyargs)
    if not unwrapped_value:
        ctx.proved("P10", "map-value:wrapper-metadata", models.loc(me_args), "map values are not unwrapped")
    elif (passes_super or mentions_wraps) and runtime_slot:
        ctx.proved("P10", "map-value:wrapper-metadata", models.loc(me_args), "the value's wrapper kind is passed to map_field")
    else:
        ctx.refuted("P10", "map-value:wrapper-metadata", "value-wrapper-lost", models.loc(me_args),
                    "for map<K, google.protobuf.XxxValue> the value is annotated with the unwrapped scalar (Dict[K, Optional[int]]) but the emitted call is "
                    "map_field(number, TYPE_K, TYPE_MESSAGE): MapEntryCompiler.betterproto_field_args overrides the sibling that emits wraps=, and map_field has no parameter for it. "
                    "At run time the entry class is built with `int` as the message class of its value field and decoding fails ('int' object has no attribute 'parse')",
                    "message M { map<int32, google.protobuf.UInt32Value> m = 1; }  M().parse(b'\\x0a\\x06\\x08\\x01\\x12\\x02\\x08\\x05')")


def _comment_pipeline(models):
    """the tail of get_comment that turns the comment's lines into the docstring literal, as a function of (lines, pad, indent):
    the statements of the innermost block that returns the triple-quoted text, from the first one that escapes anything"""
    fn = models.func("get_comment")
    blocks = []

    def visit(body):
        for st in body:
            for attr in ("body", "orelse", "finalbody"):
                sub = getattr(st, attr, None)
                if isinstance(sub, list) and sub and isinstance(sub[0], ast.stmt):
                    visit(sub)
        def has_ret(st):
            return any(isinstance(r, ast.Return) and r.value is not None and '\"\"\"' in ast.unparse(r.value) for r in ast.walk(st))
        if any(has_ret(st) and not any(isinstance(x, (ast.For, ast.While)) for x in ast.walk(st)) for st in body):
            blocks.append(body)

    visit(fn.body)
    def escapes(st) -> bool:
        """the statement replaces text itself, or calls a module-level helper that does"""
        if any(isinstance(x, (ast.For, ast.While)) for x in ast.walk(st)):
            return False
        if ".replace(" in ast.unparse(st):
            return True
        return any(isinstance(c, ast.Call) and isinstance(c.func, ast.Name) and models.has(c.func.id) and ".replace(" in ast.unparse(models.func(c.func.id)) for c in ast.walk(st))

    blocks = [b for b in blocks if any(escapes(st) for st in b)]
    if not blocks:
        return None
    body = blocks[0]
    start = next((i for i, st in enumerate(body) if escapes(st)), None)
    # a quote fix-up placed in front of the replacement belongs to the escaping as well
    while start is not None and start > 0 and "endswith(" in ast.unparse(body[start - 1]) and not any(isinstance(x, (ast.For, ast.While)) for x in ast.walk(body[start - 1])):
        start -= 1
    if start is None:
        return None
    tail = body[start:]
    loaded, stored = [], set()

    def loads(e):
        for n in ast.walk(e):
            if isinstance(n, ast.Name) and isinstance(n.ctx, ast.Load) and n.id not in stored and n.id not in loaded:
                loaded.append(n.id)

    def stores(e):
        for n in ast.walk(e):
            if isinstance(n, ast.Name) and isinstance(n.ctx, ast.Store):
                stored.add(n.id)

    def scan(st):
        # names in evaluation order: the value of an assignment before its targets, a test before its branches
        if isinstance(st, (ast.Assign, ast.AnnAssign, ast.AugAssign)):
            if st.value is not None:
                loads(st.value)
            for t in (st.targets if isinstance(st, ast.Assign) else [st.target]):
                loads(t)        # subscripted / attribute targets read their base
                stores(t)
        elif isinstance(st, ast.If):
            loads(st.test)
            for b in st.body + st.orelse:
                scan(b)
        else:
            loads(st)
            stores(st)

    for st in tail:
        scan(st)
    comp_locals = {g.target.id for st in tail for c in ast.walk(st) if isinstance(c, (ast.ListComp, ast.GeneratorExp, ast.SetComp)) for g in c.generators if isinstance(g.target, ast.Name)}
    import builtins as _b
    free = [x for x in loaded if x not in comp_locals and not hasattr(_b, x) and x not in models.consts and not models.has(x)]
    params = [a.arg for a in fn.args.args]
    indent = params[2] if len(params) > 2 else "indent"
    seq = [x for x in free if x not in (indent, "pad")]
    if len(seq) != 1:
        return None
    f = ast.parse(f"def _vt_comment_pipeline({seq[0]}, pad, {indent}):\n    pass").body[0]
    f.body = tail
    ast.fix_missing_locations(f)
    return f, seq[0], indent


def comment_literal_at(models, lines, indent: int = 4):
    """the docstring source text get_comment builds for a comment with these lines, by constant propagation through the escaping
    tail of the function; None when it does not fold"""
    from ..absint import Interp
    from ..sym import N
    got = _comment_pipeline(models)
    if got is None:
        return None
    f, seq, ind = got
    try:
        paths = [p for p in Interp(models, local_tables=True, fork_ifexp=True).run(f, {seq: ("c", tuple(lines)), "pad": ("c", " " * indent), ind: ("c", indent)}) if p.outcome == "return"]
    except AnalysisError:
        return None
    if len(paths) != 1 or paths[0].value is None or paths[0].value[0] != "c" or not isinstance(paths[0].value[1], str):
        return None
    return paths[0].value[1]


P11_PROBES = [["plain text"], ['say "hi" twice'], ['ends with a quote"'], ['ends with three quotes\"\"\"'.replace("\\", "")], ['"""'], ['four""""'], ["ends with a backslash\\"], ['backslash then quote\\"'],
              ['two backslashes then quote\\\\"'], ['"'], ['""'], ['first"""', 'last"'], ['first', 'last"""'], ["x" * 80 + '"""']]


def rule_P11b(ctx, rule: str = "P11") -> None:
    """the docstring get_comment builds, evaluated at distinguished comments (quotes and backslashes at the end, runs of three and
    four quotes, one line and several): the text is a complete Python string literal - nothing of the comment closes it early or
    escapes its closing quotes - and the string it denotes contains the comment's text"""
    models = ctx.repo.mod(M_MODELS)
    fn = models.func("get_comment")
    name = "get_comment:literal-at-distinguished-comments"
    bad = None
    n = 0
    for lines in P11_PROBES:
        src = comment_literal_at(models, lines)
        ctx.count(1)
        if src is None:
            ctx.notes.append(f"P11b: get_comment's escaping tail does not fold for {lines!r}; the structural clauses of P11 stand alone")
            return
        n += 1
        try:
            val = ast.literal_eval(src.strip())
        except (SyntaxError, ValueError) as e:
            bad = bad or (lines, src, f"is not a complete string literal ({type(e).__name__}: {e.msg if isinstance(e, SyntaxError) else e})")
            continue
        if not isinstance(val, str):
            bad = bad or (lines, src, f"denotes {type(val).__name__}, not a string")
            continue
        body = [l.strip() for l in val.strip().split("\n")]
        if body != [l.strip() for l in lines]:
            bad = bad or (lines, src, f"denotes {val!r}, not the comment's text")
    if bad:
        lines, src, why = bad
        ctx.refuted(rule, name, repr(lines)[:60], models.loc(fn), f"for a comment with the line(s) {lines!r} get_comment builds {src!r}, which {why}: the generated module does not compile "
                    "(or carries another docstring)", f"// {lines[-1]}   above a message, field or enum value")
    else:
        ctx.proved(rule, name, models.loc(fn), f"{n} distinguished comments: each literal parses and denotes the comment's text")


def rule_P15(ctx, rule: str = "P15") -> None:
    """every .proto file of the request is entered into the input files of its output package: in generate_code's loop over
    request.proto_file each iteration appends the file (a package may be spread over several files - the types of a file that
    is not recorded are never read and get no class)"""
    parser = ctx.repo.mod(M_PARSER)
    fn = parser.func("generate_code")
    ctx.analysed("generate_code")
    loops = [lp for lp in fn.body if isinstance(lp, ast.For) and "proto_file" in ast.unparse(lp.iter) and isinstance(lp.target, ast.Name)]
    name = "generate_code:every-file-recorded"
    if not loops:
        ctx.inconclusive(rule, name, "loop over request.proto_file not found", parser.loc(fn))
        return
    lp = loops[0]
    var = lp.target.id

    def records(st: ast.stmt) -> bool:
        for c in ast.walk(st):
            if isinstance(c, ast.Call) and isinstance(c.func, ast.Attribute) and c.func.attr in ("append", "add") and isinstance(c.func.value, ast.Attribute) and c.func.value.attr == "input_files" \
                    and len(c.args) == 1 and isinstance(c.args[0], ast.Name) and c.args[0].id == var:
                return True
            if isinstance(c, ast.AugAssign) and isinstance(c.target, ast.Attribute) and c.target.attr == "input_files" and var in {x.id for x in ast.walk(c.value) if isinstance(x, ast.Name)}:
                return True
        return False

    def always(body) -> bool:
        for st in body:
            if isinstance(st, (ast.Expr, ast.AugAssign, ast.Assign)) and records(st):
                return True
            if isinstance(st, ast.If) and st.orelse and always(st.body) and always(st.orelse):
                return True
            if isinstance(st, (ast.With, ast.Try)) and always(st.body):
                return True
        return False

    ctx.count(len(lp.body))
    if always(lp.body):
        ctx.proved(rule, name, parser.loc(lp), f"every iteration appends `{var}` to the input files of its package")
    else:
        somewhere = any(records(st) for st in lp.body) or "input_files" in ast.unparse(lp)
        ctx.refuted(rule, name, "conditional" if somewhere else "absent", parser.loc(lp),
                    f"an iteration of the loop over the request's files can finish without appending `{var}` to its package's input_files"
                    + (" (the file is recorded only when the package is first created)" if somewhere else "") + ": the messages and enums of every further file of a package get no class",
                    "package inventory split over item.proto and stock.proto in one plugin run")


def rule_P11(ctx) -> None:
    """proto comments are user text: before it is placed between triple quotes, backslashes are doubled and quotes
    that could close the literal (a \"\"\" run, a quote at the very end) are neutralised"""
    models = ctx.repo.mod(M_MODELS)
    fn = models.func("get_comment")
    ctx.analysed("get_comment")
    lits = [n for n in ast.walk(fn) if isinstance(n, ast.JoinedStr) and any(isinstance(v, ast.Constant) and '"""' in str(v.value) for v in n.values)]
    if not lits:
        ctx.inconclusive("P11", "get_comment:docstring-escaping", "docstring literal construction not recognised", models.loc(fn))
        return
    # a conversion that yields a complete Python literal by itself (repr / !r) would also do
    whole = all(all((not isinstance(v, ast.FormattedValue)) or v.conversion == 114 for v in n.values) for n in lits) and False
    reps = []
    # the function together with the module-level helpers its text passes through (a per-line helper applied in a comprehension)
    scope = [fn]
    for _ in range(2):
        for f_ in list(scope):
            for c in ast.walk(f_):
                if isinstance(c, ast.Call) and isinstance(c.func, ast.Name) and models.has(c.func.id) and any(isinstance(x, ast.FunctionDef) for x in models.get_all(c.func.id)):
                    h_ = models.func(c.func.id)
                    if all(h_ is not x for x in scope) and len(scope) < 6:
                        scope.append(h_)
    for c in [x for f_ in scope for x in ast.walk(f_)]:
        if isinstance(c, ast.Call) and isinstance(c.func, ast.Attribute) and c.func.attr == "replace" and len(c.args) == 2 and all(isinstance(a, ast.Constant) for a in c.args):
            reps.append((c.args[0].value, c.args[1].value))
    backslash = any(a == "\\" and b == "\\\\" for a, b in reps)
    triple = any(a in ('"""', '"') and isinstance(b, str) and b.count("\\") >= 1 for a, b in reps)
    all_quotes = any(a == '"' and isinstance(b, str) and "\\" in b for a, b in reps)
    trailing = all_quotes or any(isinstance(c, ast.Call) and isinstance(c.func, ast.Attribute) and c.func.attr == "endswith" and c.args and isinstance(c.args[0], ast.Constant)
                                 and c.args[0].value == '"' for c in ast.walk(fn))
    missing = [n for n, ok in (("backslashes doubled", backslash), ('""" runs broken up', triple), ("a trailing quote escaped", trailing)) if not ok]
    if whole or not missing:
        ctx.proved("P11", "get_comment:docstring-escaping", models.loc(fn), f"{len(lits)} docstring literals; replacements {reps}")
    else:
        ctx.refuted("P11", "get_comment:docstring-escaping", ";".join(missing), models.loc(fn),
                    f"get_comment copies the comment text of the .proto file between triple quotes without: {missing}. A comment that ends in a double quote, contains \"\"\" or a "
                    "backslash (C:\\new, a regex, a trailing \\) yields a module that is not valid Python (the plugin then fails in its formatter)",
                    '// says "hi"   or   // matches \\x41')


def rule_P12(ctx) -> None:
    """the `optional` a field is generated with is the schema's proto3_optional flag and nothing else"""
    models = ctx.repo.mod(M_MODELS)
    fn = models.func("FieldCompiler.optional")
    ctx.analysed("FieldCompiler.optional")
    rets = [n.value for n in ast.walk(fn) if isinstance(n, ast.Return) and n.value is not None]
    if len(rets) == 1 and ast.unparse(rets[0]) == "self.proto_obj.proto3_optional":
        ctx.proved("P12", "FieldCompiler.optional:schema-flag", models.loc(fn))
        return
    extra = []
    for r in rets:
        if isinstance(r, ast.BoolOp) and isinstance(r.op, ast.And) and any(ast.unparse(v) == "self.proto_obj.proto3_optional" for v in r.values):
            extra += [ast.unparse(v) for v in r.values if ast.unparse(v) != "self.proto_obj.proto3_optional"]
    if extra:
        ctx.refuted("P12", "FieldCompiler.optional:schema-flag", ";".join(extra), models.loc(fn),
                    f"a proto3 `optional` field is generated as optional only when additionally {extra}: for the other fields the metadata says singular although the schema says optional "
                    "(presence of the default value is then not encoded)", "optional google.protobuf.Int32Value w = 1;")
    else:
        ctx.inconclusive("P12", "FieldCompiler.optional:schema-flag", f"return expression not recognised: {[ast.unparse(r) for r in rets]}", models.loc(fn))


def rule_P14(ctx, rule: str = "P14") -> None:
    """what the members of a package record on the shared per-package output (import decisions, flags) accumulates: a write of a
    declared OutputTemplate field from a per-member function keeps what earlier members recorded (set update / add, `x = x or
    ..`, `x |= ..`, a constant True) - a plain overwrite makes the package-wide decision that of the last member processed"""
    from ..absint import Interp
    from ..sym import walk as _walk, show as _show, dotted as _dotted
    models = ctx.repo.mod(M_MODELS)
    out_cls = models.cls("OutputTemplate")
    fields = {st.target.id for st in out_cls.body if isinstance(st, ast.AnnAssign) and isinstance(st.target, ast.Name)}
    if "builtins_import" not in fields and len(fields) < 5:
        raise AnalysisError("OutputTemplate lost its declared state fields")
    n = 0
    for q, fn in models.functions():
        if q.startswith("OutputTemplate.") or q.startswith("PluginRequestCompiler."):
            continue
        # writes through a receiver that is the shared output: a parameter annotated OutputTemplate, or <x>.output_file
        recv_params = {a.arg for a in fn.args.args + fn.args.kwonlyargs if a.annotation is not None and "OutputTemplate" in ast.unparse(a.annotation)}
        def is_out(t: ast.AST) -> bool:
            return (isinstance(t, ast.Name) and t.id in recv_params) or (isinstance(t, ast.Attribute) and t.attr == "output_file")
        sites = [st for st in ast.walk(fn) if isinstance(st, (ast.Assign, ast.AnnAssign)) and any(
            isinstance(t, ast.Attribute) and t.attr in fields and is_out(t.value) for t in (st.targets if isinstance(st, ast.Assign) else [st.target]))]
        if not sites:
            continue
        if q.endswith(".__post_init__") and False:
            continue
        paths = Interp(models).run(fn)
        ctx.count(len(paths))
        ctx.analysed(q)
        bad = None
        seen = 0
        for p_ in paths:
            for e in p_.events:
                if e.kind != "store" or e.depth != 0:
                    continue
                tgt, val = e.data[0], e.data[1]
                if not (tgt[0] == "a" and tgt[2] in fields and (tgt[1][0] == "n" and tgt[1][1] in recv_params or (tgt[1][0] == "a" and tgt[1][2] == "output_file"))):
                    continue
                seen += 1
                keeps = (val[0] == "op" and val[1] in ("or", "|") and tgt in val[2:]) or val == ("c", True) \
                    or (val[0] == "call" and val[1][0] == "a" and val[1][2] in ("union",) and val[1][1] == tgt) \
                    or (val[0] == "call" and _dotted(val[1]) == "max" and tgt in val[2])
                if not keeps and bad is None:
                    bad = (tgt, val, e.line)
        n += 1
        name = f"{q}:accumulates"
        if bad is not None:
            ctx.refuted(rule, name, _show(bad[0]).split(".")[-1], f"{M_MODELS}:{bad[2]}",
                        f"{q} runs once per member and stores {_show(bad[0])} = {_show(bad[1])}: what earlier members recorded on the shared output is overwritten, so the "
                        "package-wide decision (an import line) reflects only the last member processed", "a builtin-shadowing field followed by an ordinary field")
        elif seen == 0:
            ctx.inconclusive(rule, name, "the write of the shared output was not seen on any path", models.loc(fn))
        else:
            ctx.proved(rule, name, models.loc(fn), f"{seen} accumulating writes")
    ctx.floor(rule, "per-member writers of shared output flags", n, 1)


def _x3(ctx) -> None:
    from .c13 import rule_X3
    rule_X3(ctx)        # the output imports only if a reference to another package is classified on package components


def _x10(ctx) -> None:
    from .c13 import rule_X10
    rule_X10(ctx)       # ... and the import line registered for it names that package


def _x1b(ctx) -> None:
    template.rule_X1b(ctx)   # ... and is executed only after the module's own classes exist (circular package references)


def run(ctx) -> None:
    for name, fn in (("X3", _x3), ("X10", _x10), ("X1", _x1b), ("P14", rule_P14), ("P1", template.rule_P1), ("P2", rule_P2), ("P3", rule_P3), ("P4", rule_P4), ("P5", rule_P5), ("P6", rule_P6), ("P7", rule_P7), ("P8", rule_P8), ("Y2iii", template.rule_Y2iii), ("P9", rule_P9), ("P10", rule_P10), ("P11", rule_P11), ("P11b", rule_P11b), ("P15", rule_P15), ("P12", rule_P12), ("P13", rule_P13)):
        ctx.rules_run.append(name)
        try:
            fn(ctx)
        except AnalysisError as e:
            # one rule that cannot analyse the tree (exit 2 at the end) does not hide what the other rules find
            ctx.deferred_errors.append(f"{name}: {e}")
    from . import phases
    ctx.rules_run.append("Y7")
    phases.rule_Y7(ctx)
    from .c19 import rule_I2
    ctx.rules_run.append("I2")
    rule_I2(ctx)          # every enum value of the schema keeps a member of its own
    from .c18 import rule_Y12
    ctx.rules_run.append("Y12")
    rule_Y12(ctx)         # the output imports: datetime / timedelta are imported for every annotation shape that names them (map values included)
