"""C14 - observers are pure; copy/deepcopy/pickle are faithful (V1-V5, D3)."""
from __future__ import annotations

import ast
from typing import Dict, List, Optional, Set

from ..absint import Interp
from ..effects import STATE_ATTRS, Effect, function_effects, self_callees, state_writes
from ..fieldloop import field_loop_roles, interp_for, val_text
from ..src import AnalysisError, M_INIT
from ..sym import A, C, N, dotted, from_ast, show, walk as _walk
from . import presence

PROP = "C14"
TECHNIQUE = "write-effect and alias analysis of Message methods (transitively over same-class callees); E2 summaries of the copy routines"
EXPLANATION = (
    "Static purity check: for each observer (attribute read, bytes, len, ==, bool, repr, to_dict, to_json, to_pydict, is_set, ...) the "
    "set of stores to message state and of mutations of objects aliased from the message's fields is computed (aliases arise only by "
    "name binding; fresh containers are not aliases) and closed over the same-class call graph; it must be empty apart from the raw "
    "lazy-default materialisation. The copy routines are summarised by the abstract interpreter: every state component that can change "
    "independently of the fields must be transferred, no mutable state may be shared, every field value must pass through deepcopy in "
    "__deepcopy__, and pickling must go through the wire format."
)
RULE_TEXT = "obligation = (rule, method); evaluations = statements scanned + abstract paths; non-trivial = distinct methods"

OBSERVERS = ["__getattribute__", "__bytes__", "dump", "__len__", "__eq__", "__bool__", "__repr__", "__rich_repr__", "to_dict", "to_json",
             "to_pydict", "is_set", "SerializeToString", "__getstate__", "__reduce__"]
FREE_OBSERVERS = ["which_one_of", "serialized_on_wire"]
HELPERS_PURE = ["_get_field_default", "_include_default_value_for_oneof", "_type_hints", "_type_hint", "_cls_for", "_Message__raw_get", "__raw_get"]


def _closure(mod, name: str, seen: Optional[Set[str]] = None) -> List[tuple]:
    """effects of Message.<name> including same-class callees (fixpoint over the call graph)"""
    seen = seen if seen is not None else set()
    if name in seen:
        return []
    seen.add(name)
    q = f"Message.{name}"
    if not mod.has(q):
        return []
    out = []
    for fn in [x for x in mod.get_all(q) if isinstance(x, (ast.FunctionDef, ast.AsyncFunctionDef))]:
        for e in function_effects(fn):
            out.append((name, e))
        for c in sorted(self_callees(fn)):
            if c == "__getattribute__" or c in ("__class__",):
                continue
            out.extend(_closure(mod, c, seen))
    return out


def rule_V1(ctx) -> None:
    mod = ctx.repo.mod(M_INIT)
    n = 0
    for name in OBSERVERS:
        q = f"Message.{name}"
        if not mod.has(q):
            raise AnalysisError(f"observer {q} vanished")
        ctx.analysed(q)
        effs = _closure(mod, name)
        n += 1
        bad = []
        for owner, e in effs:
            if name == "__getattribute__" and owner == "__getattribute__" and e.kind == "raw-store":
                continue  # the lazy default materialisation (judged by D3)
            bad.append((owner, e))
        if bad:
            owner, e = bad[0]
            ctx.refuted("V1", f"{name}:pure", f"{e.kind}@{owner}", f"{mod.rel}:{e.line}",
                        f"observer {name} has a write effect in {owner}: {e.kind} {e.detail} - calling it changes what the message later encodes to / reports",
                        f"m2 = deepcopy(m); m.{name}(...); assert bytes(m) == bytes(m2)")
        else:
            ctx.proved("V1", f"{name}:pure", mod.loc(mod.func(q)))
    for name in FREE_OBSERVERS:
        fn = mod.func(name)
        effs = function_effects(fn)
        n += 1
        if effs:
            ctx.refuted("V1", f"{name}:pure", effs[0].kind, f"{mod.rel}:{effs[0].line}", f"{name} writes: {effs[0].detail}")
        else:
            ctx.proved("V1", f"{name}:pure", mod.loc(fn))
    ctx.floor("V1", "observers", n, 17)


def rule_V1b(ctx) -> None:
    """observers that read every field through the tracked accessor tolerate unselected oneof members"""
    mod = ctx.repo.mod(M_INIT)
    for name in ("dump", "__len__", "to_dict", "to_pydict"):
        fn = mod.func(f"Message.{name}")
        loops = [n for n in ast.walk(fn) if isinstance(n, ast.For) and field_loop_roles(from_ast(n.iter), 0) is not None]
        if not loops:
            if any(isinstance(c, ast.Call) and isinstance(c.func, ast.Name) and c.func.id == "getattr" for c in ast.walk(fn)):
                raise AnalysisError(f"{name}: reads fields with getattr but its per-field loop was not recognised")
            ctx.proved("V1b", f"{name}:tolerates-unselected-oneof", mod.loc(fn), "no tracked per-field reads (delegates)")
            continue
        selfname = fn.args.args[0].arg
        bad = []
        n_reads = 0
        for lp in loops:
            tgt_names = {e.id for e in ast.walk(lp.target) if isinstance(e, ast.Name)}
            protected: Set[int] = set()
            for t in ast.walk(lp):
                if isinstance(t, ast.Try) and any(_catches_attr(h) for h in t.handlers):
                    for b in t.body:
                        for x in ast.walk(b):
                            protected.add(id(x))
            for c in ast.walk(lp):
                if isinstance(c, ast.Call) and isinstance(c.func, ast.Name) and c.func.id == "getattr" and len(c.args) == 2 \
                        and isinstance(c.args[0], ast.Name) and c.args[0].id == selfname and isinstance(c.args[1], ast.Name) and c.args[1].id in tgt_names:
                    n_reads += 1
                    if id(c) not in protected:
                        bad.append(c)
        if bad:
            # not in a try: then every path that reaches the read has established that the member is the selected one
            # (_include_default_value_for_oneof, proved by O5 to hold exactly for the selected member) or is in no group
            bad = [c for c in bad if not _read_guarded(mod, fn, c)]
        if bad:
            ctx.refuted("V1b", f"{name}:tolerates-unselected-oneof", "bare-getattr", mod.loc(bad[0]),
                        f"{name} reads every field with getattr(self, field_name) outside a try/except AttributeError: for a message with a oneof it raises as soon as a member is not the selected one",
                        f"M(a=1).{name}() where a, b form a oneof")
        else:
            ctx.proved("V1b", f"{name}:tolerates-unselected-oneof", mod.loc(fn), f"{n_reads} tracked reads, all protected")


def _read_guarded(mod, fn, call: ast.Call) -> bool:
    from ..fieldloop import META, FIELD_NAME, SELF
    incl = ("call", A(SELF, "_include_default_value_for_oneof"), (), (("field_name", FIELD_NAME), ("meta", META)))
    incl_pos = ("call", A(SELF, "_include_default_value_for_oneof"), (FIELD_NAME, META), ())
    paths = interp_for(mod).run(fn)
    seen = False
    for p in paths:
        hit = [e for e in p.events if e.kind == "call" and e.line == call.lineno and dotted(e.data[1]) == "getattr"]
        if not hit:
            continue
        seen = True
        v = p.valuation
        if v.get(A(META, "group")) is False or v.get(incl) is True or v.get(incl_pos) is True:
            continue
        return False
    return seen


def _catches_attr(h: ast.ExceptHandler) -> bool:
    if h.type is None:
        return True
    names = [ast.unparse(e) for e in (h.type.elts if isinstance(h.type, ast.Tuple) else [h.type])]
    return any(n in ("AttributeError", "Exception", "BaseException") for n in names)


def _independent_state(ctx) -> Dict[str, List[str]]:
    """state attributes that have a writer other than __post_init__ / __setattr__ (so they are not determined by the fields)"""
    out: Dict[str, List[str]] = {}
    mod = ctx.repo.mod(M_INIT)
    for w in state_writes(mod):
        if w.attr in STATE_ATTRS and w.func not in ("Message.__post_init__", "Message.__setattr__", "Message.__copy__", "Message.__deepcopy__"):
            out.setdefault(w.attr, []).append(w.func)
    return out


def rule_V2(ctx) -> None:
    """state that can change independently of the fields is transferred to the copy on every path: the copy's attribute ends
    up equal to the original's (assigned from it, or set to the constant the path has established the original to hold)"""
    mod = ctx.repo.mod(M_INIT)
    indep = _independent_state(ctx)
    if set(indep) - set(STATE_ATTRS):
        raise AnalysisError("unexpected state attribute")
    for name in ("__copy__", "__deepcopy__"):
        fn = mod.func(f"Message.{name}")
        ctx.analysed(f"Message.{name}")
        selfname = fn.args.args[0].arg
        src = ast.unparse(fn)
        updates = [n for n in ast.walk(fn) if isinstance(n, ast.Call) and isinstance(n.func, ast.Attribute) and n.func.attr == "update" and ast.unparse(n.func.value).endswith("__dict__")]
        wholesale = any(u.args and "__dict__" in ast.unparse(u.args[0]) and selfname in ast.unparse(u.args[0]) for u in updates) or "__dict__ = " in src
        paths = interp_for(mod).run(fn)
        ctx.count(len(paths))
        for attr, writers in sorted(indep.items()):
            cname = f"{name}:transfers[{attr}]"
            if wholesale:
                ctx.proved("V2", cname, mod.loc(fn), "whole __dict__ handed over")
                continue
            orig = A(N(selfname), attr)
            bad = None
            n_ok = 0
            for p in paths:
                if p.outcome == "raise":
                    continue
                last = None
                for e in p.events:
                    if e.kind == "store":
                        t = e.data[0]
                        if (t[0] == "a" and t[2] == attr and t[1] != N(selfname)) or (t[0] == "sub" and t[2] == C(attr) and t[1][0] == "a" and t[1][2] == "__dict__" and t[1][1] != N(selfname)):
                            last = e.data[1]
                    if e.kind == "call" and dotted(e.data[1]) in ("setattr", "object.__setattr__") and len(e.data[2]) >= 3 and e.data[2][-2] == C(attr):
                        last = e.data[2][-1]
                if last is None:
                    bad = bad or ("not-assigned", {show(k): v for k, v in p.valuation.items() if orig in list(_walk(k))})
                elif last == orig:
                    n_ok += 1
                elif last[0] == "c" and p.valuation.get(orig) is not None and bool(last[1]) == p.valuation.get(orig) and isinstance(last[1], bool):
                    n_ok += 1
                else:
                    bad = bad or ("other-value:" + show(last), {})
            if bad and bad[0] == "not-assigned" and not n_ok:
                ctx.refuted("V2", cname, "never-assigned", mod.loc(fn),
                            f"{attr} can change independently of the fields (written by {sorted(set(writers))}) but {name} rebuilds the message from its fields only and never assigns it on the copy",
                            "copy a message decoded from bytes with unknown fields / an empty received sub-message; compare bytes")
            elif bad:
                ctx.refuted("V2", cname, bad[0] + (":" + str(bad[1]) if bad[1] else ""), mod.loc(fn),
                            f"on a path of {name} ({bad[1] or 'unconditional'}) the copy's {attr} is {bad[0]}: it keeps what the constructor computed from the field values instead of the "
                            "original's value - a message whose flag is off but whose lazily created children make the constructor compute it on is copied as present",
                            "m.inner.leaf (read only); copy.deepcopy(m) encodes an extra empty `inner`")
            else:
                ctx.proved("V2", cname, mod.loc(fn), f"{n_ok} paths")
    ctx.floor("V2", "independent state attributes", len(indep), 2)


def rule_V5(ctx) -> None:
    """the copy does not share mutable bookkeeping with the original"""
    mod = ctx.repo.mod(M_INIT)
    for name in ("__copy__", "__deepcopy__"):
        fn = mod.func(f"Message.{name}")
        selfname = fn.args.args[0].arg
        shared = None
        for n in ast.walk(fn):
            if isinstance(n, ast.Call) and isinstance(n.func, ast.Attribute) and n.func.attr == "update" and "__dict__" in ast.unparse(n.func.value) \
                    and n.args and ast.unparse(n.args[0]) == f"{selfname}.__dict__":
                shared = n
            if isinstance(n, ast.Assign):
                v = ast.unparse(n.value)
                for t in n.targets:
                    tt = ast.unparse(t)
                    if "_group_current" in tt and v == f"{selfname}._group_current":
                        shared = n
                    if tt.endswith(".__dict__") and v == f"{selfname}.__dict__":
                        shared = n
        later_fresh = any(isinstance(n, ast.Assign) and any("_group_current" in ast.unparse(t) for t in n.targets) and
                          any(k in ast.unparse(n.value) for k in ("dict(", "copy(", "{**", ".copy()")) for n in ast.walk(fn))
        if shared is not None and not later_fresh:
            ctx.refuted("V5", f"{name}:no-shared-mutable-state", "shares-_group_current", mod.loc(shared),
                        f"{name} hands the original's __dict__ / _group_current to the copy without copying the selection table: assigning a oneof member on one object changes which member the other reports",
                        "c = copy.copy(m); c.b = 1; which_one_of(m, 'g')")
        else:
            ctx.proved("V5", f"{name}:no-shared-mutable-state", mod.loc(fn))


def rule_V6(ctx) -> None:
    """state handed to a copy by reference must be immutable (the unknown-field buffer is extended in place by load)"""
    mod = ctx.repo.mod(M_INIT)
    pi = mod.func("Message.__post_init__")
    init = None
    for n in ast.walk(pi):
        if isinstance(n, ast.Assign):
            for t in n.targets:
                if (isinstance(t, ast.Subscript) and isinstance(t.slice, ast.Constant) and t.slice.value == "_unknown_fields") or \
                        (isinstance(t, ast.Attribute) and t.attr == "_unknown_fields"):
                    init = n.value
    if init is None:
        raise AnalysisError("__post_init__: initial value of _unknown_fields not found")
    immutable = isinstance(init, ast.Constant) and isinstance(init.value, bytes)
    mutable = isinstance(init, ast.Call) and ast.unparse(init.func) in ("bytearray", "list", "io.BytesIO", "BytesIO")
    for name in ("__copy__", "__deepcopy__"):
        fn = mod.func(f"Message.{name}")
        shared = [n for n in ast.walk(fn) if isinstance(n, ast.Assign) and any("_unknown_fields" in ast.unparse(t) for t in n.targets)
                  and ast.unparse(n.value).endswith("._unknown_fields")]
        cname = f"{name}:unknown-fields-not-shared-mutably"
        if immutable or not shared:
            ctx.proved("V6", cname, mod.loc(fn), "bytes are immutable" if immutable else "copied")
        elif mutable:
            ctx.refuted("V6", cname, "shared-mutable-buffer", mod.loc(shared[0]),
                        f"_unknown_fields starts as {ast.unparse(init)} (mutable) and {name} hands the same object to the copy; load() extends it in place (`+=`), so parsing more data into the copy "
                        "changes the bytes of the original", "d = deepcopy(m); d.parse(more_bytes_with_unknown_fields); bytes(m)")
        else:
            ctx.inconclusive("V6", cname, f"initial value {ast.unparse(init)} is neither a bytes literal nor a known mutable buffer", mod.loc(fn))


def rule_V3(ctx) -> None:
    mod = ctx.repo.mod(M_INIT)
    fn = mod.func("Message.__deepcopy__")
    paths = interp_for(mod).run(fn)
    ctx.count(len(paths))
    bad = []
    n_store = 0
    for p in paths:
        for e in p.events:
            if e.kind == "store" and e.data[0][0] == "sub" and e.loops:
                n_store += 1
                v = e.data[1]
                if not (v[0] == "call" and dotted(v[1]).split(".")[-1] == "deepcopy"):
                    bad.append((p, e))
    comps = _comp_transfers(paths)
    if not n_store and comps:
        shallow = [v for _, v, _ in comps if not (v[0] == "call" and dotted(v[1]).split(".")[-1] == "deepcopy")]
        if shallow:
            ctx.refuted("V3", "__deepcopy__:every-field-deep-copied", "shallow-path", mod.loc(fn),
                        f"a field value reaches the new message without deepcopy ({show(shallow[0])}): containers are shared between original and copy",
                        "d = deepcopy(m); d.map_field['k'] = 1; assert 'k' not in m.map_field")
        else:
            ctx.proved("V3", "__deepcopy__:every-field-deep-copied", mod.loc(fn), f"{len(comps)} comprehension transfers, all through deepcopy")
        return
    if not n_store:
        src = ast.unparse(fn)
        if "deepcopy(" in src:
            ctx.inconclusive("V3", "__deepcopy__:every-field-deep-copied", "field transfer not in the recognised kwargs[name] = ... form", mod.loc(fn))
        else:
            ctx.refuted("V3", "__deepcopy__:every-field-deep-copied", "no-deepcopy", mod.loc(fn), "__deepcopy__ never calls deepcopy on field values")
    elif bad:
        p, e = bad[0]
        ctx.refuted("V3", "__deepcopy__:every-field-deep-copied", "shallow-path", f"{mod.rel}:{e.line}",
                    f"on some path a field value reaches the new message without deepcopy ({show(e.data[1])}): containers are shared between original and copy",
                    "d = deepcopy(m); d.map_field['k'] = 1; assert 'k' not in m.map_field")
    else:
        ctx.proved("V3", "__deepcopy__:every-field-deep-copied", mod.loc(fn), f"{n_store} stores, all through deepcopy")


def rule_V4(ctx) -> None:
    mod = ctx.repo.mod(M_INIT)
    # (what __getstate__ / __reduce__ hand to pickle is decided path by path in V11)
    for name, must in (("__setstate__", ".parse("), ("FromString", ".parse(")):
        fn = mod.func(f"Message.{name}")
        src = ast.unparse(fn)
        rets = [ast.unparse(n.value) for n in ast.walk(fn) if isinstance(n, ast.Return) and n.value is not None]
        if rets and all(must in r for r in rets):
            ctx.proved("V4", f"{name}:through-the-wire", mod.loc(fn))
        else:
            ctx.refuted("V4", f"{name}:through-the-wire", "bypass", mod.loc(fn), f"{name} returns {rets}; pickling is expected to go through {must}")


def _comp_transfers(paths):
    """(key, value, conditions) of the dict comprehensions over the raw field values that feed a constructor call"""
    from ..sym import walk
    out = []
    seen = set()
    for p in paths:
        for e in p.events:
            if e.kind != "call" or not isinstance(e.data, tuple):
                continue
            for t in walk(e.data):
                if t[0] == "call" and t[1] == N("$dictcomp") and t not in seen and t[2] and t[2][0][0] == "tuple" and len(t[2][0][1]) == 2:
                    if "__raw_get" in show(t) or "PLACEHOLDER" in show(t):
                        seen.add(t)
                        out.append((t[2][0][1][0], t[2][0][1][1], [c for tag, c in t[3] if tag == "if"]))
    return out


def rule_V8(ctx) -> None:
    """copies transfer every field that holds something: a field is left out of the copy only when its raw value is the placeholder"""
    mod = ctx.repo.mod(M_INIT)
    for q in ("Message.__copy__", "Message.__deepcopy__"):
        fn = mod.func(q)
        paths = interp_for(mod).run(fn)
        ctx.count(len(paths))
        skipped = None
        n = 0
        for p in paths:
            if p.outcome == "raise":
                continue
            stores = [e for e in p.events if e.kind == "store" and e.data[0][0] == "sub" and e.loops]
            in_loop = any(e.loops for e in p.events) or True
            ph = [(k, v) for k, v in p.valuation.items() if k[0] == "op" and k[1] == "is" and show(k[3]) == "PLACEHOLDER"]
            if not ph:
                continue
            n += 1
            is_placeholder = any(v for _, v in ph)
            if not is_placeholder and not stores:
                # what else was decided on this path?
                others = {show(k): v for k, v in p.valuation.items() if (k, v) not in ph}
                skipped = (p, others)
        name = f"{q.split('.')[-1]}:transfers-every-set-field"
        if n == 0:
            # comprehension form: {name: f(raw) for ... if raw is not PLACEHOLDER}
            for k, v, conds in _comp_transfers(paths):
                n += 1
                extra = [c for c in conds if not (c[0] == "op" and c[1] == "not" and c[2][0] == "op" and c[2][1] == "is" and show(c[2][3]) == "PLACEHOLDER")]
                if extra:
                    skipped = (None, {show(c): True for c in extra})
        if n == 0:
            ctx.inconclusive("V8", name, "field transfer loop not recognised", mod.loc(fn))
        elif skipped:
            p, others = skipped
            ctx.refuted("V8", name, ";".join(f"{k}={v}" for k, v in sorted(others.items()))[:120], mod.loc(fn),
                        f"a field whose raw value is not the placeholder is left out of the copy when {others}: a oneof member selected with a fresh default message, or a lazily created child "
                        "that was filled in place (list.append), has its presence flag off and is lost - the copy is not equal to the original and encodes differently",
                        "copy.copy(M(choice=Inner())) / m.child.tags.append('x'); copy.copy(m)")
        else:
            ctx.proved("V8", name, mod.loc(fn), f"{n} paths")


def rule_V9(ctx) -> None:
    """a copy does not change the original, and it does not make a child present that was not: the copy routines hand the
    original's raw children to the constructor, i.e. through Message.__setattr__.  If __setattr__ writes into the *assigned
    value* (it marks a field-less message as present - the only way such a message can be set), the copy routines must undo
    that for the children they pass along (shared with the original in a shallow copy)"""
    mod = ctx.repo.mod(M_INIT)
    sa = mod.func("Message.__setattr__")
    ctx.analysed("Message.__setattr__")
    val_p = sa.args.args[2].arg
    marks = set()
    for p in interp_for(mod).run(sa):
        for e in p.events:
            if e.kind == "store" and e.data[0][0] == "a" and e.data[0][1] == N(val_p) and e.data[0][2] in STATE_ATTRS:
                marks.add(e.data[0][2])
    if not marks:
        for name in ("__copy__", "__deepcopy__"):
            ctx.proved("V9", f"{name}:children-flags-unchanged", mod.loc(sa), "__setattr__ does not write into the assigned value")
        return
    for name in ("__copy__", "__deepcopy__"):
        fn = mod.func(f"Message.{name}")
        selfname = fn.args.args[0].arg
        paths = interp_for(mod).run(fn)
        ctx.count(len(paths))
        bad = False
        n = 0
        for p in paths:
            if p.outcome == "raise":
                continue
            ctor = [i for i, e in enumerate(p.events) if e.kind == "call" and any(k is None or k == "#" for k, _ in e.data[3])
                    and (dotted(e.data[1]).endswith("__class__") or dotted(e.data[1]) in ("cls", "type(self)", f"type({selfname})"))]
            if not ctor:
                continue
            n += 1
            new_obj = p.events[ctor[0]].data
            restores = [e for e in p.events[ctor[0] + 1:] if e.kind == "store" and e.data[0][0] == "a" and e.data[0][2] in marks
                        and e.data[0][1] not in (new_obj, N(selfname)) and e.data[1][0] != "c"]
            if not restores:
                bad = True
        cname = f"{name}:children-flags-unchanged"
        if not n:
            ctx.proved("V9", cname, mod.loc(fn), "does not rebuild through the constructor")
        elif bad:
            ctx.refuted("V9", cname, f"__setattr__ writes value.{sorted(marks)[0]}", mod.loc(fn),
                        f"{name} passes the original's raw children to the constructor; Message.__setattr__ sets {sorted(marks)} on an assigned message whose class has no fields, so a "
                        "field-less child that was only created by a read is marked present - in a shallow copy it is the original's own child object, i.e. copying changes what the "
                        "original encodes", "class Empty(Message): pass; m = M(); m.e; copy.copy(m); bytes(m) now carries `e`")
        else:
            ctx.proved("V9", cname, mod.loc(fn), "the children's flags are put back after construction")


def rule_V10(ctx, rule: str = "V10") -> None:
    """Message.__eq__ decides by the fields' values only: it says "equal" only after the field loop (or for the very same object),
    and when exactly one side of a field is unset it builds that field's default and compares with it - presence flags and the
    truthiness of the set value say nothing about equality with the default (an epoch datetime is truthy, a child filled in place
    has a clear flag)"""
    mod = ctx.repo.mod(M_INIT)
    fn = mod.func("Message.__eq__")
    ctx.analysed("Message.__eq__")
    paths = Interp(mod, fork_ifexp=True).run(fn)
    ctx.count(len(paths))
    early = None
    no_default = None
    n_one_sided = 0
    for p in paths:
        if p.outcome != "return" or p.value is None:
            continue
        looped = any(e.kind == "loop" for e in p.events)
        same = any(k[0] == "op" and k[1] == "is" and set(k[2:]) == {N("self"), N(fn.args.args[1].arg)} and v for k, v in p.valuation.items())
        if p.value == C(True) and not looped and not same:
            early = early or p
        ph = [(k, v) for k, v in p.valuation.items() if k[0] == "op" and k[1] == "is" and len(k) == 4 and k[3] == N("PLACEHOLDER")]
        unset = [k for k, v in ph if v]
        setv = [k for k, v in ph if not v]
        if looped and len(unset) == 1 and len(setv) == 1:
            n_one_sided += 1
            built = any(e.kind == "call" and dotted(e.data[1]).endswith("_get_field_default") for e in p.events)
            if not built:
                no_default = no_default or p
    name = "__eq__:by-field-values"
    # what two values mean to each other does not depend on how the field is declared: a NaN is tolerated because both values
    # are NaN, wherever they sit (a DoubleValue / FloatValue wrapper field has proto type `message`, a NaN inside it is still a NaN)
    by_decl = next((k for p in paths for k in p.valuation if any(t[0] == "a" and t[2] in ("proto_type", "wraps", "map_types", "number") for t in _walk(k))), None)
    if by_decl is not None:
        ctx.refuted(rule, "__eq__:independent-of-declaration", show(by_decl)[:80], mod.loc(fn), f"__eq__ decides on `{show(by_decl)}`: whether two values are equal is made to depend on the declared type of the "
                    "field - the tolerance for a NaN pair then misses the places where a float lives under another proto type (google.protobuf.DoubleValue / FloatValue wrapper fields), and "
                    "parse(bytes(m)) != m for such a message", "M(wd=float('nan')) with wd: Optional[float] = message_field(1, wraps=TYPE_DOUBLE)")
    else:
        ctx.proved(rule, "__eq__:independent-of-declaration", mod.loc(fn), "no decision reads the field's metadata")
    if early:
        ctx.refuted(rule, name, "equal-without-comparing", mod.loc(fn), f"__eq__ returns True before any field was compared, on {val_text(early.valuation)}: two messages are declared equal on "
                    "something other than their fields (a sub-message filled in place has a clear presence flag and still differs from a fresh default: dump would skip it)",
                    "m.sub.inner.x = 1; bytes(m)")
    elif no_default:
        ctx.refuted(rule, name, "unset-vs-set-without-default", mod.loc(fn), f"with one side of a field unset, __eq__ decides on {val_text(no_default.valuation)} without building the field's default: "
                    "whether the set value equals the default is not a question of its truthiness (datetime(1970, 1, 1, tzinfo=utc) is truthy and is the default of a Timestamp field)",
                    "pickle.loads(pickle.dumps(M(at=epoch))) == M(at=epoch)")
    elif n_one_sided == 0:
        ctx.inconclusive(rule, name, "no path on which exactly one side of a field is unset", mod.loc(fn))
    else:
        ctx.proved(rule, name, mod.loc(fn), f"{len(paths)} paths, {n_one_sided} one-sided ones compare with the default")


def rule_V11(ctx, rule: str = "V11") -> None:
    """pickling goes through the bytes of the message on every path: what __reduce__ / __getstate__ hand to pickle is built
    from bytes(self) (or one of its synonyms) - a path that returns the bare class loses what only the encoding carries (a oneof
    member selected at its default, a present-but-empty child: bool(message) is False for both)"""
    mod = ctx.repo.mod(M_INIT)
    synonyms = {"self.__bytes__", "self.SerializeToString", "self.dump"}
    for meth in ("__reduce__", "__getstate__"):
        name = f"{meth}:through-the-encoding"
        if not mod.has(f"Message.{meth}"):
            ctx.proved(rule, name, M_INIT, f"no {meth}: the default protocol copies the instance state")
            continue
        fn = mod.func(f"Message.{meth}")
        ctx.analysed(f"Message.{meth}")
        paths = Interp(mod, fork_ifexp=True).run(fn)
        ctx.count(len(paths))
        bad = None
        n = 0
        for p in paths:
            if p.outcome != "return" or p.value is None:
                continue
            n += 1
            carries = any(t[0] == "call" and ((dotted(t[1]) == "bytes" and t[2] == (N("self"),)) or dotted(t[1]) in synonyms or (meth == "__reduce__" and dotted(t[1]) == "self.__getstate__"))
                          for t in _walk(p.value))
            if not carries:
                bad = bad or p
        if bad:
            ctx.refuted(rule, name, show(bad.value)[:80], mod.loc(fn), f"on {val_text(bad.valuation) or 'the only path'} {meth} returns {show(bad.value)}, which does not carry bytes(self): whatever the truth "
                        "test on that path ignores (the selection of a oneof member that holds its default, presence of an empty child) is lost by a pickle round trip",
                        "pickle.loads(pickle.dumps(M(a=0)))  # a: oneof member")
        elif not n:
            ctx.inconclusive(rule, name, "no returning path", mod.loc(fn))
        else:
            ctx.proved(rule, name, mod.loc(fn), f"{n} returning paths, each built from bytes(self)")


def run(ctx) -> None:
    ctx.rules_run += ["V11"]
    rule_V11(ctx)
    ctx.rules_run.append("V10")
    rule_V10(ctx)
    for name, fn in (("V9", rule_V9), ("V1", rule_V1), ("V1b", rule_V1b), ("V2", rule_V2), ("V3", rule_V3), ("V4", rule_V4), ("V5", rule_V5), ("V6", rule_V6), ("D3", presence.rule_D3), ("V7", presence.rule_V7), ("V8", rule_V8)):
        ctx.rules_run.append(name)
        fn(ctx)
    from . import c20 as _c20
    ctx.rules_run += ["H2", "H4"]
    _c20.rule_H2(ctx)           # enum values inside a message are copied through Enum's own hooks: they hand back the member itself ...
    _c20.rule_H4(ctx)           # ... and what pickling (the fallback of copy) passes on rebuilds any number, declared or not
    ctx.rules_run.append("D2")
    presence.rule_D2(ctx)       # pickle goes through the encoding: what is set (an optional field at its empty value, a selected member) has to be emitted
    ctx.assume("external callees are pure unless in the mutator list; aliases arise only by name binding")
    ctx.assume("standard dataclasses (not pydantic) semantics for attribute stores")
