"""C12 - AsyncChannel typestate / pairing rules (A1-A9) + consumer (G6)."""
from __future__ import annotations

import ast
from typing import Dict, List, Optional, Set

from ..absint import Interp
from ..cfg import CFG, Node, normal_edge, own_nodes
from ..src import AnalysisError, M_CHANNEL, M_CLIENT
from ..sym import A, C, N, dotted, from_ast, show, simplify

PROP = "C12"
TECHNIQUE = "typestate/pairing analysis on statement CFGs with exceptional, finally and cancellation edges (dominance, must-pass-through)"
EXPLANATION = (
    "Static typestate check of AsyncChannel: per-method control-flow graphs with exception edges, per-exit copies of finally blocks "
    "and a cancellation edge out of every await are queried for pairing (every receiver-count increment is matched by exactly one "
    "decrement on every exit), for task_done() being reachable only through the normal completion of queue.get(), for the closed "
    "gate dominating every put with no suspension in between, for atomic check-then-act sections, sentinel confinement and sibling "
    "agreement of receive/__anext__. Decides the scheduler-independent discipline; exactly-once delivery under all interleavings is a "
    "model-checking question and is not decided."
)
RULE_TEXT = "obligation = (rule, method, construct); evaluations = CFG queries; non-trivial = distinct (method, construct) pairs"

CLS = "AsyncChannel"


def _attr_is(node: ast.AST, name: str) -> bool:
    return isinstance(node, ast.Attribute) and node.attr == name and isinstance(node.value, ast.Name) and node.value.id == "self"


def _stmt_nodes(g: CFG, pred) -> List[Node]:
    return [nd for nd in g.nodes if nd.stmt is not None and nd.kind in ("stmt", "test", "loop", "withexit") and pred(nd.stmt)]


def _is_aug(st: ast.AST, attr: str, op) -> bool:
    """`self.<attr> += k` / `-= k` - or, when the count is kept as a collection of tokens, `self.<attr>.add(t)` (append) /
    `.discard(t)` (remove, pop): one more / one fewer element"""
    if isinstance(st, ast.AugAssign) and _attr_is(st.target, attr) and isinstance(st.op, op):
        return True
    if isinstance(st, ast.Expr) and isinstance(st.value, ast.Call) and isinstance(st.value.func, ast.Attribute) and _attr_is(st.value.func.value, attr):
        m = st.value.func.attr
        return m in (("add", "append") if op is ast.Add else ("discard", "remove", "pop"))
    return False


def _calls(st: ast.AST, dotted_suffix: str) -> bool:
    for n in own_nodes(st):
        if isinstance(n, ast.Call):
            try:
                if ast.unparse(n.func).endswith(dotted_suffix):
                    return True
            except Exception:
                pass
    return False


def _has_await(st: ast.AST) -> bool:
    return any(isinstance(n, (ast.Await, ast.AsyncFor, ast.AsyncWith)) for n in own_nodes(st)) or isinstance(st, (ast.AsyncFor, ast.AsyncWith))


def _delegates(fn: ast.AST) -> bool:
    """the method gets its item from its sibling (self.receive() / self.__anext__()) instead of the queue; the sibling is
    then the one that is checked"""
    sib = "self.__anext__" if fn.name == "receive" else "self.receive"
    return any(isinstance(c, ast.Call) and ast.unparse(c.func) == sib for c in ast.walk(fn)) and not any(
        isinstance(c, ast.Call) and (ast.unparse(c.func).endswith("_queue.get") or ast.unparse(c.func).endswith("_queue.get_nowait")) for c in ast.walk(fn))


def rule_A1(ctx) -> None:
    mod = ctx.repo.mod(M_CHANNEL)
    n_inst = 0
    for m in ("receive", "__anext__"):
        fn = mod.func(f"{CLS}.{m}")
        ctx.analysed(f"{CLS}.{m}")
        if _delegates(fn):
            ctx.proved("A1", f"{m}:waiting_receivers-pairing", mod.loc(fn), "delegates to its sibling")
            n_inst += 1
            continue
        g = CFG(fn)
        incs = _stmt_nodes(g, lambda s: _is_aug(s, "_waiting_receivers", ast.Add))
        decs = {nd.id for nd in _stmt_nodes(g, lambda s: _is_aug(s, "_waiting_receivers", ast.Sub))}
        if not incs:
            raise AnalysisError(f"{m}: receiver-count increment not found")
        for inc in incs:
            n_inst += 1
            starts = [t for t, lab in g.succ[inc.id] if normal_edge(lab)]
            reach = g.reachable(starts, avoid=decs)
            leaks = [x for x in (g.exit.id, g.raise_exit.id) if x in reach]
            name = f"{m}:waiting_receivers-pairing"
            if leaks:
                path = g.find_path(inc.id, set(leaks), avoid=decs, labels=None)
                ctx.refuted("A1", name, "exit-without-decrement", mod.loc(inc.stmt),
                            f"after `_waiting_receivers += 1` an exit is reachable without the matching decrement: {g.describe(path) if path else ''}",
                            "cancel a receiver blocked in receive(); then close() - done() stays false for ever")
                continue
            # exactly one: from a decrement no other decrement is reachable without passing the increment again
            double = False
            for d in decs:
                r = g.reach_from_successors(d, avoid={inc.id})
                if r & (decs - {d}):
                    double = True
            if double:
                ctx.refuted("A1", name, "double-decrement", mod.loc(inc.stmt), "a path decrements `_waiting_receivers` twice for one increment")
            else:
                ctx.proved("A1", name, mod.loc(inc.stmt), f"{len(decs)} decrement sites cover all exits")
    ctx.floor("A1", "increment sites", n_inst, 2)


def rule_A2(ctx) -> None:
    mod = ctx.repo.mod(M_CHANNEL)
    n_inst = 0
    for m in ("receive", "__anext__"):
        fn = mod.func(f"{CLS}.{m}")
        if _delegates(fn):
            ctx.proved("A2", f"{m}:task_done-after-successful-get", mod.loc(fn), "delegates to its sibling")
            continue
        g = CFG(fn)
        gets = _stmt_nodes(g, lambda s: _calls(s, "_queue.get") or _calls(s, "_queue.get_nowait"))   # get_nowait completes normally only with an item
        dones = _stmt_nodes(g, lambda s: _calls(s, "_queue.task_done"))
        name = f"{m}:task_done-after-successful-get"
        if not gets:
            raise AnalysisError(f"{m}: queue.get() not found")
        if not dones:
            ctx.proved("A2", name, mod.loc(fn), "no task_done() call")
            continue
        n_inst += 1
        # remove the normal completion edges of get(); task_done must become unreachable
        getids = {x.id for x in gets}
        seen: Set[int] = set()
        stack = [g.entry.id]
        prev: Dict[int, tuple] = {}
        while stack:
            n = stack.pop()
            if n in seen:
                continue
            seen.add(n)
            for t, lab in g.succ[n]:
                if n in getids and normal_edge(lab):
                    continue
                if t not in seen:
                    prev.setdefault(t, (n, lab))
                    stack.append(t)
        bad = [d for d in dones if d.id in seen]
        if bad:
            # reconstruct one witness path
            cur = bad[0].id
            path = []
            while cur in prev and cur != g.entry.id:
                p, lab = prev[cur]
                path.append((cur, lab))
                cur = p
            path.reverse()
            ctx.refuted("A2", name, "reached-on-exceptional-edge", mod.loc(bad[0].stmt),
                        "task_done() is reachable without a successful queue.get(): " + g.describe(path[-4:]),
                        "asyncio.wait_for(ch.receive(), 0.01) on an empty channel -> ValueError: task_done() called too many times")
        else:
            ctx.proved("A2", name, mod.loc(dones[0].stmt))
    ctx.floor("A2", "task_done sites", n_inst, 0)


class ChannelState:
    """The life-cycle state of the channel as the class keeps it: the instance attributes that are only ever assigned constants
    (two booleans `_closed` / `_flushed`, or one stage number, ...) with the finite set of values each can take.  Tests of the
    methods are evaluated over that finite state space, so the rules ask "is this test true exactly in the closed states"
    rather than "does the text mention `_closed`"."""

    def __init__(self, mod):
        self.mod = mod
        self.consts = {k: v for k, v in mod.consts.items() if isinstance(v, (bool, int)) or v is None}
        dom: Dict[str, Set] = {}
        other: Set[str] = set()
        for mname, fns in mod.methods(CLS).items():
            for fn in fns:
                for n in ast.walk(fn):
                    tgts = []
                    if isinstance(n, ast.Assign):
                        tgts = [(t, n.value) for t in n.targets]
                    elif isinstance(n, ast.AnnAssign) and n.value is not None:
                        tgts = [(n.target, n.value)]
                    elif isinstance(n, ast.AugAssign):
                        tgts = [(n.target, None)]
                    for t, v in tgts:
                        if isinstance(t, ast.Attribute) and isinstance(t.value, ast.Name) and t.value.id == "self":
                            c = self._const(v) if v is not None else None
                            if c is None:
                                other.add(t.attr)
                            else:
                                dom.setdefault(t.attr, set()).add(c[0])
        self.domain = {a: sorted(vs, key=repr) for a, vs in dom.items() if a not in other and 1 < len(vs) <= 4}
        self.states: List[Dict[str, object]] = [{}]
        for a, vs in sorted(self.domain.items()):
            self.states = [dict(s_, **{a: v}) for s_ in self.states for v in vs]
        cf = mod.func(f"{CLS}.closed")
        rets = [r.value for r in ast.walk(cf) if isinstance(r, ast.Return) and r.value is not None]
        self.closed_expr = rets[0] if len(rets) == 1 else None

    def _const(self, v: ast.AST):
        if isinstance(v, ast.Constant) and (isinstance(v.value, (bool, int)) or v.value is None):
            return (v.value,)
        if isinstance(v, ast.Name) and v.id in self.consts:
            return (self.consts[v.id],)
        return None

    def attrs_in(self, e: ast.AST) -> Set[str]:
        out = {n.attr for n in ast.walk(e) if isinstance(n, ast.Attribute) and isinstance(n.value, ast.Name) and n.value.id == "self" and n.attr in self.domain}
        if any(isinstance(n, ast.Call) and ast.unparse(n.func) == "self.closed" for n in ast.walk(e)) and self.closed_expr is not None:
            out |= self.attrs_in(self.closed_expr)
        return out

    def ev(self, e: ast.AST, st: Dict[str, object], depth: int = 0):
        """value of the expression in state `st` (None when it depends on anything else)"""
        from ..sym import subst
        t = from_ast(e, lambda n: C(self.consts[n]) if n in self.consts else None)

        def rep(x):
            if x[0] == "a" and x[1] == N("self") and x[2] in st:
                return C(st[x[2]])
            if x[0] == "call" and x[1] == A(N("self"), "closed") and not x[2] and depth < 2 and self.closed_expr is not None:
                v = self.ev(self.closed_expr, st, depth + 1)
                return C(v) if v is not None else None
            return None
        def deep(x):
            if isinstance(x, tuple) and x and x[0] == "op":
                return simplify(("op", x[1]) + tuple(deep(y) for y in x[2:]))
            if isinstance(x, tuple) and x and x[0] == "ife":
                c_ = deep(x[1])
                if c_[0] == "c":
                    return deep(x[2]) if c_[1] else deep(x[3])
            return x
        r = deep(subst(t, rep))
        return r[1] if r[0] == "c" else None

    def closed_states(self) -> Optional[List[Dict[str, object]]]:
        if self.closed_expr is None:
            return None
        out = []
        for st in self.states:
            v = self.ev(self.closed_expr, st)
            if v is None:
                return None
            if v:
                out.append(st)
        return out

    def true_exactly_when_closed(self, test: ast.AST) -> bool:
        cs = self.closed_states()
        if cs is None or not self.attrs_in(test):
            return False
        for st in self.states:
            v = self.ev(test, st)
            if v is None or bool(v) != (st in cs):
                return False
        return True


    def once_guards(self, fn: ast.AST):
        """[(If node, taken: bool, [stores])]: a test of the life-cycle state with, in one of its branches, constant stores to
        state attributes after which the same test no longer takes that branch - in every state that takes it"""
        out = []
        follow: Dict[int, List[ast.stmt]] = {}
        for parent in ast.walk(fn):
            for fld in ("body", "orelse", "finalbody"):
                blk = getattr(parent, fld, None)
                if isinstance(blk, list) and blk and isinstance(blk[0], ast.stmt):
                    for k_, st_ in enumerate(blk):
                        follow[id(st_)] = blk[k_ + 1:]
        for n in ast.walk(fn):
            if not isinstance(n, ast.If) or not self.attrs_in(n.test):
                continue
            branches = [(True, n.body), (False, n.orelse)]
            # `if T: return` / `if T: raise`: what follows the statement is the other branch
            if not n.orelse and n.body and isinstance(n.body[-1], (ast.Return, ast.Raise)):
                branches = [(False, follow.get(id(n), []))]
            for taken, block in branches:
                stores = [st for st in block if isinstance(st, ast.Assign) and len(st.targets) == 1 and isinstance(st.targets[0], ast.Attribute)
                          and isinstance(st.targets[0].value, ast.Name) and st.targets[0].value.id == "self" and st.targets[0].attr in self.domain and self._const(st.value) is not None]
                if not stores:
                    continue
                ok = True
                some = False
                for stt in self.states:
                    v = self.ev(n.test, stt)
                    if v is None:
                        ok = False
                        break
                    if bool(v) != taken:
                        continue
                    some = True
                    after = dict(stt)
                    for st in stores:
                        after[st.targets[0].attr] = self._const(st.value)[0]
                    v2 = self.ev(n.test, after)
                    if v2 is None or bool(v2) == taken:
                        ok = False
                        break
                if ok and some:
                    out.append((n, taken, stores))
        return out

    def simulate(self, stmts: List[ast.stmt], st: Dict[str, object], stop) -> Optional[Dict[str, object]]:
        """state after running the statements up to (not including) the first one for which stop(stmt) holds: constant
        stores to state attributes are applied, `if` tests over the state are decided, everything else is skipped.
        None when a test that guards a state store cannot be decided."""
        cur = dict(st)

        def run(block) -> Optional[bool]:
            nonlocal cur
            for s_ in block:
                if stop(s_):
                    return True
                if isinstance(s_, ast.Assign) and len(s_.targets) == 1 and isinstance(s_.targets[0], ast.Attribute) and isinstance(s_.targets[0].value, ast.Name) \
                        and s_.targets[0].value.id == "self" and s_.targets[0].attr in self.domain:
                    c = self._const(s_.value)
                    if c is None:
                        return None
                    cur[s_.targets[0].attr] = c[0]
                elif isinstance(s_, ast.If):
                    touches = any(isinstance(x, ast.Attribute) and isinstance(x.ctx, ast.Store) and x.attr in self.domain for b in (s_.body, s_.orelse) for y in b for x in ast.walk(y)) \
                        or any(stop(y) for b in (s_.body, s_.orelse) for z in b for y in ast.walk(z) if isinstance(y, ast.stmt))
                    v = self.ev(s_.test, cur)
                    if v is None:
                        stores = any(isinstance(x, ast.Attribute) and isinstance(x.ctx, ast.Store) and x.attr in self.domain for b in (s_.body, s_.orelse) for y in b for x in ast.walk(y))
                        if touches and not stores:
                            # a test over something else (counters, the queue) around the statement looked for: the life-cycle
                            # state is the same on both branches; the statement is reached in the one that holds it
                            for blk in (s_.body, s_.orelse):
                                r = run(blk)
                                if r is None or r is True:
                                    return r
                            continue
                        if touches:
                            return None
                        continue
                    r = run(s_.body if v else s_.orelse)
                    if r is None or r is True:
                        return r
                elif isinstance(s_, (ast.Return, ast.Raise)):
                    return True
            return False

        r = run(stmts)
        return None if r is None else cur


_STATE_CACHE: Dict[int, ChannelState] = {}


def channel_state(mod) -> ChannelState:
    if id(mod) not in _STATE_CACHE:
        _STATE_CACHE.clear()
        _STATE_CACHE[id(mod)] = ChannelState(mod)
    return _STATE_CACHE[id(mod)]


def _closed_gate(g: CFG, cs: Optional[ChannelState] = None) -> List[Node]:
    """tests that hold exactly in the closed states of the channel and raise ChannelClosed"""
    out = []
    for nd in g.nodes:
        if nd.kind == "test" and isinstance(nd.stmt, ast.If):
            txt = ast.unparse(nd.stmt.test)
            raises = any(isinstance(b, ast.Raise) and b.exc is not None and "ChannelClosed" in ast.unparse(b.exc) for b in nd.stmt.body)
            if not raises:
                continue
            if cs is not None and cs.closed_states() is not None:
                if cs.true_exactly_when_closed(nd.stmt.test):
                    out.append(nd)
            elif "self._closed" in txt or "self.closed()" in txt:
                out.append(nd)
    return out


def rule_A3(ctx) -> None:
    mod = ctx.repo.mod(M_CHANNEL)
    # send: gate dominates put, no await between
    fn = mod.func(f"{CLS}.send")
    ctx.analysed(f"{CLS}.send", f"{CLS}.send_from")
    g = CFG(fn, implicit_exc=False)
    cs = channel_state(mod)
    gates = _closed_gate(g, cs)
    puts = _stmt_nodes(g, lambda s: _calls(s, "_queue.put") or _calls(s, "_queue.put_nowait"))
    delegated = not puts and any(isinstance(c, ast.Call) and ast.unparse(c.func) == "self.send_from" for c in ast.walk(fn))
    if not puts and not delegated:
        raise AnalysisError("send: queue.put not found")
    if delegated:
        ctx.proved("A3", "send:closed-gate", mod.loc(fn), "send() hands its item to send_from(), whose gate is checked below")
    elif not gates:
        ctx.refuted("A3", "send:closed-gate", "absent", mod.loc(fn), "send() does not test `_closed` and raise ChannelClosed before putting", "ch.close(); await ch.send(x)")
    else:
        dom = g.dominators(labels=normal_edge)
        gids = {x.id for x in gates}
        ok = all(dom[p.id] & gids for p in puts)
        between_await = False
        for gt in gates:
            starts = [t for t, lab in g.succ[gt.id] if lab == "false"]
            region = g.reachable(starts, avoid={p.id for p in puts}, labels=normal_edge)
            for i in region:
                nd = g.nodes[i]
                if nd.stmt is not None and nd.kind in ("stmt", "test", "loop") and _has_await(nd.stmt):
                    between_await = True
        if not ok:
            ctx.refuted("A3", "send:closed-gate", "not-dominating", mod.loc(fn), "a put in send() is reachable without passing the closed test")
        elif between_await:
            ctx.refuted("A3", "send:closed-gate", "await-between", mod.loc(fn), "send() suspends between the closed test and the put: a close() in between is missed",
                        "close() scheduled while send() is suspended before its put")
        else:
            ctx.proved("A3", "send:closed-gate", mod.loc(fn))
    # send_from: the gate is the first statement
    fn = mod.func(f"{CLS}.send_from")
    g = CFG(fn, implicit_exc=False)
    gates = _closed_gate(g, cs)
    first = [t for t, lab in g.succ[g.entry.id]]
    # skip docstring
    while first and g.nodes[first[0]].kind == "stmt" and isinstance(g.nodes[first[0]].stmt, ast.Expr) and isinstance(g.nodes[first[0]].stmt.value, ast.Constant):
        first = [t for t, lab in g.succ[first[0]]]
    if gates and first and first[0] in {x.id for x in gates}:
        ctx.proved("A3", "send_from:closed-gate", mod.loc(fn))
    elif gates:
        dom = g.dominators(labels=normal_edge)
        puts = _stmt_nodes(g, lambda s: _calls(s, "_queue.put"))
        if all(dom[p.id] & {x.id for x in gates} for p in puts):
            ctx.proved("A3", "send_from:closed-gate", mod.loc(fn), "gate dominates every put")
        else:
            ctx.refuted("A3", "send_from:closed-gate", "not-dominating", mod.loc(fn), "a put in send_from() is reachable without passing the closed test")
    else:
        ctx.refuted("A3", "send_from:closed-gate", "absent", mod.loc(fn), "send_from() does not reject a closed channel", "ch.close(); await ch.send_from([x])")


def rule_A4(ctx) -> None:
    mod = ctx.repo.mod(M_CHANNEL)
    for m in ("receive", "__anext__"):
        fn = mod.func(f"{CLS}.{m}")
        if _delegates(fn):
            ctx.proved("A4", f"{m}:done-check-then-increment", mod.loc(fn), "delegates to its sibling")
            continue
        g = CFG(fn, implicit_exc=False)
        tests = [nd for nd in g.nodes if nd.kind == "test" and isinstance(nd.stmt, ast.If) and "self.done()" in ast.unparse(nd.stmt.test)]
        incs = _stmt_nodes(g, lambda s: _is_aug(s, "_waiting_receivers", ast.Add))
        name = f"{m}:done-check-then-increment"
        if not tests:
            ctx.refuted("A4", name, "no-done-test", mod.loc(fn), f"{m}() does not test done() before waiting: a receiver on a finished channel blocks for ever",
                        "ch.close(); await ch.receive()")
            continue
        dom = g.dominators(labels=normal_edge)
        if not all(dom[i.id] & {t.id for t in tests} for i in incs):
            ctx.refuted("A4", name, "increment-not-guarded", mod.loc(fn), "the receiver-count increment is reachable without the done() test")
            continue
        bad = False
        for t in tests:
            region = g.reach_from_successors(t.id, avoid={i.id for i in incs}, labels=normal_edge)
            for i in region:
                nd = g.nodes[i]
                if nd.stmt is not None and nd.kind in ("stmt", "test", "loop") and _has_await(nd.stmt) and any(
                        g.must_pass(t.id, x.id, {i}) is False or True for x in incs) and any(x.id in g.reach_from_successors(i, labels=normal_edge) for x in incs):
                    bad = True
        if bad:
            ctx.refuted("A4", name, "await-between", mod.loc(fn), "a suspension point lies between the done() test and the receiver-count increment")
        else:
            ctx.proved("A4", name, mod.loc(fn))
    # _flush_queue: test of _flushed and its set are adjacent (no await between)
    fn = mod.func(f"{CLS}._flush_queue")
    ctx.analysed(f"{CLS}._flush_queue", f"{CLS}.close", f"{CLS}.done")
    g = CFG(fn, implicit_exc=False)
    cs = channel_state(mod)
    og = cs.once_guards(fn)
    og_tests = {id(n_) for n_, _, _ in og}
    og_sets = {id(st_) for _, _, sts in og for st_ in sts}
    tests = [nd for nd in g.nodes if nd.kind == "test" and isinstance(nd.stmt, ast.If) and id(nd.stmt) in og_tests]
    sets = _stmt_nodes(g, lambda s: id(s) in og_sets)
    puts = _stmt_nodes(g, lambda s: _calls(s, "_queue.put") or _calls(s, "_queue.put_nowait"))
    if not tests or not sets:
        # the guard may live where the flush is scheduled instead: close() tests and sets `_flushed` before it starts the
        # (only) flush task, and nobody else calls _flush_queue
        cf = mod.func(f"{CLS}.close")
        cg = CFG(cf, implicit_exc=False)
        cog = cs.once_guards(cf)
        ctests = [nd for nd in cg.nodes if nd.kind == "test" and isinstance(nd.stmt, ast.If) and id(nd.stmt) in {id(n_) for n_, _, _ in cog}]
        csets = _stmt_nodes(cg, lambda s: id(s) in {id(st_) for _, _, sts in cog for st_ in sts})
        cflush = _stmt_nodes(cg, lambda s: "_flush_queue" in ast.unparse(s))
        other_callers = [m for m, fns in mod.methods(CLS).items() for f in fns if m not in ("close", "_flush_queue")
                         and any(isinstance(n, ast.Attribute) and n.attr == "_flush_queue" for n in ast.walk(f))]
        cdom = cg.dominators(labels=normal_edge)
        guarded_in_close = bool(ctests) and bool(csets) and bool(cflush) and not other_callers and not isinstance(cf, ast.AsyncFunctionDef) \
            and all(cdom[f_.id] & {x.id for x in csets} and cdom[f_.id] & {t.id for t in ctests} for f_ in cflush)
        # the flagged branch of the test must not reach the scheduling statement
        if guarded_in_close:
            for t in ctests:
                taken_ = next(tk for n_, tk, _ in cog if n_ is t.stmt)
                flagged_edge = "false" if taken_ else "true"
                reach = cg.reachable([x for x, lab in cg.succ[t.id] if lab == flagged_edge], labels=normal_edge)
                if any(f_.id in reach for f_ in cflush):
                    guarded_in_close = False
        if guarded_in_close:
            ctx.proved("A4", "_flush_queue:once", mod.loc(cf), "close() schedules the flush once (guard on `_flushed` before the only scheduling site)")
        else:
            ctx.refuted("A4", "_flush_queue:once", "no-guard", mod.loc(fn), "_flush_queue has no once-only guard (a test of the life-cycle state whose branch stores a state that fails the test): two close() calls inject sentinels twice",
                        "ch.close(); ch.close() with blocked receivers")
    else:
        bad = False
        for t in tests:
            region = g.reach_from_successors(t.id, avoid={x.id for x in sets}, labels=normal_edge)
            if any(g.nodes[i].stmt is not None and g.nodes[i].kind in ("stmt", "loop", "test") and _has_await(g.nodes[i].stmt) and
                   any(x.id in g.reach_from_successors(i, labels=normal_edge) for x in sets) for i in region):
                bad = True
        dom = g.dominators(labels=normal_edge)
        guarded = all(dom[p.id] & {x.id for x in sets} for p in puts)
        if bad:
            ctx.refuted("A4", "_flush_queue:once", "await-between", mod.loc(fn), "a suspension point lies between testing and setting the flushed state")
        elif not guarded:
            ctx.refuted("A4", "_flush_queue:once", "put-before-set", mod.loc(fn), "sentinels are put before the flushed state is recorded")
        else:
            ctx.proved("A4", "_flush_queue:once", mod.loc(fn))
    # close(): _closed = True before the flush is scheduled
    fn = mod.func(f"{CLS}.close")
    g = CFG(fn, implicit_exc=False)
    sets = _stmt_nodes(g, lambda s: isinstance(s, ast.Assign) and any(isinstance(t, ast.Attribute) and isinstance(t.value, ast.Name) and t.value.id == "self" and t.attr in cs.domain for t in s.targets))
    flush = _stmt_nodes(g, lambda s: _calls(s, "_flush_queue") or "_flush_queue" in ast.unparse(s))
    # the state in which the flush is scheduled, for every state close() can be called in: closed
    at_flush = [cs.simulate(fn.body, st_, lambda x: not isinstance(x, (ast.If,)) and "_flush_queue" in ast.unparse(x)) for st_ in cs.states]
    closed_sts = cs.closed_states()
    becomes_closed = closed_sts is not None and all(a_ is not None and a_ in closed_sts for a_ in at_flush)
    if not sets or (closed_sts is not None and not all(a_ is not None for a_ in at_flush)):
        ctx.refuted("A4", "close:sets-closed-first", "no-store", mod.loc(fn), "close() does not put the channel into a closed state (closed() stays False)")
    elif flush and closed_sts is not None and not becomes_closed:
        ctx.refuted("A4", "close:sets-closed-first", "order", mod.loc(fn), "when the flush is scheduled the channel is not yet in a closed state")
    elif flush and becomes_closed:
        ctx.proved("A4", "close:sets-closed-first", mod.loc(fn), f"closed in all {len(cs.states)} life-cycle states when the flush is scheduled")
    elif not flush:
        ctx.refuted("A4", "close:sets-closed-first", "no-flush", mod.loc(fn), "close() does not start the flush that wakes blocked receivers",
                    "receiver blocked in receive(); ch.close() - receiver never returns")
    else:
        dom = g.dominators(labels=normal_edge)
        if all(dom[f.id] & {x.id for x in sets} for f in flush):
            ctx.proved("A4", "close:sets-closed-first", mod.loc(fn))
        else:
            ctx.refuted("A4", "close:sets-closed-first", "order", mod.loc(fn), "the flush is scheduled before `_closed` is set")


def rule_A11(ctx) -> None:
    """the channel is closed only through close(): it is the one place that pairs `_closed = True` with the flush that wakes
    the receivers no item is left for - any other function that sets `_closed` itself leaves them blocked"""
    mod = ctx.repo.mod(M_CHANNEL)
    cs = channel_state(mod)
    closed_attrs = cs.attrs_in(cs.closed_expr) if cs.closed_expr is not None and cs.attrs_in(cs.closed_expr) else {"_closed"}
    writers = []
    for mname, fns in mod.methods(CLS).items():
        for fn in fns:
            for n in ast.walk(fn):
                tgts = n.targets if isinstance(n, ast.Assign) else [n.target] if isinstance(n, (ast.AugAssign, ast.AnnAssign)) else []
                for t in tgts:
                    if any(_attr_is(t, a_) for a_ in closed_attrs):
                        writers.append((mname, n))
                if isinstance(n, ast.Call) and ast.unparse(n.func) in ("setattr", "object.__setattr__") and any(isinstance(a, ast.Constant) and a.value in closed_attrs for a in n.args):
                    writers.append((mname, n))
    # methods that only close() refers to (the flush it schedules) run in a closed channel: they may move the life cycle on
    only_from_close = {m for m in mod.methods(CLS) if m not in ("close", "__init__") and not any(
        isinstance(x, ast.Attribute) and x.attr == m for m2, fns2 in mod.methods(CLS).items() if m2 not in ("close", m) for f2 in fns2 for x in ast.walk(f2))
        and any(isinstance(x, ast.Attribute) and x.attr == m for f2 in mod.methods(CLS).get("close", []) for x in ast.walk(f2))}

    def closes(m: str, n: ast.AST) -> bool:
        # does this store take an open channel to a closed state?
        if m in only_from_close and len(closed_attrs) == 1 and cs.closed_states() is not None:
            val = cs._const(n.value) if isinstance(n, ast.Assign) else None
            if val is not None:
                return False        # reached only in closed states; a constant store there cannot be the closing step
        return True

    rogue = [(m, n) for m, n in writers if m not in ("__init__", "close") and closes(m, n)]
    if rogue:
        m, n = rogue[0]
        ctx.refuted("A11", "closed-flag:only-close-sets-it", ",".join(sorted({m for m, _ in rogue})), mod.loc(n),
                    f"{m}() sets `_closed` itself instead of calling close(): the flush that injects one sentinel per stranded receiver is never scheduled on that route, so receivers "
                    "blocked beyond the buffered items wait for ever", "two receivers blocked, send_from([x], close=True)")
    elif not any(m == "close" for m, _ in writers):
        ctx.inconclusive("A11", "closed-flag:only-close-sets-it", f"close() does not store the closed state ({sorted(closed_attrs)})", mod.rel)
    else:
        ctx.proved("A11", "closed-flag:only-close-sets-it", mod.rel, f"{len(writers)} stores, in __init__ / close only")


def rule_A5(ctx) -> None:
    mod = ctx.repo.mod(M_CHANNEL)
    cls = mod.cls(CLS)
    # the sentinel: a class attribute bound to object()
    sent = [t.id for st in cls.body if isinstance(st, ast.Assign) and isinstance(st.value, ast.Call) and ast.unparse(st.value.func) == "object"
            for t in st.targets if isinstance(t, ast.Name)]
    # ... or a module-level singleton (`_FLUSH = object()` / `= _PrivateClass()`), possibly kept under a class attribute as well
    mod_sent = [t.id for st in mod.tree.body if isinstance(st, ast.Assign) and isinstance(st.value, ast.Call) and not st.value.args and not st.value.keywords
                and isinstance(st.value.func, ast.Name) and (st.value.func.id == "object" or (st.value.func.id.startswith("_") and st.value.func.id in mod.defs))
                for t in st.targets if isinstance(t, ast.Name)]
    sent += [t.id for st in cls.body if isinstance(st, ast.Assign) and isinstance(st.value, ast.Name) and st.value.id in mod_sent for t in st.targets if isinstance(t, ast.Name)]
    if not sent and not mod_sent:
        raise AnalysisError("AsyncChannel: flush sentinel (class attribute / module singleton = object()) not found")
    s = sent[0] if sent else mod_sent[0]
    sent_names = set(sent) | set(mod_sent)

    def is_sent(e: ast.AST, local=()) -> bool:
        return (isinstance(e, ast.Attribute) and e.attr in sent_names) or (isinstance(e, ast.Name) and (e.id in sent_names or e.id in local))

    putters = set()
    for mname, fns in mod.methods(CLS).items():
        for fn in fns:
            # `for signal in repeat(<sentinel>, n)`: the loop variable is the sentinel
            local = {lp.target.id for lp in ast.walk(fn) if isinstance(lp, ast.For) and isinstance(lp.target, ast.Name) and isinstance(lp.iter, ast.Call)
                     and ast.unparse(lp.iter.func).split(".")[-1] == "repeat" and lp.iter.args and is_sent(lp.iter.args[0])}
            for n in ast.walk(fn):
                if isinstance(n, ast.Call) and isinstance(n.func, ast.Attribute) and n.func.attr in ("put", "put_nowait"):
                    if any(is_sent(a, local) for a in n.args):
                        putters.add(mname)
    if putters == {"_flush_queue"}:
        ctx.proved("A5", "sentinel:only-flush-puts", mod.loc(cls))
    else:
        ctx.refuted("A5", "sentinel:only-flush-puts", ",".join(sorted(putters)) or "none", mod.loc(cls), f"the flush sentinel is put by {sorted(putters)}; only _flush_queue may inject it")
    for m in ("receive", "__anext__"):
        fn = mod.func(f"{CLS}.{m}")
        if m == "receive" and _delegates(fn):
            # the end of the stream is __anext__'s StopAsyncIteration: caught exactly, turned into None; the item is
            # returned as it came (the sentinel never leaves __anext__, which is checked on its own)
            handlers = [h for t in ast.walk(fn) if isinstance(t, ast.Try) for h in t.handlers]
            stop = [h for h in handlers if h.type is not None and "StopAsyncIteration" in ast.unparse(h.type)]
            broad = [h for h in handlers if h.type is None or ast.unparse(h.type) in ("Exception", "BaseException")]
            if stop and not broad:
                ctx.proved("A5", f"{m}:sentinel-never-returned", mod.loc(fn), "delegates to __anext__(); end recognised by StopAsyncIteration")
            elif broad:
                ctx.refuted("A5", f"{m}:sentinel-never-returned", "broad-except", mod.loc(broad[0]),
                            "receive() turns every exception of __anext__() into the end of the stream: a cancelled or timed out receive() returns None instead of raising")
            else:
                ctx.inconclusive("A5", f"{m}:sentinel-never-returned", "delegating receive() without a StopAsyncIteration handler", mod.loc(fn))
            continue
        if m == "__anext__" and _delegates(fn):
            # end of stream is receive()'s None: it must be recognised by identity, a falsy *item* is a legitimate item
            tests_ = [n for n in ast.walk(fn) if isinstance(n, ast.If) and any(isinstance(x, ast.Raise) and "StopAsyncIteration" in ast.unparse(x) for x in ast.walk(n))]
            ident = [t for t in tests_ if isinstance(t.test, ast.Compare) and isinstance(t.test.ops[0], (ast.Is, ast.IsNot)) and
                     any(isinstance(c, ast.Constant) and c.value is None for c in t.test.comparators)]
            truthy = [t for t in tests_ if not isinstance(t.test, ast.Compare)]
            if truthy:
                ctx.refuted("A5", f"{m}:sentinel-never-returned", "truthiness-test", mod.loc(truthy[0]),
                            f"__anext__ ends the iteration on `{ast.unparse(truthy[0].test)}`: a falsy item (0, '', a message with only default values) is dequeued and dropped and the iteration stops early",
                            "send Ping(seq=0) through the channel and iterate with async for")
            elif ident:
                ctx.proved("A5", f"{m}:sentinel-never-returned", mod.loc(fn), "delegates to receive(); end recognised by `is None`")
            else:
                ctx.inconclusive("A5", f"{m}:sentinel-never-returned", "delegating __anext__ without a recognisable end-of-stream test", mod.loc(fn))
            continue
        from ..expand import split_conditional_returns
        fn = split_conditional_returns(fn)
        g = CFG(fn, implicit_exc=False)
        tests = [nd for nd in g.nodes if nd.kind == "test" and isinstance(nd.stmt, ast.If) and isinstance(nd.stmt.test, ast.Compare)
                 and any(is_sent(c) for c in [nd.stmt.test.left] + nd.stmt.test.comparators)]
        gets = [st for st in ast.walk(fn) if isinstance(st, ast.Assign) and isinstance(st.value, ast.Await) and "_queue.get" in ast.unparse(st.value)]
        name = f"{m}:sentinel-never-returned"
        if not gets:
            raise AnalysisError(f"{m}: awaited queue.get() assignment not found")
        var = gets[0].targets[0].id if isinstance(gets[0].targets[0], ast.Name) else None
        # plain copies of the dequeued value (x = var) denote it as well
        vars_ = {var}
        for _ in range(3):
            vars_ |= {st.targets[0].id for st in ast.walk(fn) if isinstance(st, ast.Assign) and len(st.targets) == 1 and isinstance(st.targets[0], ast.Name)
                      and isinstance(st.value, ast.Name) and st.value.id in vars_}
        rets = [nd for nd in g.nodes if nd.kind == "stmt" and isinstance(nd.stmt, ast.Return) and nd.stmt.value is not None and
                isinstance(nd.stmt.value, ast.Name) and nd.stmt.value.id in vars_]
        if not tests:
            ctx.refuted("A5", name, "no-test", mod.loc(fn), f"{m}() returns what it got from the queue without filtering the flush sentinel",
                        "blocked receiver + close(): receiver returns the private sentinel object")
            continue
        is_ops = all(isinstance(t.stmt.test.ops[0], (ast.Is, ast.IsNot)) for t in tests)
        ok = True
        for r in rets:
            for t in tests:
                # return of the item only through the edge on which it is *not* the sentinel
                # (`x is flush`: false edge; `x is not flush`: true edge)
                sentinel_edge = "false" if isinstance(t.stmt.test.ops[0], ast.IsNot) else "true"
                reach_sentinel = g.reachable([x for x, lab in g.succ[t.id] if lab == sentinel_edge], labels=normal_edge)
                if r.id in reach_sentinel:
                    ok = False
            dom = g.dominators(labels=normal_edge)
            if not (dom[r.id] & {t.id for t in tests}):
                ok = False
        if not is_ops:
            ctx.refuted("A5", name, "not-identity", mod.loc(fn), "the sentinel is compared with == instead of `is` (items with a custom __eq__ can be swallowed)")
        elif ok:
            ctx.proved("A5", name, mod.loc(fn))
        else:
            ctx.refuted("A5", name, "bypass", mod.loc(fn), "the received item can be returned without passing the sentinel test")


def rule_A6(ctx) -> None:
    """receive ~ __anext__ agree except for the terminal actions"""
    mod = ctx.repo.mod(M_CHANNEL)

    def shape(fn):
        out = []
        for st in ast.walk(fn):
            pass
        g = []
        for n in ast.walk(fn):
            if isinstance(n, ast.AugAssign) and isinstance(n.target, ast.Attribute):
                g.append(("aug", n.target.attr, type(n.op).__name__, _ctx(fn, n)))
            elif isinstance(n, ast.Call) and isinstance(n.func, ast.Attribute) and n.func.attr in ("get", "task_done", "done", "put"):
                g.append(("call", n.func.attr, _ctx(fn, n)))
        return sorted(g)

    def _ctx(fn, node):
        # is the node inside try-body / finally / outside
        for t in ast.walk(fn):
            if isinstance(t, ast.Try):
                if any(node is x for b in t.body for x in ast.walk(b)):
                    return "try"
                if any(node is x for b in t.finalbody for x in ast.walk(b)):
                    return "finally"
                if any(node is x for b in t.orelse for x in ast.walk(b)):
                    return "else"
        return "top"

    if _delegates(mod.func(f"{CLS}.__anext__")) or _delegates(mod.func(f"{CLS}.receive")):
        ctx.proved("A6", "receive~__anext__", mod.loc(mod.func(f"{CLS}.__anext__")), "one delegates to the other: a single implementation of the bookkeeping")
        return
    a = shape(mod.func(f"{CLS}.receive"))
    b = shape(mod.func(f"{CLS}.__anext__"))
    if a == b:
        ctx.proved("A6", "receive~__anext__", mod.loc(mod.func(f"{CLS}.receive")), f"{len(a)} bookkeeping operations in the same protected regions")
    else:
        diff = sorted(set(map(str, a)) ^ set(map(str, b)))
        ctx.refuted("A6", "receive~__anext__", ";".join(diff), mod.loc(mod.func(f"{CLS}.__anext__")),
                    f"receive() and __anext__() do different bookkeeping: {diff}", "mix `async for` and receive() consumers on one channel")


def rule_A8(ctx) -> None:
    """done() depends on the closed flag, the queue size and the number of waiting receivers"""
    mod = ctx.repo.mod(M_CHANNEL)
    fn = mod.func(f"{CLS}.done")
    paths = Interp(mod).run(fn)
    ctx.count(len(paths))
    txt = " ".join(show(k) for p in paths for k in p.valuation) + " " + " ".join(show(p.value) for p in paths if p.value is not None)
    cs = channel_state(mod)
    closed_attrs = cs.attrs_in(cs.closed_expr) if cs.closed_expr is not None else {"_closed"}
    reads_closed = any(f"self.{a}" in txt for a in closed_attrs) or "self.closed()" in txt or "_closed" in txt
    need = {"closed flag": reads_closed, "queue size": ("qsize" in txt or "empty" in txt), "waiting receivers": "_waiting_receivers" in txt}
    missing = [k for k, v in need.items() if not v]
    if missing:
        ctx.refuted("A8", "done:dependencies", ",".join(missing), mod.loc(fn),
                    f"done() does not depend on {missing}: buffered entries already claimed by blocked receivers (or flush sentinels) must be discounted, "
                    "otherwise a late receiver takes an entry meant for a blocked one and that one is stranded",
                    "2 receivers blocked, close(), a 3rd receiver starts in the same tick")
    else:
        # monotone shape: closed and qsize <= waiting
        ok = False
        for p in paths:
            for k in list(p.valuation) + ([p.value] if p.value is not None else []):
                s = show(k)
                if "qsize" in s and "_waiting_receivers" in s and k[0] == "op" and k[1] in ("<", "not", "and"):
                    ok = True
        if ok:
            ctx.proved("A8", "done:dependencies", mod.loc(fn))
        else:
            ctx.inconclusive("A8", "done:dependencies", "done() reads the three state components but not as `qsize() <= waiting receivers`", mod.loc(fn))


def rule_A9(ctx) -> None:
    """every put into the (possibly bounded) queue is an awaited put; put_nowait can raise QueueFull"""
    mod = ctx.repo.mod(M_CHANNEL)
    n = 0
    bad = []
    for mname, fns0 in mod.methods(CLS).items():
        # the methods with their private helpers expanded in place: a put made through a helper is a put of every caller
        fns = [mod.func(f"{CLS}.{mname}", k_) for k_ in range(len(fns0))]
        for fn in fns:
            awaited = {id(x.value) for x in ast.walk(fn) if isinstance(x, ast.Await)}
            # local names bound to the queue itself
            qnames = {st.targets[0].id for st in ast.walk(fn) if isinstance(st, ast.Assign) and len(st.targets) == 1 and isinstance(st.targets[0], ast.Name)
                      and isinstance(st.value, ast.Attribute) and st.value.attr == "_queue"}
            # local names bound to the queue's put / put_nowait
            bound = {st.targets[0].id: st.value.attr for st in ast.walk(fn) if isinstance(st, ast.Assign) and len(st.targets) == 1 and isinstance(st.targets[0], ast.Name)
                     and isinstance(st.value, ast.Attribute) and st.value.attr in ("put", "put_nowait") and "_queue" in ast.unparse(st.value.value)}

            def is_queue(e: ast.AST) -> bool:
                return "_queue" in ast.unparse(e) or (isinstance(e, ast.Name) and e.id in qnames)

            # put_nowait is safe in the branch of a `full()` test that found room, as long as nothing suspends in between
            room: Set[int] = set()
            for iff in [x for x in ast.walk(fn) if isinstance(x, ast.If)]:
                t_ = iff.test
                neg = isinstance(t_, ast.UnaryOp) and isinstance(t_.op, ast.Not)
                core = t_.operand if neg else t_
                if isinstance(core, ast.Call) and isinstance(core.func, ast.Attribute) and core.func.attr == "full" and is_queue(core.func.value):
                    blk = iff.body if neg else iff.orelse
                    for st_ in blk:
                        if any(isinstance(x, ast.Await) for x in ast.walk(st_)):
                            break
                        room |= {id(x) for x in ast.walk(st_) if isinstance(x, ast.Call)}
            for c in ast.walk(fn):
                if isinstance(c, ast.Call) and isinstance(c.func, ast.Attribute) and c.func.attr == "put_nowait" and is_queue(c.func.value) and id(c) in room:
                    n += 1
                    continue
                if isinstance(c, ast.Call) and isinstance(c.func, ast.Name) and c.func.id in bound:
                    n += 1
                    if bound[c.func.id] == "put_nowait":
                        bad.append((mname, c, "put_nowait"))
                    elif id(c) not in awaited:
                        bad.append((mname, c, "put not awaited"))
                if isinstance(c, ast.Call) and isinstance(c.func, ast.Attribute) and is_queue(c.func.value):
                    if c.func.attr == "put_nowait":
                        bad.append((mname, c, "put_nowait"))
                        n += 1
                    elif c.func.attr == "put":
                        n += 1
                        if id(c) not in awaited:
                            bad.append((mname, c, "put not awaited"))
    ctx.floor("A9", "queue puts", n, 3)
    if bad:
        m, c, why = bad[0]
        conc = None
        if why == "put not awaited":
            fn_ = mod.func(f"{CLS}.{m}")
            for outer in ast.walk(fn_):
                if isinstance(outer, ast.Call) and outer is not c and ast.unparse(outer.func).split(".")[-1] in ("gather", "create_task", "ensure_future", "wait", "as_completed", "TaskGroup") \
                        and any(x is c for x in ast.walk(outer)):
                    conc = ast.unparse(outer.func)
        ctx.refuted("A9", "queue-puts-awaited", ",".join(sorted({f"{m}:{w}" for m, _, w in bad})), mod.loc(c),
                    (f"{m}() hands its puts to {conc}(...) instead of awaiting one after the other: on a bounded queue the items of one sender then wait as independent putters and "
                     "can be delivered out of the order they were sent in" if conc else
                     f"{m}() uses {why} on the channel's queue; with a buffer_limit the queue can be full and QueueFull (or a lost put) strands receivers"),
                    "buffer_limit=1, two receivers blocked, one item sent, close() in the same tick")
    else:
        ctx.proved("A9", "queue-puts-awaited", mod.rel, f"{n} puts, all awaited")


def _const_int(t) -> Optional[int]:
    """fold max/min/len-free integer terms of constants"""
    if t[0] == "c" and isinstance(t[1], int) and not isinstance(t[1], bool):
        return t[1]
    if t[0] == "call" and dotted(t[1]) in ("max", "min") and t[2]:
        xs = [_const_int(a) for a in t[2]]
        if all(x is not None for x in xs):
            return max(xs) if dotted(t[1]) == "max" else min(xs)
    if t[0] == "op" and t[1] in ("+", "-") and len(t) == 4:
        a, b = _const_int(t[2]), _const_int(t[3])
        if a is not None and b is not None:
            return a + b if t[1] == "+" else a - b
    return None


def rule_A10(ctx) -> None:
    """close(): the flush injects at least one sentinel for every receiver that no buffered item will wake up -
    _flush_queue evaluated on every small (waiting receivers, buffered items) state"""
    mod = ctx.repo.mod(M_CHANNEL)
    fn = mod.func("AsyncChannel._flush_queue")
    ctx.analysed("AsyncChannel._flush_queue")
    S = N("self")
    bad = None
    n = 0
    # the life-cycle states in which the flush has work to do: those in which its once-only guard lets it through (all states
    # of the class when the guard lives elsewhere)
    cs = channel_state(mod)
    og = cs.once_guards(fn)
    pre_states = [st_ for st_ in cs.states if all(cs.ev(n_.test, st_) is not None and bool(cs.ev(n_.test, st_)) == tk for n_, tk, _ in og)] if og else [
        st_ for st_ in (cs.closed_states() or cs.states)]
    if not pre_states:
        pre_states = [{}]
    for w, q, st_ in [(w_, q_, s_) for w_ in range(0, 4) for q_ in range(0, 3) for s_ in pre_states]:
        if True:
            counted = any(isinstance(c_, ast.Call) and ast.unparse(c_) == "len(self._waiting_receivers)" for c_ in ast.walk(fn))
            b = {(("call", N("len"), (A(S, "_waiting_receivers"),), ()) if counted else A(S, "_waiting_receivers")): w,
                 ("call", A(A(S, "_queue"), "qsize"), (), ()): q, ("call", A(A(S, "_queue"), "empty"), (), ()): q == 0,
                 ("call", A(A(S, "_queue"), "full"), (), ()): False}
            b.update({A(S, a_): v_ for a_, v_ in st_.items()})
            paths = Interp(mod, bindings=b, concrete_while=True).run(fn)
            ctx.count(len(paths))
            for p in paths:
                if p.outcome == "raise":
                    continue
                n += 1
                count = 0
                undecided = False
                loops = [e for e in p.events if e.kind == "loop" and not (isinstance(e.data, tuple) and e.data and e.data[0] == "while!")]
                puts = [e for e in p.events if e.kind == "call" and dotted(e.data[1]).endswith(("put", "put_nowait"))]
                for e in puts:
                    # straight-line puts and those of concretely executed while iterations count one each
                    if all(isinstance(l, tuple) and l and l[0] == "while!" for l in e.loops):
                        count += 1
                puts = [e for e in puts if not all(isinstance(l, tuple) and l and l[0] == "while!" for l in e.loops)]
                for lp in loops:
                    inner = [e for e in puts if e.loops]
                    if not inner:
                        continue
                    it = lp.data
                    k = _const_int(it[2][0]) if it[0] == "call" and dotted(it[1]) == "range" and len(it[2]) == 1 else None
                    if k is None and it[0] == "call" and dotted(it[1]).split(".")[-1] == "repeat" and len(it[2]) == 2:
                        k = _const_int(it[2][1])        # itertools.repeat(x, n) yields x max(0, n) times
                    if k is None:
                        undecided = True
                    else:
                        count += max(0, k)
                if p.valuation:
                    undecided = True
                need = max(0, w - q)
                if undecided:
                    bad = bad or ("undecided", w, q, None)
                elif count < need:
                    bad = ("short", w, q, count)
    if bad and bad[0] == "short":
        _, w, q, count = bad
        ctx.refuted("A10", "_flush_queue:sentinels-cover-stranded-receivers", f"w={w},q={q},sentinels={count}", mod.loc(fn),
                    f"with {w} blocked receivers and {q} buffered item(s) the flush injects {count} sentinel(s); {max(0, w - q)} receiver(s) will never be woken by an item and stay blocked "
                    "after close()", "three blocked receivers, send(x), close(), cancel the receiver x was handed to")
    elif bad:
        ctx.inconclusive("A10", "_flush_queue:sentinels-cover-stranded-receivers", f"sentinel count not decided for w={bad[1]}, q={bad[2]}", mod.loc(fn))
    else:
        ctx.proved("A10", "_flush_queue:sentinels-cover-stranded-receivers", mod.loc(fn), f"{n} (waiting, buffered) states")


def rule_G12(ctx, rule: str = "G12") -> None:
    """the request source is consumed with the loop its protocol needs: `async for` for everything that is an AsyncIterable
    (declared in MessageSource), `for` for the rest.  The branch is chosen by an isinstance test against the *widest* class the
    declaration names - a test against the narrower AsyncIterator / AsyncGenerator sends a re-iterable source (only __aiter__)
    into the synchronous loop, where it raises TypeError (or, in a background task, hangs the call)"""
    mod = ctx.repo.mod(M_CLIENT)
    fn = mod.func("ServiceStub._send_messages")
    ctx.analysed("ServiceStub._send_messages")
    src_param = fn.args.args[-1].arg
    ok_wide = {"AsyncIterable"}
    loops = [n for n in ast.walk(fn) if isinstance(n, ast.AsyncFor) and isinstance(n.iter, ast.Name) and n.iter.id == src_param]
    name = "_send_messages:async-sources-by-AsyncIterable"
    if not loops:
        ctx.inconclusive(rule, name, f"no `async for .. in {src_param}` loop", mod.loc(fn))
        return
    # every test in the function that asks whether the source is an asynchronous one (positively, to enter the async loop, or
    # negated, to wrap a synchronous source first): the class tested must be the widest one
    bad = None
    recognised = 0
    names = {src_param}
    for t in ast.walk(fn):
        if isinstance(t, ast.Call) and isinstance(t.func, ast.Name) and t.func.id == "isinstance" and len(t.args) == 2 and isinstance(t.args[0], ast.Name) and t.args[0].id in names:
            classes = [ast.unparse(c).split(".")[-1] for c in (t.args[1].elts if isinstance(t.args[1], ast.Tuple) else [t.args[1]])]
            if not any("Async" in c for c in classes):
                continue        # a test about the synchronous protocol
            recognised += 1
            if not set(classes) & ok_wide:
                bad = bad or (t, classes)
        elif isinstance(t, ast.Call) and isinstance(t.func, ast.Name) and t.func.id == "hasattr" and len(t.args) == 2 and isinstance(t.args[0], ast.Name) and t.args[0].id in names \
                and isinstance(t.args[1], ast.Constant) and str(t.args[1].value).startswith("__a"):
            recognised += 1
            if t.args[1].value != "__aiter__":
                bad = bad or (t, [str(t.args[1].value)])
    ctx.count(recognised)
    if bad:
        t, classes = bad
        ctx.refuted(rule, name, ",".join(classes), mod.loc(t), f"the asynchronous loop is taken only for `{ast.unparse(t)}`: {classes} is narrower than AsyncIterable, which MessageSource admits - an object "
                    "that defines __aiter__ but is not its own iterator (a re-iterable request source) falls into the synchronous `for` and the call fails with TypeError / never completes",
                    "class Outbox: __aiter__ returns a fresh async generator;  await stub.client_streaming_rpc(Outbox())")
    elif not recognised:
        ctx.inconclusive(rule, name, "the test that selects the asynchronous loop is not an isinstance / hasattr test on the source", mod.loc(fn))
    else:
        ctx.proved(rule, name, mod.loc(fn), f"{recognised} selecting tests, each against AsyncIterable / __aiter__")


def rule_G6(ctx, rule: str = "G6") -> None:
    """request termination in the client helpers"""
    mod = ctx.repo.mod(M_CLIENT)
    fn = mod.func("ServiceStub._send_messages")
    ctx.analysed("ServiceStub._send_messages", "ServiceStub._stream_unary", "ServiceStub._stream_stream", "ServiceStub._unary_unary", "ServiceStub._unary_stream")
    g = CFG(fn, implicit_exc=False)
    def _ends_stream(s_: ast.AST) -> bool:
        # await stream.end()  or  await stream.send_message(x, end=True): both half-close the request side
        if not _has_await(s_):
            return False
        if _calls(s_, ".end"):
            return True
        return any(isinstance(c, ast.Call) and isinstance(c.func, ast.Attribute) and c.func.attr == "send_message"
                   and any(k.arg == "end" and isinstance(k.value, ast.Constant) and k.value.value is True for k in c.keywords) for c in own_nodes(s_))

    ends = {nd.id for nd in _stmt_nodes(g, _ends_stream)}
    # every request is handed to the transport in the iteration that obtained it: a message held back until the iterator
    # yields the next one (look-ahead) is never delivered to a peer that answers before the caller produces more
    held = None
    n_loops = 0
    for lp in [n for n in ast.walk(fn) if isinstance(n, (ast.For, ast.AsyncFor))]:
        n_loops += 1
        tgt = {x.id for x in ast.walk(lp.target) if isinstance(x, ast.Name)}
        lg_nodes = [nd for nd in g.nodes_for(lp) if nd.kind == "loop"]
        sends_now = {nd.id for nd in g.nodes if nd.kind == "stmt" and nd.stmt is not None and any(
            isinstance(c, ast.Call) and isinstance(c.func, ast.Attribute) and c.func.attr == "send_message" and c.args and isinstance(c.args[0], ast.Name) and c.args[0].id in tgt
            for c in own_nodes(nd.stmt)) and any(nd.stmt is x for x in ast.walk(lp))}
        for h in lg_nodes:
            starts = [m_ for m_, lab in g.succ[h.id] if lab == "iter"]
            # can the loop head be reached again (next message requested) without having sent this one?
            if h.id in g.reachable(starts, avoid=sends_now, labels=normal_edge):
                held = held or lp
    if n_loops and held is None:
        ctx.proved(rule, "_send_messages:sent-when-obtained", mod.loc(fn), f"{n_loops} loops send their own message in every iteration")
    elif held is not None:
        ctx.refuted(rule, "_send_messages:sent-when-obtained", "held-back", mod.loc(held),
                    "a request taken from the iterator is not sent in the same iteration (it is kept until the iterator produces the next one or ends): in a conversational "
                    "bidirectional call, where the next request depends on the reply to this one, the request is never delivered and both sides wait", "ping-pong over a stream-stream RPC")
    else:
        ctx.inconclusive(rule, "_send_messages:sent-when-obtained", "no request loop found", mod.loc(fn))
    if ends and g.exit.id not in g.reachable([g.entry.id], avoid=ends, labels=normal_edge):
        ctx.proved(rule, "_send_messages:ends-stream", mod.loc(fn))
    else:
        ctx.refuted(rule, "_send_messages:ends-stream", "exit-without-end", mod.loc(fn), "_send_messages can return without `await stream.end()`: the server never sees end-of-stream",
                    "client-streaming call with an empty iterator")
    for q in ("ServiceStub._unary_unary", "ServiceStub._unary_stream"):
        f = mod.func(q)
        sends = [c for c in ast.walk(f) if isinstance(c, ast.Call) and isinstance(c.func, ast.Attribute) and c.func.attr == "send_message"]
        ok = bool(sends) and all(any(k.arg == "end" and isinstance(k.value, ast.Constant) and k.value.value is True for k in c.keywords) for c in sends)
        if ok:
            ctx.proved(rule, f"{q.split('.')[-1]}:send-with-end", mod.loc(f))
        else:
            ctx.refuted(rule, f"{q.split('.')[-1]}:send-with-end", "end-missing", mod.loc(f), "the single request is not sent with end=True")
    f = mod.func("ServiceStub._stream_unary")
    g = CFG(f, implicit_exc=False)
    sm = {nd.id for nd in _stmt_nodes(g, lambda s: _calls(s, "_send_messages") and _has_await(s))}
    rm = _stmt_nodes(g, lambda s: _calls(s, "recv_message"))
    dom = g.dominators(labels=normal_edge)
    if rm and all(dom[r.id] & sm for r in rm):
        ctx.proved(rule, "_stream_unary:send-before-recv", mod.loc(f))
    else:
        ctx.refuted(rule, "_stream_unary:send-before-recv", "order", mod.loc(f), "_stream_unary does not await _send_messages before recv_message")
    for q in ("ServiceStub._stream_unary", "ServiceStub._stream_stream"):
        f = mod.func(q)
        g = CFG(f, implicit_exc=False)
        sr = {nd.id for nd in _stmt_nodes(g, lambda s: _calls(s, ".send_request") and _has_await(s))}
        sm2 = _stmt_nodes(g, lambda s: _calls(s, "_send_messages"))
        dom = g.dominators(labels=normal_edge)
        if sm2 and sr and all(dom[x.id] & sr for x in sm2):
            ctx.proved(rule, f"{q.split('.')[-1]}:send_request-before-messages", mod.loc(f))
        else:
            ctx.refuted(rule, f"{q.split('.')[-1]}:send_request-before-messages", "missing", mod.loc(f),
                        f"{q.split('.')[-1]} does not `await stream.send_request()` before sending the request messages: with an empty request stream the request is never opened and stream.end() fails",
                        "call a client-streaming RPC with an empty iterator")
    f = mod.func("ServiceStub._stream_stream")
    g = CFG(f)
    loops = [nd for nd in g.nodes if nd.kind == "loop" and isinstance(nd.stmt, (ast.AsyncFor, ast.While))]
    cancels = {nd.id for nd in _stmt_nodes(g, lambda s: _calls(s, ".cancel"))}
    ok = bool(loops) and bool(cancels)
    # boolean flags of the function (only ever assigned True / False): tests on them are followed with their known value,
    # so that `finally: if not exhausted: task.cancel()` counts as cancelling on every exit but the normal one
    flag_vals: Dict[str, Set[bool]] = {}
    non_const: Set[str] = set()
    for n_ in ast.walk(f):
        if isinstance(n_, ast.Assign) and len(n_.targets) == 1 and isinstance(n_.targets[0], ast.Name):
            if isinstance(n_.value, ast.Constant) and isinstance(n_.value.value, bool):
                flag_vals.setdefault(n_.targets[0].id, set()).add(n_.value.value)
            else:
                non_const.add(n_.targets[0].id)
        elif isinstance(n_, (ast.AugAssign, ast.AnnAssign, ast.For, ast.AsyncFor, ast.With, ast.AsyncWith)):
            tgts = [n_.target] if hasattr(n_, "target") else [it.optional_vars for it in n_.items if it.optional_vars is not None]
            for tg in tgts:
                for x in ast.walk(tg):
                    if isinstance(x, ast.Name) and isinstance(x.ctx, ast.Store):
                        non_const.add(x.id)
    flags = set(flag_vals) - non_const

    def flag_test(test: ast.AST):
        neg = False
        while isinstance(test, ast.UnaryOp) and isinstance(test.op, ast.Not):
            neg, test = not neg, test.operand
        return (test.id, neg) if isinstance(test, ast.Name) and test.id in flags else None

    region: Set[int] = set()
    for lp in loops:
        region |= {nd.id for nd in g.nodes if nd.stmt is not None and any(nd.stmt is x for x in ast.walk(lp.stmt))} | {lp.id}
    # search over (node, flag state, left-the-response-loop-exceptionally, cancelled)
    start = (g.entry.id, frozenset(), False, False)
    seen = {start}
    work = [start]
    steps = 0
    while work and ok:
        nid, st, exc, cancelled = work.pop()
        steps += 1
        if steps > 200000:
            raise AnalysisError("G6: flag-aware search did not terminate")
        nd = g.nodes[nid]
        if nid == g.raise_exit.id and exc and not cancelled:
            ok = False
            break
        state = dict(st)
        for t, lab in g.succ[nid]:
            st2 = dict(state)
            if normal_edge(lab) and nd.kind == "stmt" and isinstance(nd.stmt, ast.Assign) and len(nd.stmt.targets) == 1 and isinstance(nd.stmt.targets[0], ast.Name) \
                    and nd.stmt.targets[0].id in flags:
                st2[nd.stmt.targets[0].id] = nd.stmt.value.value     # type: ignore[attr-defined]
            if nd.kind == "test" and isinstance(nd.stmt, ast.If) and lab in ("true", "false"):
                ft = flag_test(nd.stmt.test)
                if ft is not None and ft[0] in state:
                    val = state[ft[0]] != ft[1]
                    if (lab == "true") != val:
                        continue
            exc2 = exc or (not normal_edge(lab) and nid in region)
            c2 = cancelled or (t in cancels)
            key = (t, frozenset(st2.items()), exc2, c2)
            if key not in seen:
                seen.add(key)
                work.append(key)
    if not region:
        ok = False
    if ok:
        ctx.proved(rule, "_stream_stream:cancel-sender-on-error", mod.loc(f))
    else:
        ctx.refuted(rule, "_stream_stream:cancel-sender-on-error", "uncancelled", mod.loc(f),
                    "an exceptional exit of the response loop leaves the sending task running", "server fails mid-stream while the request channel is still open")


def rule_A13(ctx, rule: str = "A13") -> None:
    """a receiver's wait on the queue is its own: every `queue.get()` of the channel is the direct operand of `await` - handed to
    shield / ensure_future / create_task / gather / wait the getter becomes a task of its own that outlives a receiver that is
    cancelled or times out, and swallows the next item that is sent"""
    mod = ctx.repo.mod(M_CHANNEL)
    n = 0
    bad = None
    for mname, fns0 in mod.methods(CLS).items():
        for k_ in range(len(fns0)):
            fn = mod.func(f"{CLS}.{mname}", k_)
            awaited = {id(x.value) for x in ast.walk(fn) if isinstance(x, ast.Await)}
            qnames = {st.targets[0].id for st in ast.walk(fn) if isinstance(st, ast.Assign) and len(st.targets) == 1 and isinstance(st.targets[0], ast.Name)
                      and isinstance(st.value, ast.Attribute) and st.value.attr == "_queue"}
            for c in ast.walk(fn):
                if isinstance(c, ast.Call) and isinstance(c.func, ast.Attribute) and c.func.attr == "get" and not c.args and (
                        "_queue" in ast.unparse(c.func.value) or (isinstance(c.func.value, ast.Name) and c.func.value.id in qnames)):
                    n += 1
                    if id(c) not in awaited:
                        outer = next((ast.unparse(o.func) for o in ast.walk(fn) if isinstance(o, ast.Call) and o is not c and any(x is c for x in ast.walk(o))), None)
                        bad = bad or (mname, c, outer)
    ctx.count(n)
    ctx.floor(rule, "queue gets", n, 1)
    if bad:
        m, c, outer = bad
        ctx.refuted(rule, "queue-gets-awaited-directly", f"{m}:{outer}", mod.loc(c),
                    f"{m}() hands `{ast.unparse(c)}` to {outer or 'something other than await'}: the pending get then lives on as a task of its own when the receiver is cancelled or "
                    "times out, and takes the next item sent - which no receiver ever sees",
                    "r = create_task(ch.receive()); r.cancel(); await ch.send(1); await ch.receive()  # never returns 1")
    else:
        ctx.proved(rule, "queue-gets-awaited-directly", mod.rel, f"{n} gets, each awaited by the receiver itself")


def rule_A12(ctx) -> None:
    """a cancellation (or timeout) delivered to a method of the channel while it waits surfaces to the caller: every handler
    that can catch asyncio.CancelledError / TimeoutError (by name, through BaseException, or a bare except) raises on each of its
    paths - taking an item instead and returning it swallows the cancellation"""
    mod = ctx.repo.mod(M_CHANNEL)
    CATCHES = ("CancelledError", "TimeoutError", "BaseException")

    def always_raises(stmts: List[ast.stmt]) -> bool:
        for st in stmts:
            if isinstance(st, ast.Raise):
                return True
            if isinstance(st, ast.If) and st.orelse and always_raises(st.body) and always_raises(st.orelse):
                return True
            if isinstance(st, ast.Try) and st.finalbody and always_raises(st.finalbody):
                return True
            if isinstance(st, (ast.With, ast.AsyncWith)) and always_raises(st.body):
                return True
        return False

    n = 0
    for mname, fns0 in mod.methods(CLS).items():
        for k_ in range(len(fns0)):
            fn = mod.func(f"{CLS}.{mname}", k_)
            if not isinstance(fn, ast.AsyncFunctionDef):
                continue
            for tr in [x for x in ast.walk(fn) if isinstance(x, ast.Try)]:
                if not any(isinstance(x, (ast.Await, ast.AsyncFor, ast.AsyncWith)) for b in tr.body for x in ast.walk(b)):
                    continue
                for h in tr.handlers:
                    txt = ast.unparse(h.type) if h.type is not None else ""
                    if h.type is not None and not any(c in txt for c in CATCHES):
                        continue
                    n += 1
                    name = f"{mname}:cancellation-surfaces[{txt or 'bare except'}]"
                    if always_raises(h.body):
                        ctx.proved("A12", name, mod.loc(h), "every path of the handler raises")
                    else:
                        ctx.refuted("A12", name, "swallowed", mod.loc(h),
                                    f"{mname}() catches {txt or 'everything'} around its wait and can leave the handler without raising: a receiver that was cancelled (or timed out) while an "
                                    "item was in flight returns normally, the cancellation / timeout never reaches its caller", "cancel a blocked receiver in the tick in which a send completes")
    if n == 0:
        ctx.proved("A12", "cancellation-surfaces", mod.rel, "no handler around a wait can catch a cancellation")


def run(ctx) -> None:
    for name, fn in (("A12", rule_A12), ("A13", rule_A13), ("A1", rule_A1), ("A2", rule_A2), ("A3", rule_A3), ("A4", rule_A4), ("A5", rule_A5), ("A6", rule_A6),
                     ("A8", rule_A8), ("A9", rule_A9), ("A10", rule_A10), ("A11", rule_A11), ("G6", lambda c: rule_G6(c, "A7"))):
        ctx.rules_run.append(name)
        fn(ctx)
    ctx.assume("asyncio is single-threaded: code between two awaits is atomic")
    ctx.assume("every statement that touches an attribute or calls may raise; every await may be cancelled")
