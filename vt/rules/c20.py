"""C20 - enums are open, canonical and immutable (H1-H5 + T2)."""
from __future__ import annotations

import ast
from typing import List, Set

from ..absint import Interp
from ..cfg import CFG, normal_edge
from ..fieldloop import FIELD_NAME, META, VALUE, interp_for, type_binding, val_text
from ..src import AnalysisError, M_ENUM, M_INIT
from ..sym import A, C, N, dotted, from_ast, show, simplify, walk
from . import codec

PROP = "C20"
TECHNIQUE = "no-normal-exit and identity checks on CFGs; E2 summaries of try_value and of the enum branches of to_dict/_from_dict_init; interval domain for negative numbers"
EXPLANATION = (
    "Static enum discipline: the mutation hooks of the enum metaclass and of members are shown to have no normal exit; copy hooks "
    "return self on every path; try_value's only raising lookup sits in a try whose handler covers KeyError and builds an unnamed "
    "member; every site where a number arrives (decode, defaults, JSON emit) goes through the open constructor and not through the "
    "closed lookup EnumCls(value); pickling arguments match __new__; aliases are detected by an identity test on the value map (not by "
    "truthiness of an int-valued member); the varint decoder for enum fields can produce negative numbers and only int32-range values."
)
RULE_TEXT = "obligation = (rule, method / site); evaluations = abstract paths + CFG queries; non-trivial = distinct sites"


def rule_H1(ctx) -> None:
    mod = ctx.repo.mod(M_ENUM)
    for q in ("EnumType.__setattr__", "EnumType.__delattr__", "Enum.__setattr__", "Enum.__delattr__"):
        if not mod.has(q):
            ctx.refuted("H1", f"{q}:never-returns", "absent", mod.rel, f"{q} is not defined: enum classes / members can be mutated", "E.X = 5 / del E.X / E.X.value = 3")
            continue
        fn = mod.func(q)
        ctx.analysed(q)
        g = CFG(fn, implicit_exc=False)
        if g.exit.id in g.reachable([g.entry.id], labels=normal_edge):
            ctx.refuted("H1", f"{q}:never-returns", "normal-exit", mod.loc(fn), f"{q} can return normally, i.e. the mutation is silently accepted or ignored")
        else:
            ctx.proved("H1", f"{q}:never-returns", mod.loc(fn))
    # members' attributes are written only inside __new__
    new = mod.func("Enum.__new__")
    src = ast.unparse(new)
    if "super().__setattr__(self, 'name'" in src and "super().__setattr__(self, 'value'" in src:
        ctx.proved("H1", "Enum.__new__:sets-name-and-value", mod.loc(new))
    else:
        ctx.inconclusive("H1", "Enum.__new__:sets-name-and-value", "member construction does not set name and value through super().__setattr__", mod.loc(new))


def rule_H2(ctx) -> None:
    mod = ctx.repo.mod(M_ENUM)
    for q in ("Enum.__copy__", "Enum.__deepcopy__"):
        fn = mod.func(q)
        paths = Interp(mod).run(fn)
        ctx.count(len(paths))
        if all(p.outcome == "return" and p.value == N(fn.args.args[0].arg) for p in paths):
            ctx.proved("H2", f"{q}:identity", mod.loc(fn))
        else:
            ctx.refuted("H2", f"{q}:identity", "not-self", mod.loc(fn), f"{q} does not return self on every path: members lose their identity under copy", "copy.deepcopy(E.X) is E.X")


def rule_H3(ctx) -> None:
    mod = ctx.repo.mod(M_ENUM)
    fn = mod.func("Enum.try_value")
    ctx.analysed("Enum.try_value")
    paths = Interp(mod).run(fn)
    ctx.count(len(paths))
    raises = [p for p in paths if p.outcome == "raise"]
    handler_ok = False
    for p in paths:
        if any(k[0] == "raises" and v and "KeyError" in k[1] for k, v in p.valuation.items()):
            v = p.value
            if p.outcome == "return" and v is not None and v[0] == "call" and dict(v[3]).get("name") == C(None) and dict(v[3]).get("value") == N(fn.args.args[1].arg):
                handler_ok = True
    lookups_outside_try = []
    for n in ast.walk(fn):
        if isinstance(n, ast.Subscript) and "_value_map_" in ast.unparse(n.value):
            inside = any(isinstance(t, ast.Try) and any(n is x for b in t.body for x in ast.walk(b)) and any(
                h.type is None or "KeyError" in ast.unparse(h.type) or ast.unparse(h.type) in ("Exception", "LookupError") for h in t.handlers) for t in ast.walk(fn))
            if not inside:
                lookups_outside_try.append(n)
    if raises:
        ctx.refuted("H3", "try_value:total", "raises", mod.loc(fn), "try_value has a raising path: undefined numbers are rejected where a member is expected", "E.try_value(7)")
    elif lookups_outside_try:
        ctx.refuted("H3", "try_value:total", "unguarded-lookup", mod.loc(lookups_outside_try[0]), "the value-map lookup is not protected by `except KeyError`", "E.try_value(7)")
    elif not handler_ok and not any(".get(" in ast.unparse(n) for n in ast.walk(fn) if isinstance(n, ast.Call)):
        ctx.refuted("H3", "try_value:total", "no-open-member", mod.loc(fn), "the KeyError handler does not build a member with name=None and the given value", "E.try_value(7).value == 7")
    else:
        ctx.proved("H3", "try_value:total", mod.loc(fn))
    # sites where numbers arrive
    init = ctx.repo.mod(M_INIT)
    m = codec.model(ctx)
    dec = [d for d in m.dec[("enum", 0)] if d[1] != "raise"]
    if dec and all(d[1] == "enum" for d in dec):
        ctx.proved("H3", "decode:uses-try_value", init.loc(init.func("Message._postprocess_single")))
    else:
        ctx.refuted("H3", "decode:uses-try_value", ",".join(sorted({d[1] for d in dec})), init.loc(init.func("Message._postprocess_single")),
                    "enum numbers from the wire are not converted with the open constructor try_value", "M().parse(b'\\x08\\x07') for an enum without member 7")
    dg = init.func("Message._get_field_default_gen")
    paths = Interp(init).run(dg)
    en = [p for p in paths if any("issubclass" in show(k) and v for k, v in p.valuation.items())]
    if en and all(p.value is not None and show(p.value).endswith(".try_value") for p in en):
        ctx.proved("H3", "default:uses-try_value", init.loc(dg))
    else:
        ctx.refuted("H3", "default:uses-try_value", "closed", init.loc(dg), "the default of an enum field is not produced by try_value (an enum without a zero member would fail)")
    # JSON emit: no closed lookup EnumCls(value)
    td = init.func("Message.to_dict")
    ctx.analysed("Message.to_dict")
    closed = []
    paths = interp_for(init, bindings=type_binding("enum")).run(td)
    ctx.count(len(paths))
    for p in paths:
        for e in p.events:
            if e.kind != "call" or e.depth:
                continue
            f = e.data[1]
            txt = show(f)
            # callee is the enum class itself: field_types[field_name] or ....__args__[0]
            if ("_type_hints()" in txt or "field_types" in txt) and (f[0] == "sub") and len(e.data[2]) == 1:
                closed.append(e)
    if closed:
        e = closed[0]
        ctx.refuted("H3", "to_dict:open-enum", "closed-lookup", f"{init.rel}:{e.line}",
                    f"to_dict converts enum values with the closed constructor {show(e.data)}; a number the enum does not define raises ValueError instead of being kept",
                    "M(e=E.try_value(7)).to_dict()")
    else:
        ctx.proved("H3", "to_dict:open-enum", init.loc(td))


def rule_H4(ctx) -> None:
    mod = ctx.repo.mod(M_ENUM)
    new = mod.func("Enum.__new__")
    for red in ("Enum.__reduce_ex__", "Enum.__reduce__"):
        if mod.has(red):
            fn = mod.func(red)
            rets = [n.value for n in ast.walk(fn) if isinstance(n, ast.Return) and n.value is not None]
            closed = [r for r in rets if isinstance(r, ast.Tuple) and r.elts and ast.unparse(r.elts[0]) in ("self.__class__", "type(self)")]
            if closed:
                ctx.refuted("H4", "pickle-args-match-__new__", "closed-constructor", mod.loc(fn),
                            f"{red} rebuilds the member with {ast.unparse(closed[0])}: calling the enum class is the *closed* lookup (EnumType.__call__), so a value the enum does not define "
                            "(legal everywhere else) cannot be unpickled", "pickle.loads(pickle.dumps(E.try_value(5)))")
            else:
                ctx.inconclusive("H4", "pickle-args-match-__new__", f"custom {red} not understood", mod.loc(fn))
            return
    if not mod.has("Enum.__getnewargs_ex__"):
        ctx.inconclusive("H4", "pickle-args-match-__new__", "neither __getnewargs_ex__ nor a __reduce__ hook found", mod.loc(new))
        return
    ga = mod.func("Enum.__getnewargs_ex__")
    kwonly = {a.arg for a in new.args.kwonlyargs}
    keys: Set[str] = set()
    pos = None
    for n in ast.walk(ga):
        if isinstance(n, ast.Return) and isinstance(n.value, ast.Tuple) and len(n.value.elts) == 2 and isinstance(n.value.elts[1], ast.Dict):
            keys = {k.value for k in n.value.elts[1].keys if isinstance(k, ast.Constant)}
            pos = n.value.elts[0]
            vals = {k.value: ast.unparse(v) for k, v in zip(n.value.elts[1].keys, n.value.elts[1].values) if isinstance(k, ast.Constant)}
    if keys == kwonly and all(vals.get(k) == f"self.{k}" for k in keys) and pos is not None and ast.unparse(pos) == "()":
        ctx.proved("H4", "pickle-args-match-__new__", mod.loc(ga))
    else:
        ctx.refuted("H4", "pickle-args-match-__new__", f"{sorted(keys)}!={sorted(kwonly)}", mod.loc(ga),
                    f"__getnewargs_ex__ passes {sorted(keys)}, Enum.__new__ takes keyword-only {sorted(kwonly)}", "pickle.loads(pickle.dumps(E.X))")


def rule_H5(ctx) -> None:
    mod = ctx.repo.mod(M_ENUM)
    fn = mod.func("EnumType.__new__")
    ctx.analysed("EnumType.__new__")
    # the member loop: member = value_map.get(value); if member is None: create; member_map[name] = member
    tests = []
    for n in ast.walk(fn):
        if isinstance(n, ast.If):
            body_txt = " ".join(ast.unparse(b) for b in n.body)
            if "__new__" in body_txt and ("value_map" in body_txt or "value_map" in ast.unparse(n.test) or "member" in ast.unparse(n.test)):
                tests.append(n)
    if not tests:
        ctx.inconclusive("H5", "EnumType.__new__:alias-canonical", "member creation guard not recognised", mod.loc(fn))
        return
    t = simplify(from_ast(tests[0].test))
    ok_shape = (t[0] == "op" and t[1] == "is" and t[3] == C(None)) or (t[0] == "op" and t[1] == "not" and t[2][0] == "op" and t[2][1] == "in")
    truthiness = t[0] in ("n", "a") or (t[0] == "op" and t[1] == "not" and t[2][0] in ("n", "a", "call"))
    if truthiness:
        ctx.refuted("H5", "EnumType.__new__:alias-canonical", "truthiness-test", mod.loc(tests[0]),
                    f"whether a member already exists for a number is decided by truthiness ({ast.unparse(tests[0].test)}); members are ints, so the member for 0 is falsy and an alias of 0 creates a second member object",
                    "class E(Enum): ZERO = 0; NIL = 0  ->  E(0) is E.ZERO fails")
    elif ok_shape:
        ctx.proved("H5", "EnumType.__new__:alias-canonical", mod.loc(tests[0]), ast.unparse(tests[0].test))
    else:
        ctx.inconclusive("H5", "EnumType.__new__:alias-canonical", f"guard `{ast.unparse(tests[0].test)}` is neither an identity nor a membership test", mod.loc(tests[0]))
    src = ast.unparse(fn)
    if "member_map[name] = member" in src and "value_map[value] = member" in src:
        ctx.proved("H5", "EnumType.__new__:maps-updated", mod.loc(fn))
    else:
        ctx.inconclusive("H5", "EnumType.__new__:maps-updated", "value_map / member_map updates not in the recognised form", mod.loc(fn))
    # value_map[value] = member only inside the creation branch (first declaration wins)
    inside = any("value_map[value] = member" in ast.unparse(b) for b in tests[0].body)
    if inside:
        ctx.proved("H5", "EnumType.__new__:first-declaration-wins", mod.loc(tests[0]))
    else:
        ctx.refuted("H5", "EnumType.__new__:first-declaration-wins", "overwritten", mod.loc(fn), "the value map entry is (re)assigned outside the creation branch: a later alias replaces the canonical member")


def rule_H6(ctx) -> None:
    """every declared value becomes a member: the member filter of EnumType.__new__ leaves out descriptors and dunder names
    only. Names with a single leading underscore are ordinary members - the plugin generates them (`_2D`, `_1`) whenever a
    value name does not start like an identifier"""
    mod = ctx.repo.mod(M_ENUM)
    fn = mod.func("EnumType.__new__")
    ctx.analysed("EnumType.__new__")
    prefixes = []
    for c in ast.walk(fn):
        if isinstance(c, ast.Call) and isinstance(c.func, ast.Attribute) and c.func.attr == "startswith" and c.args and isinstance(c.args[0], (ast.Constant, ast.Tuple)):
            vals = [c.args[0].value] if isinstance(c.args[0], ast.Constant) else [e.value for e in c.args[0].elts if isinstance(e, ast.Constant)]
            prefixes += [v for v in vals if isinstance(v, str)]
        if isinstance(c, ast.Compare) and isinstance(c.left, ast.Subscript):
            for x in c.comparators:
                if isinstance(x, ast.Constant) and isinstance(x.value, str) and x.value and set(x.value) == {"_"}:
                    prefixes.append(x.value)
    sunder = any(isinstance(c, ast.Call) and ast.unparse(c.func) in ("_is_sunder", "_is_private") for c in ast.walk(fn))
    bad = [p_ for p_ in prefixes if p_ and set(p_) == {"_"} and len(p_) < 2]
    if bad or sunder:
        ctx.refuted("H6", "EnumType.__new__:member-filter", "single-underscore-excluded", mod.loc(fn),
                    "names starting with a single underscore are not collected as members: the generated member `_2D` (DIMENSION_2D of enum Dimension) stays a plain int class attribute, "
                    "is missing from the value and name tables, and lookup by number / by name / from_string fails for it", "enum Dimension { DIMENSION_2D = 2; }")
    elif "__" in prefixes:
        ctx.proved("H6", "EnumType.__new__:member-filter", mod.loc(fn), "dunder names and descriptors only")
    else:
        ctx.inconclusive("H6", "EnumType.__new__:member-filter", f"member filter not recognised (prefix tests: {prefixes})", mod.loc(fn))


def run(ctx) -> None:
    for name, fn in (("H1", rule_H1), ("H2", rule_H2), ("H3", rule_H3), ("H4", rule_H4), ("H5", rule_H5), ("H6", rule_H6), ("T2", codec.rule_T2), ("T2b", codec.rule_T2b)):
        ctx.rules_run.append(name)
        fn(ctx)
