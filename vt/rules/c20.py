"""C20 - enums are open, canonical and immutable (H1-H5 + T2)."""
from __future__ import annotations

import ast
from typing import List, Set

from ..absint import Interp
from ..cfg import CFG, normal_edge
from ..fieldloop import FIELD_NAME, META, VALUE, interp_for, type_binding, val_text
from ..src import AnalysisError, M_ENUM, M_INIT
from ..sym import A, C, N, dotted, from_ast, show, simplify, walk
from . import codec

PROP = "C20"
TECHNIQUE = "no-normal-exit and identity checks on CFGs; E2 summaries of try_value and of the enum branches of to_dict/_from_dict_init; interval domain for negative numbers"
EXPLANATION = (
    "Static enum discipline: the mutation hooks of the enum metaclass and of members are shown to have no normal exit; copy hooks "
    "return self on every path; try_value's only raising lookup sits in a try whose handler covers KeyError and builds an unnamed "
    "member; every site where a number arrives (decode, defaults, JSON emit) goes through the open constructor and not through the "
    "closed lookup EnumCls(value); pickling arguments match __new__; aliases are detected by an identity test on the value map (not by "
    "truthiness of an int-valued member); the varint decoder for enum fields can produce negative numbers and only int32-range values."
)
RULE_TEXT = "obligation = (rule, method / site); evaluations = abstract paths + CFG queries; non-trivial = distinct sites"


def _factory_made_hook(mod, q: str):
    """`NAME = F(..)` / `A, NAME = F(..)` in the class body with F a function of the module whose only return hands out
    nested defs: the nested def that ends up under NAME (None when the binding is not of that form)"""
    cname, name = q.split(".")
    try:
        cls = mod.cls(cname)
    except AnalysisError:
        return None
    for st in cls.body:
        if not (isinstance(st, ast.Assign) and len(st.targets) == 1 and isinstance(st.value, ast.Call) and isinstance(st.value.func, ast.Name) and mod.has(st.value.func.id)):
            continue
        t = st.targets[0]
        names = [e.id if isinstance(e, ast.Name) else None for e in t.elts] if isinstance(t, ast.Tuple) else [t.id] if isinstance(t, ast.Name) else []
        if name not in names:
            continue
        fac = [x for x in mod.get_all(st.value.func.id) if isinstance(x, ast.FunctionDef)]
        if len(fac) != 1:
            return None
        rets = [r.value for r in ast.walk(fac[0]) if isinstance(r, ast.Return) and r.value is not None and not any(
            r in list(ast.walk(d)) for d in fac[0].body if isinstance(d, ast.FunctionDef))]
        if len(rets) != 1:
            return None
        r = rets[0]
        elts = r.elts if isinstance(r, ast.Tuple) else [r]
        if len(elts) != len(names) or not isinstance(elts[names.index(name)], ast.Name):
            return None
        inner = [d for d in fac[0].body if isinstance(d, ast.FunctionDef) and d.name == elts[names.index(name)].id]
        stores = [n for n in ast.walk(fac[0]) if isinstance(n, ast.Name) and n.id == elts[names.index(name)].id and isinstance(n.ctx, ast.Store)]
        return inner[0] if len(inner) == 1 and not stores else None
    return None


def rule_H1(ctx) -> None:
    mod = ctx.repo.mod(M_ENUM)
    for q in ("EnumType.__setattr__", "EnumType.__delattr__", "Enum.__setattr__", "Enum.__delattr__"):
        made = _factory_made_hook(mod, q) if not mod.has(q) else None
        if made is not None:
            ctx.analysed(q)
            g = CFG(made, implicit_exc=False)
            if g.exit.id in g.reachable([g.entry.id], labels=normal_edge):
                ctx.refuted("H1", f"{q}:never-returns", "normal-exit", mod.loc(made), f"{q} (made by a factory) can return normally, i.e. the mutation is silently accepted or ignored")
            else:
                ctx.proved("H1", f"{q}:never-returns", mod.loc(made), "made by a factory")
            continue
        if not mod.has(q):
            ctx.refuted("H1", f"{q}:never-returns", "absent", mod.rel, f"{q} is not defined: enum classes / members can be mutated", "E.X = 5 / del E.X / E.X.value = 3")
            continue
        fn = mod.func(q)
        ctx.analysed(q)
        g = CFG(fn, implicit_exc=False)
        if g.exit.id in g.reachable([g.entry.id], labels=normal_edge):
            ctx.refuted("H1", f"{q}:never-returns", "normal-exit", mod.loc(fn), f"{q} can return normally, i.e. the mutation is silently accepted or ignored")
        else:
            ctx.proved("H1", f"{q}:never-returns", mod.loc(fn))
    # members' attributes are written only inside __new__
    new = mod.func("Enum.__new__")
    src = ast.unparse(new)
    if "super().__setattr__(self, 'name'" in src and "super().__setattr__(self, 'value'" in src:
        ctx.proved("H1", "Enum.__new__:sets-name-and-value", mod.loc(new))
    else:
        ctx.inconclusive("H1", "Enum.__new__:sets-name-and-value", "member construction does not set name and value through super().__setattr__", mod.loc(new))


def rule_H2(ctx) -> None:
    mod = ctx.repo.mod(M_ENUM)
    for q in ("Enum.__copy__", "Enum.__deepcopy__"):
        if not mod.has(q):
            # the copy module does not fall back from one hook to the other: without the hook it rebuilds the object through
            # __reduce_ex__ / __new__, which yields an equal but distinct instance
            other = "Enum.__copy__" if q.endswith("__deepcopy__") else "Enum.__deepcopy__"
            ctx.refuted("H2", f"{q}:identity", "hook-missing", mod.rel, f"Enum defines no {q.split('.')[-1]}" + (f" (only {other.split('.')[-1]})" if mod.has(other) else "") +
                        f": copy.{'deepcopy' if q.endswith('__deepcopy__') else 'copy'}(member) - and the deep copy of any message or container holding a member - builds a new object through "
                        "__reduce_ex__ instead of returning the member, so the copy is equal to the canonical member but not identical with it",
                        "copy.deepcopy(Colour.RED) is Colour.RED")
            continue
        fn = mod.func(q)
        paths = Interp(mod).run(fn)
        ctx.count(len(paths))
        if all(p.outcome == "return" and p.value == N(fn.args.args[0].arg) for p in paths):
            ctx.proved("H2", f"{q}:identity", mod.loc(fn))
        else:
            ctx.refuted("H2", f"{q}:identity", "not-self", mod.loc(fn), f"{q} does not return self on every path: members lose their identity under copy", "copy.deepcopy(E.X) is E.X")


def rule_H3(ctx) -> None:
    mod = ctx.repo.mod(M_ENUM)
    fn = mod.func("Enum.try_value")
    ctx.analysed("Enum.try_value")
    paths = Interp(mod).run(fn)
    ctx.count(len(paths))
    vparam = N(fn.args.args[1].arg)
    raises = [p for p in paths if p.outcome == "raise"]
    unguarded = None
    miss_ok = hit_ok = False
    miss_bad = None
    for p in paths:
        if p.outcome != "return" or p.value is None:
            continue
        keyerr = [v for k, v in p.valuation.items() if k[0] == "raises" and "KeyError" in k[1]]
        none_atoms = [(k, v) for k, v in p.valuation.items() if k[0] == "op" and k[1] == "is" and k[3] == C(None) and "_value_map_" in show(k[2])]
        subs = [t for t in walk(p.value) if t[0] == "sub" and "_value_map_" in show(t[1])]
        if subs and not keyerr:
            unguarded = show(subs[0])
        missed = (any(keyerr)) or any(v for _, v in none_atoms)
        hit = (keyerr and not any(keyerr)) or any(not v for _, v in none_atoms)
        v = p.value
        if missed:
            if v[0] == "call" and dict(v[3]).get("name") == C(None) and dict(v[3]).get("value") == vparam:
                miss_ok = True
            else:
                miss_bad = show(v)
        elif hit and "_value_map_" in show(v):
            hit_ok = True
    if raises:
        ctx.refuted("H3", "try_value:total", "raises", mod.loc(fn), "try_value has a raising path: undefined numbers are rejected where a member is expected", "E.try_value(7)")
    elif unguarded:
        ctx.refuted("H3", "try_value:total", "unguarded-lookup", mod.loc(fn), f"the value-map lookup {unguarded} is not protected by `except KeyError`", "E.try_value(7)")
    elif miss_bad or not miss_ok:
        ctx.refuted("H3", "try_value:total", "no-open-member", mod.loc(fn), f"for a number without a member try_value does not build a member with name=None and the given value ({miss_bad})", "E.try_value(7).value == 7")
    elif not hit_ok:
        ctx.inconclusive("H3", "try_value:total", "no path returning the member found in the value map", mod.loc(fn))
    else:
        ctx.proved("H3", "try_value:total", mod.loc(fn))
    # sites where numbers arrive
    init = ctx.repo.mod(M_INIT)
    m = codec.model(ctx)
    dec = [d for d in m.dec[("enum", 0)] if d[1] != "raise"]
    if dec and all(d[1] == "enum" for d in dec):
        ctx.proved("H3", "decode:uses-try_value", init.loc(init.func("Message._postprocess_single")))
    else:
        ctx.refuted("H3", "decode:uses-try_value", ",".join(sorted({d[1] for d in dec})), init.loc(init.func("Message._postprocess_single")),
                    "enum numbers from the wire are not converted with the open constructor try_value", "M().parse(b'\\x08\\x07') for an enum without member 7")
    dg = init.func("Message._get_field_default_gen")
    paths = Interp(init, fork_ifexp=True).run(dg)
    en = [p for p in paths if any("issubclass" in show(k) and v for k, v in p.valuation.items())]
    if en and all(p.value is not None and show(p.value).endswith(".try_value") for p in en):
        ctx.proved("H3", "default:uses-try_value", init.loc(dg))
    else:
        ctx.refuted("H3", "default:uses-try_value", "closed", init.loc(dg), "the default of an enum field is not produced by try_value (an enum without a zero member would fail)")
    # JSON emit: no closed lookup EnumCls(value)
    td = init.func("Message.to_dict")
    ctx.analysed("Message.to_dict")
    closed = []
    paths = interp_for(init, bindings=type_binding("enum")).run(td)
    ctx.count(len(paths))
    for p in paths:
        for e in p.events:
            if e.kind != "call" or e.depth:
                continue
            f = e.data[1]
            txt = show(f)
            # callee is the enum class itself: field_types[field_name] or ....__args__[0]
            if ("_type_hints()" in txt or "field_types" in txt) and (f[0] == "sub") and len(e.data[2]) == 1:
                closed.append(e)
    if closed:
        e = closed[0]
        ctx.refuted("H3", "to_dict:open-enum", "closed-lookup", f"{init.rel}:{e.line}",
                    f"to_dict converts enum values with the closed constructor {show(e.data)}; a number the enum does not define raises ValueError instead of being kept",
                    "M(e=E.try_value(7)).to_dict()")
    else:
        ctx.proved("H3", "to_dict:open-enum", init.loc(td))


def rule_H4(ctx) -> None:
    mod = ctx.repo.mod(M_ENUM)
    new = mod.func("Enum.__new__")
    # pickle protocols 0 and 1 use neither __getnewargs_ex__ nor Enum.__new__: copyreg._reconstructor makes the object with
    # int.__new__ and restores what __getstate__ hands out - by default the instance dict, which holds name and value.  A
    # __getstate__ of the enum's own has to hand out both as well.
    if mod.has("Enum.__getstate__"):
        gs = mod.func("Enum.__getstate__")
        ctx.analysed("Enum.__getstate__")
        rets = [n.value for n in ast.walk(gs) if isinstance(n, ast.Return)]
        def carries(r) -> bool:
            if r is None:
                return False
            t = ast.unparse(r)
            if t in ("self.__dict__", "vars(self)", "dict(self.__dict__)", "self.__dict__.copy()", "dict(vars(self))"):
                return True
            if isinstance(r, ast.Dict):
                return {"name", "value"} <= {k.value for k in r.keys if isinstance(k, ast.Constant)}
            if isinstance(r, ast.Tuple) and len(r.elts) == 2:
                return carries(r.elts[0]) or carries(r.elts[1])
            return False
        if rets and all(carries(r) for r in rets):
            ctx.proved("H4", "pickle-state-carries-name-and-value", mod.loc(gs))
        elif not rets or any(r is None or (isinstance(r, ast.Constant) and r.value is None) or (isinstance(r, ast.Dict) and not r.keys) for r in rets):
            ctx.refuted("H4", "pickle-state-carries-name-and-value", "state-dropped", mod.loc(gs),
                        "Enum.__getstate__ hands out no state: pickle protocols 0 and 1 rebuild a member with int.__new__ (copyreg._reconstructor) and restore only that state, so the "
                        "unpickled member has neither name nor value", "pickle.loads(pickle.dumps(E.X, 0)).name")
        else:
            ctx.inconclusive("H4", "pickle-state-carries-name-and-value", f"state {ast.unparse(rets[0])} not understood", mod.loc(gs))
    for red in ("Enum.__reduce_ex__", "Enum.__reduce__"):
        if mod.has(red):
            fn = mod.func(red)
            rets = [n.value for n in ast.walk(fn) if isinstance(n, ast.Return) and n.value is not None]
            closed = [r for r in rets if isinstance(r, ast.Tuple) and r.elts and ast.unparse(r.elts[0]) in ("self.__class__", "type(self)")]
            if closed:
                ctx.refuted("H4", "pickle-args-match-__new__", "closed-constructor", mod.loc(fn),
                            f"{red} rebuilds the member with {ast.unparse(closed[0])}: calling the enum class is the *closed* lookup (EnumType.__call__), so a value the enum does not define "
                            "(legal everywhere else) cannot be unpickled", "pickle.loads(pickle.dumps(E.try_value(5)))")
            else:
                ctx.inconclusive("H4", "pickle-args-match-__new__", f"custom {red} not understood", mod.loc(fn))
            return
    if not mod.has("Enum.__getnewargs_ex__"):
        ctx.inconclusive("H4", "pickle-args-match-__new__", "neither __getnewargs_ex__ nor a __reduce__ hook found", mod.loc(new))
        return
    ga = mod.func("Enum.__getnewargs_ex__")
    kwonly = {a.arg for a in new.args.kwonlyargs}
    keys: Set[str] = set()
    pos = None
    for n in ast.walk(ga):
        if isinstance(n, ast.Return) and isinstance(n.value, ast.Tuple) and len(n.value.elts) == 2 and isinstance(n.value.elts[1], ast.Dict):
            keys = {k.value for k in n.value.elts[1].keys if isinstance(k, ast.Constant)}
            pos = n.value.elts[0]
            vals = {k.value: ast.unparse(v) for k, v in zip(n.value.elts[1].keys, n.value.elts[1].values) if isinstance(k, ast.Constant)}
    if keys == kwonly and all(vals.get(k) == f"self.{k}" for k in keys) and pos is not None and ast.unparse(pos) == "()":
        ctx.proved("H4", "pickle-args-match-__new__", mod.loc(ga))
    else:
        ctx.refuted("H4", "pickle-args-match-__new__", f"{sorted(keys)}!={sorted(kwonly)}", mod.loc(ga),
                    f"__getnewargs_ex__ passes {sorted(keys)}, Enum.__new__ takes keyword-only {sorted(kwonly)}", "pickle.loads(pickle.dumps(E.X))")


def rule_H5(ctx) -> None:
    """aliases: in the member loop of EnumType.__new__ a member object is created only when the number has none yet (decided
    by identity / membership, not truthiness - members are ints and the member for 0 is falsy), the number -> member table
    is written only then (first declaration wins), and the name -> member table always receives the canonical member"""
    from ..absint import Interp
    from ..sym import N, walk, show
    mod = ctx.repo.mod(M_ENUM)
    fn = mod.func("EnumType.__new__")
    ctx.analysed("EnumType.__new__")
    NAME, NUM = N("$name"), N("$number")

    def roles(it, depth):
        if it[0] == "call" and it[1][0] == "a" and it[1][2] == "items" and depth == 0:
            return [NAME, NUM]
        return None

    paths = Interp(mod, named_containers=True, loop_roles=roles).run(fn)
    ctx.count(len(paths))
    # which local is the number -> member table: the one published as _value_map_
    vm = mm = None
    for p in paths:
        for e in p.events:
            if e.kind == "call" and isinstance(e.data, tuple):
                for t in walk(e.data):
                    if t[0] == "dictd":
                        for k, v in t[1]:
                            if k == C("_value_map_"):
                                vm = v
                            if k == C("_member_map_"):
                                mm = v
    name = "EnumType.__new__:alias-canonical"
    if vm is None or mm is None or vm[0] != "n" or mm[0] != "n":
        ctx.inconclusive("H5", name, "the tables published as _value_map_ / _member_map_ are not plain locals", mod.loc(fn))
        return
    lookups = (("call", ("a", vm, "get"), (NUM,), ()), ("sub", vm, NUM))
    n_create = n_alias = 0
    problems = []
    for p in paths:
        if p.outcome == "raise":
            continue
        creates = [e for e in p.events if e.kind == "call" and e.loops and e.data[1][0] == "a" and e.data[1][2] == "__new__" and
                   (("value", NUM) in e.data[3] or NUM in e.data[2])]
        vm_stores = [e for e in p.events if e.kind == "store" and e.loops and e.data[0] == ("sub", vm, NUM)]
        mm_stores = [e for e in p.events if e.kind == "store" and e.loops and e.data[0] == ("sub", mm, NAME)]
        absent = present = truthy = None
        for k, v in p.valuation.items():
            if k[0] == "op" and k[1] == "is" and k[2] in lookups and k[3] == C(None):
                absent, present = v, not v
            elif k[0] == "op" and k[1] == "in" and k[2] == NUM and k[3] == vm:
                absent, present = not v, v
            elif k in lookups:
                truthy = v
        if truthy is not None and absent is None:
            problems.append(("truthiness-test", f"whether a member already exists for a number is decided by the truthiness of {show(lookups[0])}; members are ints, so the member for 0 is "
                             "falsy and an alias of 0 creates a second member object", "class E(Enum): ZERO = 0; NIL = 0  ->  E(0) is E.ZERO fails"))
            continue
        if creates:
            n_create += 1
            if absent is not True:
                problems.append(("unguarded-creation", "a member object is created on a path that has not established that the number has no member yet", "class E(Enum): A = 1; B = 1"))
            if not vm_stores or vm_stores[-1].data[1] != creates[-1].data:
                problems.append(("value-map-not-updated", "a newly created member is not recorded in the number -> member table", "E(1)"))
            if not mm_stores or mm_stores[-1].data[1] != creates[-1].data:
                problems.append(("member-map-not-updated", "a newly created member is not recorded under its name", "E['A']"))
        else:
            n_alias += 1
            if present is not True:
                problems.append(("alias-without-member", "no member is created on a path that has not established that the number already has one", "class E(Enum): A = 1"))
            if vm_stores:
                problems.append(("overwritten", "the number -> member entry is (re)assigned for an alias: a later alias replaces the canonical member", "class E(Enum): A = 1; B = 1; E(1) is E.A"))
            if not mm_stores or mm_stores[-1].data[1] not in lookups:
                problems.append(("alias-not-canonical", "an alias name is not bound to the member already registered for its number", "class E(Enum): A = 1; B = 1; E.B is E.A"))
    if any(w == "truthiness-test" for w, _, _ in problems):
        w, why, needs = next(x for x in problems if x[0] == "truthiness-test")
        ctx.refuted("H5", name, w, mod.loc(fn), why, needs)
    elif not n_create or not n_alias:
        ctx.inconclusive("H5", name, f"member loop not recognised ({n_create} creating, {n_alias} aliasing paths)", mod.loc(fn))
    elif problems:
        w, why, needs = problems[0]
        ctx.refuted("H5", name, w, mod.loc(fn), why, needs)
    else:
        ctx.proved("H5", name, mod.loc(fn), f"{n_create} creating and {n_alias} aliasing paths")


def rule_H6(ctx) -> None:
    """every declared value becomes a member: the member filter of EnumType.__new__ leaves out descriptors and dunder names
    only. Names with a single leading underscore are ordinary members - the plugin generates them (`_2D`, `_1`) whenever a
    value name does not start like an identifier"""
    mod = ctx.repo.mod(M_ENUM)
    fn = mod.func("EnumType.__new__")
    ctx.analysed("EnumType.__new__")
    prefixes = []
    for c in ast.walk(fn):
        if isinstance(c, ast.Call) and isinstance(c.func, ast.Attribute) and c.func.attr == "startswith" and c.args and isinstance(c.args[0], (ast.Constant, ast.Tuple)):
            vals = [c.args[0].value] if isinstance(c.args[0], ast.Constant) else [e.value for e in c.args[0].elts if isinstance(e, ast.Constant)]
            prefixes += [v for v in vals if isinstance(v, str)]
        if isinstance(c, ast.Compare) and isinstance(c.left, ast.Subscript):
            for x in c.comparators:
                if isinstance(x, ast.Constant) and isinstance(x.value, str) and x.value and set(x.value) == {"_"}:
                    prefixes.append(x.value)
    sunder = any(isinstance(c, ast.Call) and ast.unparse(c.func) in ("_is_sunder", "_is_private") for c in ast.walk(fn))
    bad = [p_ for p_ in prefixes if p_ and set(p_) == {"_"} and len(p_) < 2]
    if bad or sunder:
        ctx.refuted("H6", "EnumType.__new__:member-filter", "single-underscore-excluded", mod.loc(fn),
                    "names starting with a single underscore are not collected as members: the generated member `_2D` (DIMENSION_2D of enum Dimension) stays a plain int class attribute, "
                    "is missing from the value and name tables, and lookup by number / by name / from_string fails for it", "enum Dimension { DIMENSION_2D = 2; }")
    elif "__" in prefixes:
        ctx.proved("H6", "EnumType.__new__:member-filter", mod.loc(fn), "dunder names and descriptors only")
    else:
        ctx.inconclusive("H6", "EnumType.__new__:member-filter", f"member filter not recognised (prefix tests: {prefixes})", mod.loc(fn))


def rule_H7(ctx) -> None:
    """lookup by number hands out the canonical member: whatever EnumType.__call__ returns was taken out of the
    number -> member table (or a lookup raises) - never the argument itself, which may be a different object with the same number
    (an unpickled member)"""
    from ..absint import Interp
    mod = ctx.repo.mod(M_ENUM)
    fn = mod.func("EnumType.__call__")
    ctx.analysed("EnumType.__call__")
    params = [a.arg for a in fn.args.args]
    cls_p, val_p = N(params[0]), N(params[1])
    paths = Interp(mod, fork_ifexp=True).run(fn)
    ctx.count(len(paths))
    bad = None
    n = 0
    for p in paths:
        if p.outcome != "return" or p.value is None:
            continue
        n += 1
        v = p.value
        from_table = any(t[0] in ("sub", "call") and "_value_map_" in show(t) for t in walk(v))
        if not from_table:
            bad = bad or (show(v), {show(k): val for k, val in p.valuation.items()})
    name = "EnumType.__call__:returns-canonical-member"
    if not n:
        ctx.inconclusive("H7", name, "no returning path", mod.loc(fn))
    elif bad:
        ctx.refuted("H7", name, f"returns {bad[0]}", mod.loc(fn),
                    f"on the path {bad[1]} the lookup returns {bad[0]} instead of the entry of _value_map_: an instance that is not the canonical member (e.g. one recreated by pickle) "
                    "is handed back as it is, so lookup by number no longer yields the one member object", "E(pickle.loads(pickle.dumps(E.A))) is E.A")
    else:
        ctx.proved("H7", name, mod.loc(fn), f"{n} returning paths, all out of _value_map_")


def rule_H9(ctx) -> None:
    """the number -> member and name -> member tables of an enum class are written while the class is built and never again:
    a lookup (try_value, __call__, from_string, decoding) that stores into them changes the set of members of the class -
    a placeholder for an undefined number would become a 'member', found by iteration and by later lookups"""
    mod = ctx.repo.mod(M_ENUM)
    writers = []
    for q, fn in mod.functions():
        for n in ast.walk(fn):
            tgts = n.targets if isinstance(n, ast.Assign) else [n.target] if isinstance(n, (ast.AugAssign, ast.AnnAssign)) else []
            for t in tgts:
                for x in (t.elts if isinstance(t, (ast.Tuple, ast.List)) else [t]):
                    if isinstance(x, ast.Subscript) and isinstance(x.value, ast.Attribute) and x.value.attr in ("_value_map_", "_member_map_"):
                        writers.append((q, n, x.value.attr))
            if isinstance(n, ast.Call) and isinstance(n.func, ast.Attribute) and n.func.attr in ("setdefault", "update", "pop", "clear", "__setitem__") \
                    and isinstance(n.func.value, ast.Attribute) and n.func.value.attr in ("_value_map_", "_member_map_"):
                writers.append((q, n, n.func.value.attr))
    rogue = [(q, n, a) for q, n, a in writers if q != "EnumType.__new__"]
    if rogue:
        q, n, a = rogue[0]
        ctx.refuted("H9", "enum-tables:written-at-class-creation-only", f"{q}:{a}", mod.loc(n),
                    f"{q} stores into {a} of the enum class: a lookup changes the class (the placeholder of an undefined number becomes a member that iteration, len() and later "
                    "lookups by number return)", "E.try_value(7); list(E) / E(7)")
    else:
        ctx.proved("H9", "enum-tables:written-at-class-creation-only", mod.rel, f"{len(writers)} stores through attributes, all in EnumType.__new__ (which fills its local tables)")


def rule_H10(ctx) -> None:
    """the lookup tables of an enum class do not leave the class as they are: whatever a method or property of the enum
    machinery returns is a member, a value, or a read-only / copied view (MappingProxyType, tuple, list, dict(...)) - the table
    object itself is a writable handle on the set of members (H9 closes the stores made inside the module, this the ones that
    could be made through what is handed out)"""
    from ..absint import Interp
    mod = ctx.repo.mod(M_ENUM)
    TABLES = ("_member_map_", "_value_map_", "_member_names_")
    n = 0
    leak = None
    for q, fn in mod.functions():
        if not q.startswith(("EnumType.", "Enum.")) or q in ("EnumType.__new__", "EnumType.__prepare__"):
            continue
        paths = Interp(mod).run(fn)
        ctx.count(len(paths))
        for p in paths:
            if p.outcome != "return" or p.value is None:
                continue
            n += 1
            v = p.value
            if v[0] == "a" and v[2] in TABLES:
                leak = leak or (q, fn, v)
    if leak:
        q, fn, v = leak
        ctx.refuted("H10", "enum-tables:not-handed-out", f"{q}:{show(v)}", mod.loc(fn),
                    f"{q} returns {show(v)}, the class's own table: whoever receives it can add, remove or replace members ({q.split('.')[-1]}[name] = x, .pop, .clear), after which "
                    "lookup by name, iteration and len() of the enum change", "E.__members__['X'] = E(1); E['X']")
    else:
        ctx.proved("H10", "enum-tables:not-handed-out", mod.rel, f"{n} returning paths, none returns a table itself")


def rule_H8(ctx) -> None:
    """enums are open on the JSON side as well: a number read from a dict / JSON is kept as it is or turned into a member
    with the open lookup (try_value); the closed lookup `EnumClass(number)` raises for numbers the schema does not list -
    in every position (singular, repeated, map value)"""
    from ..absint import Interp
    from .jsonrules import meta_aliases, fname_aliases
    mod = ctx.repo.mod(M_INIT)
    fn = mod.func("Message._from_dict_init")
    ctx.analysed("Message._from_dict_init")
    value = N("$jvalue")

    def roles(it, depth):
        if it[0] == "call" and it[1][0] == "a" and it[1][2] == "items" and depth == 0:
            return [N("$key"), value]
        return None

    al = {**meta_aliases(), **fname_aliases()}
    shapes = {
        "singular": ({A(META, "proto_type"): "enum", A(META, "map_types"): None}, {("call", N("isinstance"), (value, N("list")), ()): False}),
        "repeated": ({A(META, "proto_type"): "enum", A(META, "map_types"): None}, {("call", N("isinstance"), (value, N("list")), ()): True}),
        "map-value": ({A(META, "proto_type"): "map", A(META, "map_types"): ("string", "enum")}, {}),
    }
    for shape, (b, extra) in shapes.items():
        assume = {("op", "is", value, C(None)): False, ("op", "is", META, C(None)): False, **extra}
        paths = Interp(mod, bindings=b, aliases=al, loop_roles=roles, assume=assume, fork_ifexp=True).run(fn)
        ctx.count(len(paths))
        closed = None
        n = 0
        for p in paths:
            if p.outcome == "raise":
                continue
            n += 1
            for e in p.events:
                if e.kind != "call":
                    continue
                f = e.data[1]
                # a direct call of the class looked up in cls_by_field: EnumClass(v)
                if f[0] == "sub" and f[1][0] == "a" and f[1][2] == "cls_by_field" and e.data[2]:
                    closed = closed or (show(e.data), e.line)
        name = f"_from_dict_init:open-enum-lookup[{shape}]"
        if not n:
            ctx.inconclusive("H8", name, "no path", mod.loc(fn))
        elif closed:
            ctx.refuted("H8", name, closed[0][:80], f"{mod.rel}:{closed[1]}",
                        f"an enum number read from a dict / JSON ({shape}) goes through the closed lookup {closed[0][:80]}: numbers the schema does not define raise ValueError, although "
                        "proto3 enums are open and the binary side accepts them", "M.from_dict({'levels': {'a': 7}}) for map<string, Level> with no member 7")
        else:
            ctx.proved("H8", name, mod.loc(fn), f"{n} paths, no closed lookup")


def run(ctx) -> None:
    for name, fn in (("H9", rule_H9), ("H10", rule_H10), ("H8", rule_H8), ("H7", rule_H7), ("H1", rule_H1), ("H2", rule_H2), ("H3", rule_H3), ("H4", rule_H4), ("H5", rule_H5), ("H6", rule_H6), ("T2", codec.rule_T2), ("T2b", codec.rule_T2b)):
        ctx.rules_run.append(name)
        fn(ctx)
    from . import jsonrules
    ctx.rules_run.append("J8")
    jsonrules.rule_J8(ctx)      # a number without a member keeps its number in the dict / JSON form (the name of such a value is None)
    ctx.rules_run.append("J9")
    jsonrules.rule_J9(ctx)
