"""C15 - Timestamp/Duration conversion (Q1-Q3, K3)."""
from __future__ import annotations

import ast
from typing import Any, Dict, List, Optional, Tuple

from ..absint import Interp
from ..numeric import INF, interval
from ..src import AnalysisError, M_INIT
from ..sym import A, C, N, Sym, contains, dotted, show, walk
from . import jsonrules

PROP = "C15"
TECHNIQUE = "division-convention domain (floor/trunc tags) and float-taint with interval ranges over the E2 return terms of the converters"
EXPLANATION = (
    "Static check of the (seconds, nanos) constructors: the return term of each converter is extracted by the abstract interpreter and "
    "its two components are tagged in a division-convention domain (quotient/remainder of the same operands under the floor or the "
    "truncation convention); Timestamp needs the floor pair (nanos in [0, 1e9)), Duration a same-sign pair. A float-taint analysis with "
    "integer ranges (a declared range table for datetime/timedelta attributes) shows whether an integer that can exceed 2**53 passes "
    "through float arithmetic on its way into seconds/nanos. The JSON emitters are checked for repr-formatting of floats. Exactness "
    "for every instant is not decided."
)
RULE_TEXT = "obligation = (rule, converter); evaluations = abstract paths + terms analysed; non-trivial = distinct converters/components"

TWO53 = 2 ** 53
# declared ranges (documentation of datetime / protobuf): attribute -> interval
ATTR_RANGE = {"days": (-999999999, 999999999), "seconds": (0, 86399), "microseconds": (0, 999999), "microsecond": (0, 999999),
              "nanos": (-999999999, 999999999)}
TOTAL_US = (-(10 ** 9) * 86400 * 10 ** 6, 10 ** 9 * 86400 * 10 ** 6)   # timedelta // timedelta(microseconds=1)


def _tag(s: Sym) -> Optional[Tuple[str, str, Sym, Sym, Any]]:
    """(kind q|r, convention floor|trunc|floor-float, x, d, scale)"""
    if s[0] == "call" and dotted(s[1]) == "int" and len(s[2]) == 1:
        inner = s[2][0]
        if inner[0] == "op" and inner[1] == "/" and len(inner) == 4:
            return ("q", "trunc", inner[2], inner[3], 1)
        t = _tag(inner)
        return t
    if s[0] == "call" and dotted(s[1]) in ("math.trunc",) and len(s[2]) == 1 and s[2][0][0] == "op" and s[2][0][1] == "/":
        return ("q", "trunc", s[2][0][2], s[2][0][3], 1)
    if s[0] == "call" and dotted(s[1]) in ("math.floor",) and len(s[2]) == 1:
        inner = s[2][0]
        if inner[0] == "op" and inner[1] == "/":
            return ("q", "floor", inner[2], inner[3], 1)
        return ("q", "floor", inner, C(1), 1)
    if s[0] == "call" and dotted(s[1]) in ("math.fmod",) and len(s[2]) == 2:
        return ("r", "trunc", s[2][0], s[2][1], 1)
    if s[0] == "op" and s[1] == "//" and len(s) == 4:
        return ("q", "floor", s[2], s[3], 1)
    if s[0] == "op" and s[1] == "%" and len(s) == 4:
        return ("r", "floor", s[2], s[3], 1)
    if s[0] == "item" and s[1][0] == "call" and dotted(s[1][1]) == "divmod" and len(s[1][2]) == 2:
        return ("q" if s[2] == 0 else "r", "floor", s[1][2][0], s[1][2][1], 1)
    fb_ = _floor_base(s)
    if fb_ is not None and fb_[1][0] == "op" and fb_[1][1] == "//" and fb_[1][3] == N("_1_microsecond"):
        # X.days * 86400 + X.seconds / X.microseconds: floor quotient / remainder of the microsecond total
        return (fb_[0], "floor", fb_[1], fb_[2], 1)
    if s[0] == "op" and s[1] == "*" and len(s) == 4:
        for a, b in ((s[2], s[3]), (s[3], s[2])):
            if b[0] == "c" and isinstance(b[1], (int, float)):
                t = _tag(a)
                if t is not None:
                    return (t[0], t[1], t[2], t[3], t[4] * b[1])
    if s[0] == "op" and s[1] == "neg":
        t = _tag(s[2])
        if t is not None:
            return (t[0], t[1] + "-neg", t[2], t[3], t[4])
    return None


def _same_num(a: Sym, b: Sym) -> bool:
    def val(x):
        return float(x[1]) if x[0] == "c" and isinstance(x[1], (int, float)) else None
    return a == b or (val(a) is not None and val(a) == val(b))


def _ctor_args(ret: Sym) -> Optional[Tuple[Sym, Sym]]:
    if ret[0] == "call" and len(ret[2]) == 1 and ret[2][0][0] == "star" and not ret[3]:
        inner = ret[2][0][1]
        if inner[0] == "tuple" and len(inner[1]) == 2:
            return inner[1][0], inner[1][1]
    if ret[0] == "call" and len(ret[2]) == 2 and not ret[3]:
        return ret[2][0], ret[2][1]
    if ret[0] == "call":
        kw = dict(ret[3])
        if "seconds" in kw and "nanos" in kw:
            return kw["seconds"], kw["nanos"]
    return None


def _floor_base(t: Sym):
    """('q'|'r', numerator, divisor) for x // d, x % d, divmod(x, d)[i] with a positive constant d"""
    if t[0] == "item" and t[1][0] == "call" and dotted(t[1][1]) == "divmod" and len(t[1][2]) == 2 and t[2] in (0, 1):
        x, d = t[1][2]
        return ("q" if t[2] == 0 else "r", x, d)
    if t[0] == "op" and t[1] in ("//", "%") and len(t) == 4:
        return ("q" if t[1] == "//" else "r", t[2], t[3])
    # the normalised fields of a timedelta X (0 <= seconds < 86400, 0 <= microseconds < 10**6, days carries the sign):
    # X.days * 86400 + X.seconds and X.microseconds are floor quotient and remainder of its microsecond total by 10**6
    if t[0] == "a" and t[2] == "microseconds":
        return ("r", ("op", "//", t[1], N("_1_microsecond")), C(10 ** 6))
    if t[0] == "op" and t[1] == "+" and len(t) == 4:
        for x, y in ((t[2], t[3]), (t[3], t[2])):
            if y[0] == "a" and y[2] == "seconds" and x[0] == "op" and x[1] == "*" and len(x) == 4:
                for u, w in ((x[2], x[3]), (x[3], x[2])):
                    if u == ("a", y[1], "days") and w == C(86400):
                        return ("q", ("op", "//", y[1], N("_1_microsecond")), C(10 ** 6))
    return None


def _lin_in_base(t: Sym):
    """t as a * base + c with integer constants -> (a, c, base) for base a floor quotient / remainder"""
    b = _floor_base(t)
    if b is not None and b[2][0] == "c" and isinstance(b[2][1], int) and b[2][1] > 0:
        return (1, 0, b)
    if t[0] == "op" and t[1] == "neg":
        r = _lin_in_base(t[2])
        return None if r is None else (-r[0], -r[1], r[2])
    if t[0] == "op" and t[1] in ("+", "-", "*") and len(t) == 4:
        x, y = t[2], t[3]
        cx = x[1] if x[0] == "c" and isinstance(x[1], int) and not isinstance(x[1], bool) else None
        cy = y[1] if y[0] == "c" and isinstance(y[1], int) and not isinstance(y[1], bool) else None
        if t[1] == "*":
            if cy is not None:
                r = _lin_in_base(x)
                return None if r is None else (r[0] * cy, r[1] * cy, r[2])
            if cx is not None:
                r = _lin_in_base(y)
                return None if r is None else (r[0] * cx, r[1] * cx, r[2])
            return None
        if cy is not None:
            r = _lin_in_base(x)
            return None if r is None else (r[0], r[1] + (cy if t[1] == "+" else -cy), r[2])
        if cx is not None:
            r = _lin_in_base(y)
            if r is None:
                return None
            return (r[0], r[1] + cx, r[2]) if t[1] == "+" else (-r[0], cx - r[1], r[2])
    return None


def _norm_td(t):
    """1 * x -> x, -1 * x -> -x, and (q * 10**6 + r) with q / r the floor quotient / remainder of a timedelta's microsecond total
    by 10**6 (read off its normalised fields) -> that total, written X // _1_microsecond"""
    if not isinstance(t, tuple) or not t:
        return t
    if t[0] in ("c", "n"):
        return t
    t = tuple(_norm_td(x) if isinstance(x, tuple) else x for x in t)
    if t[0] == "op" and t[1] == "*" and len(t) == 4:
        for a, b in ((t[2], t[3]), (t[3], t[2])):
            if a == C(1):
                return b
            if a == C(-1):
                return ("op", "neg", b)
    if t[0] == "op" and t[1] == "//" and len(t) == 4 and t[3] == N("_1_microsecond") and t[2][0] == "call" and dotted(t[2][1]) == "abs" and len(t[2][2]) == 1 and not t[2][3]:
        # a timedelta is a whole number of microseconds: abs(X) // 1us is abs(X // 1us)
        return ("call", N("abs"), (("op", "//", t[2][2][0], t[3]),), ())
    if t[0] == "op" and t[1] == "<" and len(t) == 4 and t[3] == C(0) and t[2][0] == "a" and t[2][2] == "days":
        # the normalised form of a timedelta has days < 0 exactly when it is negative
        return ("op", "<", ("op", "//", t[2][1], N("_1_microsecond")), C(0))
    if t[0] == "op" and t[1] == "<" and len(t) == 4 and t[3][0] == "call" and dotted(t[3][1]) in ("timedelta", "datetime.timedelta") and (not t[3][2] or t[3][2] == (C(0),)) and not t[3][3]:
        return ("op", "<", ("op", "//", t[2], N("_1_microsecond")), C(0))
    if t[0] == "op" and t[1] == "+" and len(t) == 4:
        for a, b in ((t[2], t[3]), (t[3], t[2])):
            fr = _floor_base(b)
            if fr is not None and fr[0] == "r" and fr[2][0] == "c" and a[0] == "op" and a[1] == "*" and len(a) == 4:
                for u, w in ((a[2], a[3]), (a[3], a[2])):
                    fq = _floor_base(u)
                    if w == fr[2] and fq is not None and fq[0] == "q" and fq[1] == fr[1] and fq[2] == fr[2] and fr[1][0] == "op" and fr[1][1] == "//" and fr[1][3] == N("_1_microsecond"):
                        return fr[1]
    return t


def _same_sign_by_ranges(sec: Sym, nan: Sym, val) -> Optional[Tuple[str, str]]:
    """Duration parts built from a floor quotient q and remainder r of one division (possibly adjusted: q + 1, r - D, negated):
    on this path, do they add up to the value, can they have opposite signs, does |nanos| stay below one second?
    None when the parts are not of that form (the convention tagging decides then)."""
    ls, ln = _lin_in_base(sec), _lin_in_base(nan)
    if ls is None or ln is None:
        return None
    (aq, cq, bq), (ar, cr, br) = ls, ln
    if bq[0] != "q" or br[0] != "r" or bq[1] != br[1] or bq[2] != br[2]:
        return None
    num, D = bq[1], bq[2][1]
    if aq in (1, -1) and ar != 0 and (ar > 0) != (aq > 0) and num[0] == "call" and dotted(num[1]) == "abs" and len(num[2]) == 1:
        # quotient and remainder of a magnitude are both non-negative: scaled with opposite signs they have opposite signs
        return ("bad", f"on the path {val_text_(val)} seconds = {show(sec)} and nanos = {show(nan)} are the quotient and the remainder of a magnitude scaled with opposite signs: "
                       "for a negative Duration with a fraction the parts have opposite signs and do not add up to the value (-1.5 s becomes -1 s +5e8 ns = -0.5 s)")
    if aq not in (1, -1) or ar == 0 or (ar // aq) <= 0 or ar % aq:
        return ("inc", f"seconds = {show(sec)}, nanos = {show(nan)}: scaling not recognised")
    K = ar // aq
    # the value: seconds * D * K + nanos == aq * (q * D + r) * K + (cq * D * K + cr)
    if cq * D * K + cr != 0:
        return ("bad", f"seconds = {show(sec)} and nanos = {show(nan)} do not add up to the value (off by {cq * D * K + cr} nanos)")
    is_abs = num[0] == "call" and dotted(num[1]) == "abs" and len(num[2]) == 1
    x = num[2][0] if is_abs else num
    if not is_abs and num[0] == "op" and num[1] == "neg" and val.get(("op", "<", num[2], C(0))) is True:
        # -x on a path that found x negative is abs(x)
        is_abs, x = True, num[2]
    neg = val.get(("op", "<", x, C(0)))
    if neg is None and val.get(("op", "<", C(-1), x)) is not None:
        neg = not val[("op", "<", C(-1), x)]
    if neg is None and not is_abs:
        # the floor quotient by a positive divisor is negative exactly when the numerator is
        for k_, v_ in val.items():
            if k_[0] == "op" and k_[1] == "<" and len(k_) == 4 and k_[3] == C(0) and _floor_base(k_[2]) == ("q", num, C(D)):
                neg = bool(v_)
            if k_[0] == "op" and k_[1] == ">=" and len(k_) == 4 and k_[3] == C(0) and _floor_base(k_[2]) == ("q", num, C(D)):
                neg = not v_
    BIG = 10 ** 30
    if is_abs:
        if neg is None:
            return ("inc", "split on abs(x) but the path does not decide the sign of x")
        if aq != (-1 if neg else 1):
            return ("bad", f"the parts of abs(x) are {'not ' if neg else ''}negated on the path where x is {'negative' if neg else 'non-negative'}: the value changes sign")
        qr = (0, BIG)
    else:
        if aq != 1:
            return ("bad", "the quotient of x itself is negated: the value changes sign")
        qr = (-BIG, -1) if neg is True else (0, BIG) if neg is False else (-BIG, BIG)
    rr = (0, D - 1)
    r_term = ("item", ("call", N("divmod"), (num, C(D)), ()), 1)
    for k_, v_ in val.items():
        if k_ in (r_term, ("op", "%", num, C(D))) or _floor_base(k_) == ("r", num, C(D)):
            rr = (1, D - 1) if v_ else (0, 0)
        if k_[0] == "op" and k_[1] == "==" and len(k_) == 4 and k_[2] in (r_term, ("op", "%", num, C(D))) and k_[3] == C(0):
            rr = (0, 0) if v_ else (1, D - 1)
    s_rng = sorted((aq * qr[0] + cq, aq * qr[1] + cq))
    n_rng = sorted((ar * rr[0] + cr, ar * rr[1] + cr))
    if max(abs(n_rng[0]), abs(n_rng[1])) >= D * K:
        return ("bad", f"nanos = {show(nan)} reaches {n_rng[0] if abs(n_rng[0]) >= D * K else n_rng[1]} on the path {val_text_(val)} (the remainder can be 0 there): |nanos| must stay below {D * K}, "
                       f"and the pair differs from the reference's (seconds, 0)")
    if (s_rng[1] > 0 and n_rng[0] < 0) or (s_rng[0] < 0 and n_rng[1] > 0):
        return ("bad", f"on the path {val_text_(val)} seconds = {show(sec)} ranges over [{'-inf' if s_rng[0] < -10**29 else s_rng[0]}, {'inf' if s_rng[1] > 10**29 else s_rng[1]}] and nanos over "
                       f"[{n_rng[0]}, {n_rng[1]}]: for a negative Duration with a fraction the parts have opposite signs (seconds=-2, nanos=+5e8 for -1.5 s)")
    return ("ok", "quotient / remainder adjusted so that the parts add up, never have opposite signs, |nanos| < 1 s")


def val_text_(val) -> str:
    return "{" + ", ".join(f"{show(k)}={'T' if v else 'F'}" for k, v in val.items()) + "}"


def rule_Q1(ctx) -> None:
    mod = ctx.repo.mod(M_INIT)
    for q, need in (("_Timestamp.from_datetime", "floor"), ("_Duration.from_timedelta", "same-sign")):
        fn = mod.func(q)
        ctx.analysed(q)
        # small module-level helpers that do the split are part of the converter: inline them
        inl = {}
        for c in ast.walk(fn):
            if isinstance(c, ast.Call) and isinstance(c.func, ast.Name) and c.func.id.startswith("_") and mod.has(c.func.id):
                h = mod.func(c.func.id)
                if len(h.body) <= 10 and not any(isinstance(n, (ast.For, ast.While)) for n in ast.walk(h)):
                    inl[c.func.id] = (mod, h)
        paths = Interp(mod, inline=inl, fork_ifexp=True).run(fn)
        ctx.count(len(paths))
        name = f"{q.split('.')[-1]}:division-convention"
        verdicts = []
        for p in paths:
            if p.outcome != "return" or p.value is None:
                continue
            args = _ctor_args(p.value)
            if args is None:
                verdicts.append(("inc", f"return value {show(p.value)} is not cls(seconds, nanos)"))
                continue
            args = (_norm_td(args[0]), _norm_td(args[1]))
            if need == "same-sign":
                v = _same_sign_by_ranges(args[0], args[1], {_norm_td(k_): v_ for k_, v_ in p.valuation.items()})
                if v is not None:
                    verdicts.append(v)
                    continue
            ts, tn = _tag(args[0]), _tag(args[1])
            if ts is None or tn is None:
                # explicit normalisation branches (reference style) are accepted when both signs are tested
                if any("<" in show(k) for k in p.valuation) and ts is None and tn is None:
                    verdicts.append(("inc", "components are normalised by explicit branches (not analysed)"))
                else:
                    verdicts.append(("inc", f"seconds={show(args[0])}, nanos={show(args[1])} not recognised as a quotient/remainder pair"))
                continue
            if ts[0] != "q" or tn[0] != "r" or not (ts[2] == tn[2]) or not _same_num(ts[3], tn[3]):
                verdicts.append(("inc", f"seconds/nanos are not quotient and remainder of the same operands: {show(args[0])} / {show(args[1])}"))
                continue
            magnitude = ts[2][0] == "call" and dotted(ts[2][1]) == "abs"
            if need == "floor":
                if ts[1] == "floor" and tn[1] == "floor":
                    verdicts.append(("ok", "floor quotient and floor remainder: nanos in [0, 1e9)"))
                elif magnitude:
                    verdicts.append(("bad", "seconds/nanos are split on the magnitude abs(x) (sign-symmetric): for an instant before the epoch with a fraction this gives negative nanos; "
                                            "Timestamp needs the floor pair so that nanos is in [0, 1e9)"))
                else:
                    verdicts.append(("bad", f"seconds uses the {ts[1]} convention and nanos the {tn[1]} convention; Timestamp needs floor/floor so that nanos is in [0, 1e9)"))
            else:
                if magnitude and ts[1] == tn[1]:
                    verdicts.append(("ok" if "neg" in ts[1] or True else "inc", "sign-symmetric split on abs(x)"))
                elif ts[1] == "trunc" and tn[1] == "trunc":
                    verdicts.append(("ok", "truncating quotient and remainder: parts never have opposite signs"))
                elif ts[1] != tn[1]:
                    verdicts.append(("bad", f"seconds uses the {ts[1]} convention ({show(args[0])}) but nanos the {tn[1]} convention ({show(args[1])}): for negative values with a fraction the parts have opposite signs and do not add up to the value"))
                else:
                    verdicts.append(("bad", f"both parts use the {ts[1]} convention: for a negative Duration with a fraction seconds and nanos have opposite signs (seconds=-2, nanos=+5e8 for -1.5 s)"))
        if not verdicts:
            raise AnalysisError(f"{q}: no returning path")
        if any(v[0] == "bad" for v in verdicts):
            d = next(v[1] for v in verdicts if v[0] == "bad")
            ctx.refuted("Q1", name, "mixed-convention" if "but nanos" in d else "wrong-convention", mod.loc(fn), d,
                        "timedelta(seconds=-1.5) -> Duration" if "Duration" in q else "datetime(1969, 12, 31, 23, 59, 59, 500000, tzinfo=utc) -> Timestamp")
        elif any(v[0] == "inc" for v in verdicts):
            ctx.inconclusive("Q1", name, next(v[1] for v in verdicts if v[0] == "inc"), mod.loc(fn))
        else:
            ctx.proved("Q1", name, mod.loc(fn), verdicts[0][1])


def _range_env(s: Sym):
    if s[0] == "a" and s[2] in ATTR_RANGE:
        return ATTR_RANGE[s[2]]
    if s[0] == "op" and s[1] == "//" and len(s) == 4:
        # timedelta // timedelta(microseconds=1)
        d = s[3]
        if (d[0] == "n" and "microsecond" in d[1]) or (d[0] == "call" and dotted(d[1]) == "timedelta"):
            return TOTAL_US
    if s[0] == "call" and dotted(s[1]).endswith(".total_seconds"):
        return (-(10 ** 9) * 86400, 10 ** 9 * 86400)
    return None


def _float_ops(s: Sym) -> List[Tuple[Sym, Sym]]:
    """(float operation term, its integer operand)"""
    out = []
    for t in walk(s):
        if t[0] == "op" and t[1] == "/" and len(t) == 4:
            out.append((t, t[2]))
        elif t[0] == "op" and t[1] in ("*", "%", "+", "-", "//") and len(t) == 4:
            for a, b in ((t[2], t[3]), (t[3], t[2])):
                if b[0] == "c" and isinstance(b[1], float):
                    out.append((t, a))
        elif t[0] == "call" and dotted(t[1]) == "float" and len(t[2]) == 1:
            out.append((t, t[2][0]))
        elif t[0] == "call" and dotted(t[1]).endswith(".total_seconds"):
            # total_seconds() divides the integer microsecond total by 10**6 in floating point
            base = t[1][1]
            out.append((t, ("op", "//", base, N("_1_microsecond"))))
        elif t[0] == "call" and dotted(t[1]).endswith(".timestamp") and not t[2]:
            # datetime.timestamp() is (dt - epoch) / timedelta(seconds=1) in floating point
            base = t[1][1]
            out.append((t, ("op", "//", ("op", "-", base, N("_epoch")), N("_1_microsecond"))))
    return out


def _q1b_inputs():
    import datetime as _dt
    utc = _dt.timezone.utc
    walls = [(1970, 1, 1, 0, 0, 0, 0), (1970, 1, 1, 0, 0, 0, 1), (1969, 12, 31, 23, 59, 59, 999999), (1969, 12, 31, 23, 59, 59, 500000), (2023, 10, 11, 9, 41, 12, 123456),
             (1, 1, 2, 0, 0, 0, 0), (9999, 12, 30, 23, 59, 59, 999999), (2000, 2, 29, 12, 0, 0, 250000)]
    zones = [utc, _dt.timezone(_dt.timedelta(hours=2)), _dt.timezone(_dt.timedelta(hours=-5)), _dt.timezone(_dt.timedelta(hours=-1)), _dt.timezone(_dt.timedelta(hours=5, minutes=30)),
             _dt.timezone(_dt.timedelta(hours=-9, minutes=-30))]
    return [_dt.datetime(*w, tzinfo=z) for w in walls for z in zones]


def rule_Q1b(ctx, rule: str = "Q1") -> None:
    """_Timestamp.from_datetime evaluated at distinguished aware datetimes (around the epoch, before it with a fraction, the ends
    of the range; UTC and fixed offsets on both sides of Greenwich): the path each value takes is selected with the analyser's
    evaluator and (seconds, nanos) compared with the instant's exact distance from the epoch"""
    import datetime as _dt
    from .. import concrete
    from ..sym import from_ast as _from_ast
    mod = ctx.repo.mod(M_INIT)
    fn = mod.func("_Timestamp.from_datetime")
    params = [a.arg for a in fn.args.args if a.arg not in ("self", "cls")]
    name = "from_datetime:distinguished-instants"
    if len(params) != 1:
        ctx.inconclusive(rule, name, f"parameters {params}", mod.loc(fn))
        return
    inl = {}
    for c in ast.walk(fn):
        if isinstance(c, ast.Call) and isinstance(c.func, ast.Name) and c.func.id.startswith("_") and mod.has(c.func.id):
            h = mod.func(c.func.id)
            if len(h.body) <= 12 and not any(isinstance(n, (ast.For, ast.While)) for n in ast.walk(h)):
                inl[c.func.id] = (mod, h)
    paths = Interp(mod, inline=inl, fork_ifexp=True).run(fn)
    ctx.count(len(paths))
    epoch = _dt.datetime(1970, 1, 1, tzinfo=_dt.timezone.utc)
    base_env: Dict[Any, Any] = {"DATETIME_ZERO": epoch, "_EPOCH": epoch, "_1_microsecond": _dt.timedelta(microseconds=1)}
    # module-level constants of the time kind that the function reads: evaluated from their defining expression
    for st in mod.tree.body:
        tg = st.targets[0] if isinstance(st, ast.Assign) and len(st.targets) == 1 else (st.target if isinstance(st, ast.AnnAssign) and st.value is not None else None)
        if isinstance(tg, ast.Name) and tg.id not in base_env and any(isinstance(x, ast.Name) and x.id in ("timedelta", "datetime", "timezone") for x in ast.walk(st.value)):
            try:
                base_env[tg.id] = concrete.ev(_from_ast(st.value), dict(base_env))
            except concrete.Unknown:
                pass
    bad = unknown = None
    n = 0
    for dt in _q1b_inputs():
        env = dict(base_env)
        env[params[0]] = dt
        sel, why = [], None
        for p in paths:
            try:
                if all(bool(concrete.ev(k, env)) == bool(v) for k, v in p.valuation.items() if k[0] != "raises"):
                    sel.append(p)
            except concrete.Unknown as e:
                why = str(e)
                break
        if why is not None or len(sel) != 1:
            unknown = unknown or f"{dt.isoformat()}: {why or str(len(sel)) + ' paths selected'}"
            continue
        p = sel[0]
        args = _ctor_args(p.value) if p.outcome == "return" and p.value is not None else None
        if args is None:
            unknown = unknown or f"{dt.isoformat()}: result {show(p.value)[:60] if p.value else p.outcome} is not cls(seconds, nanos)"
            continue
        try:
            got = (concrete.ev(args[0], env), concrete.ev(args[1], env))
        except concrete.Unknown as e:
            unknown = unknown or f"{dt.isoformat()}: {e}"
            continue
        n += 1
        total_us = (dt - epoch) // _dt.timedelta(microseconds=1)
        sec, us = divmod(total_us, 10 ** 6)
        if got != (sec, us * 1000):
            bad = bad or (dt, got, (sec, us * 1000))
    if bad:
        dt, got, want = bad
        ctx.refuted(rule, name, f"{dt.isoformat()}->{got}", mod.loc(fn), f"the instant {dt.isoformat()} is encoded as (seconds, nanos) = {got}; it lies {want[0]} s and {want[1]} ns after the epoch: the UTC offset of an "
                    "aware datetime has to be applied as a whole (a negative offset is normalised to days=-1 plus a positive rest; replacing tzinfo relabels the wall clock instead of converting it)",
                    f"M(ts={dt!r})")
    elif unknown:
        ctx.inconclusive(rule, name, unknown[:300], mod.loc(fn))
    else:
        ctx.proved(rule, name, mod.loc(fn), f"{n} aware datetimes over {len(paths)} paths")


def rule_Q2(ctx) -> None:
    mod = ctx.repo.mod(M_INIT)
    for q in ("_Timestamp.from_datetime", "_Duration.from_timedelta", "_Timestamp.to_datetime", "_Duration.to_timedelta",
              "_Duration.delta_to_json", "_Timestamp.timestamp_to_json"):
        fn = mod.func(q)
        ctx.analysed(q)
        paths = Interp(mod).run(fn)
        ctx.count(len(paths))
        name = f"{q.split('.')[-1]}:no-float-on-wide-integers"
        bad = None
        n_ops = 0
        for p in paths:
            if p.outcome != "return" or p.value is None:
                continue
            terms = [p.value] + [k for k in p.valuation if isinstance(k, tuple) and k and k[0] in ("op", "call")]
            for op, operand in [x for t_ in terms for x in _float_ops(t_)]:
                n_ops += 1
                lo, hi = interval(operand, _range_env)
                if max(abs(lo), abs(hi)) > TWO53:
                    bad = (op, operand, lo, hi)
        if bad:
            op, operand, lo, hi = bad
            ctx.refuted("Q2", name, "float-on-wide-int", mod.loc(fn),
                        f"{show(op)} converts {show(operand)} (range up to {max(abs(lo), abs(hi)):.3g} > 2**53) to float on the way into seconds/nanos: microsecond totals beyond 2**53 are rounded",
                        "timedelta(microseconds=9007199254999999) / a datetime ~ year 2600 at .999999")
        else:
            ctx.proved("Q2", name, mod.loc(fn), f"{n_ops} float operations, all on operands below 2**53")


def rule_Q3(ctx) -> None:
    """datetime / timedelta are dispatched before `wraps` in the encoder siblings and converted back in the decoder"""
    from .codec import model, classify_dec

    mod = ctx.repo.mod(M_INIT)
    for q in ("_preprocess_single", "_len_preprocessed_single"):
        fn = mod.func(q)
        params = [a.arg for a in fn.args.args]
        conv = {"datetime": set(), "timedelta": set()}
        for cls_, other in (("datetime", "timedelta"), ("timedelta", "datetime")):
            atom = ("call", N("isinstance"), (N(params[2]), N(cls_)), ())
            atom_o = ("call", N("isinstance"), (N(params[2]), N(other)), ())
            # a value of that class, whatever `wraps` says: every path that produces something converts it first
            # the size twin may be defined through the encoder (`len(_preprocess_single(..))`): read through it
            inl_ = {"_preprocess_single": (mod, mod.func("_preprocess_single"))} if q != "_preprocess_single" and any(
                isinstance(c_, ast.Call) and isinstance(c_.func, ast.Name) and c_.func.id == "_preprocess_single" for c_ in ast.walk(fn)) else {}
            paths = Interp(mod, bindings={N(params[0]): "message"}, assume={atom: True, atom_o: False, ("op", "is", N(params[2]), C(None)): False}, inline=inl_).run(fn)
            ctx.count(len(paths))
            for p in paths:
                if p.outcome != "return":
                    continue
                callees = {dotted(e.data[1]) for e in p.events if e.kind == "call" and dotted(e.data[1]) != "_preprocess_single"}
                got = {c for c in callees if c.endswith("from_datetime") or c.endswith("from_timedelta")}
                conv[cls_] |= got
                if not got or any(c.endswith("_get_wrapper") for c in callees):
                    conv[cls_].add("wraps-first")
        ok = conv["datetime"] == {"_Timestamp.from_datetime"} and conv["timedelta"] == {"_Duration.from_timedelta"}
        if ok:
            ctx.proved("Q3", f"{q}:datetime/timedelta-dispatch", mod.loc(fn))
        else:
            ctx.refuted("Q3", f"{q}:datetime/timedelta-dispatch", str({k: sorted(v) for k, v in conv.items()}), mod.loc(fn),
                        f"datetime/timedelta values are converted by {conv}; expected _Timestamp.from_datetime / _Duration.from_timedelta before any wrapper handling")
    # the decoder, evaluated per class the field is annotated with: the class looked up for the field is bound to datetime,
    # to timedelta and to an ordinary message class in turn
    from ..src import SymName
    from ..sym import walk
    post = mod.func("Message._postprocess_single")
    pp = [a.arg for a in post.args.args]
    base = {N(pp[1]): 2, A(N(pp[2]), "proto_type"): "message"}
    probe = Interp(mod, bindings=dict(base)).run(post)
    lookups = {t for p in probe for src in (list(p.valuation) + [e.data for e in p.events if e.kind in ("call", "return")] + ([p.value] if p.value is not None else []))
               for t in walk(src) if isinstance(t, tuple) and t and t[0] == "sub" and "cls_by_field" in show(t[1])}
    loc = mod.loc(post)
    if len(lookups) != 1:
        ctx.inconclusive("Q3", "_postprocess_single:converts-back", f"the class of the field is looked up through {len(lookups)} different terms", loc)
        return
    T = next(iter(lookups))
    want = {"datetime": ("to_datetime", "_Timestamp"), "timedelta": ("to_timedelta", "_Duration")}
    got = {}
    for cname, (conv, carrier) in want.items():
        b = dict(base)
        b[T] = SymName(cname)
        paths = Interp(mod, bindings=b).run(post)
        ctx.count(len(paths))
        res = set()
        for p in paths:
            if p.outcome == "raise" and any(k[0] == "raises" and v_ for k, v_ in p.valuation.items()):
                continue        # the nested parse rejected the payload and a handler re-raised: no value, nothing to convert
            if p.outcome != "return" or p.value is None:
                res.add(f"<{p.outcome}>")
                continue
            v = p.value
            if v[0] == "call" and v[1][0] == "a" and v[1][2] == conv and f"{carrier}()" in show(v[1][1]) and ".parse(" in show(v[1][1]):
                res.add(conv)
            else:
                res.add(show(v)[:80])
        got[cname] = res
    if all(got[c] == {want[c][0]} for c in want):
        ctx.proved("Q3", "_postprocess_single:converts-back", loc, "; ".join(f"{c}->{sorted(r)}" for c, r in got.items()))
    else:
        bad = next(c for c in want if got[c] != {want[c][0]})
        ctx.refuted("Q3", "_postprocess_single:converts-back", f"{bad}:{','.join(sorted(got[bad]))}"[:120], loc,
                    f"a decoded field annotated {bad} yields {sorted(got[bad])}; expected {want[bad][1]}().parse(value).{want[bad][0]}()")


def rule_Q4(ctx) -> None:
    """sign handling in the Duration JSON form (emitter and parser)"""
    mod = ctx.repo.mod(M_INIT)
    de = mod.func("_Duration.delta_to_json")
    # floor-style integer splitting of a possibly negative total for display needs abs()/sign handling
    floor_ops = [n for n in ast.walk(de) if (isinstance(n, ast.BinOp) and isinstance(n.op, (ast.FloorDiv, ast.Mod))) or
                 (isinstance(n, ast.Call) and ast.unparse(n.func) == "divmod")]
    # sign handling: abs(), or an ordering comparison with zero (== 0 does not count)
    has_sign = any(isinstance(n, ast.Call) and ast.unparse(n.func) == "abs" for n in ast.walk(de)) or any(
        isinstance(n, ast.Compare) and isinstance(n.ops[0], (ast.Lt, ast.LtE, ast.Gt, ast.GtE)) and
        any((isinstance(c, ast.Constant) and c.value == 0) or ast.unparse(c) == "timedelta(0)" for c in [n.left] + n.comparators) for n in ast.walk(de))
    splits_delta = [n for n in floor_ops if "delta" in ast.unparse(n) or "total" in ast.unparse(n) or "us" in ast.unparse(n).lower()]
    if splits_delta and not has_sign:
        ctx.refuted("Q4", "delta_to_json:negative-durations", "floor-split-without-sign", mod.loc(splits_delta[0]),
                    f"the duration is split with floor division ({ast.unparse(splits_delta[0])[:60]}) and printed without sign handling: -1.5 s is emitted as '-2.500s'",
                    "delta_to_json(timedelta(seconds=-1.5))")
    else:
        ctx.proved("Q4", "delta_to_json:negative-durations", mod.loc(de))
    # Q4b: for a negative duration the text starts with a literal '-' (negating an integer part that may be 0 loses the sign)
    paths = Interp(mod, fork_ifexp=True).run(de)
    ctx.count(len(paths))
    neg_paths = [p for p in paths if p.outcome == "return" and any(k[0] == "op" and k[1] == "<" and k[3] == C(0) and v for k, v in p.valuation.items())]
    bad_sign = None
    for p in neg_paths:
        v = p.value
        first = v[1][0] if v is not None and v[0] == "fstr" else v
        lit = first is not None and first[0] == "c" and str(first[1]).startswith("-")
        if not lit:
            bad_sign = (p, v)
    if neg_paths and bad_sign is None:
        ctx.proved("Q4", "delta_to_json:sign-is-literal", mod.loc(de), f"{len(neg_paths)} negative paths start with '-'")
    elif bad_sign is not None:
        ctx.refuted("Q4", "delta_to_json:sign-is-literal", "no-literal-minus", mod.loc(de),
                    f"for a negative duration the emitted text is {show(bad_sign[1])}: it does not start with a literal '-', so the sign depends on the integer seconds part, which is 0 "
                    "for durations between -1 s and 0 (-0 formats as 0)", "delta_to_json(timedelta(milliseconds=-500))")
    elif splits_delta:
        ctx.inconclusive("Q4", "delta_to_json:sign-is-literal", "no path for a negative duration found", mod.loc(de))
    # parser: one numeric conversion of the whole text, or explicit sign handling when the text is split
    fdi = mod.func("Message._from_dict_init")
    sites = _duration_text_sites(mod)
    bad = None
    bad_int = None
    for fn in sites:
        src = ast.unparse(fn)
        splits = [n for n in ast.walk(fn) if isinstance(n, ast.Call) and isinstance(n.func, ast.Attribute) and n.func.attr in ("split", "partition")
                  and n.args and isinstance(n.args[0], ast.Constant) and n.args[0].value == "."]
        td_calls = [n for n in ast.walk(fn) if isinstance(n, ast.Call) and ast.unparse(n.func) == "timedelta" and any(k.arg in ("microseconds", "milliseconds") for k in n.keywords)]
        signed = any(isinstance(n, ast.Call) and isinstance(n.func, ast.Attribute) and n.func.attr == "startswith" and n.args and
                     isinstance(n.args[0], ast.Constant) and n.args[0].value == "-" for n in ast.walk(fn)) or "< 0" in src or "abs(" in src or "copysign" in src \
            or any(isinstance(n, ast.Compare) and any(isinstance(c, ast.Constant) and c.value == "-" for c in [n.left] + n.comparators) for n in ast.walk(fn))
        # sign taken from the text: startswith('-') / comparison with '-' / abs / copysign / a float of the whole text
        text_signed = any(isinstance(n, ast.Call) and isinstance(n.func, ast.Attribute) and n.func.attr == "startswith" and n.args and
                          isinstance(n.args[0], ast.Constant) and n.args[0].value == "-" for n in ast.walk(fn)) or "abs(" in src or "copysign" in src \
            or any(isinstance(n, ast.Compare) and any(isinstance(c, ast.Constant) and c.value == "-" for c in [n.left] + n.comparators) for n in ast.walk(fn))
        if splits and td_calls and not text_signed:
            # the only sign handling is a comparison with 0: of what?  int(<part before the '.'>) is 0 for '-0', so the
            # sign of durations in (-1 s, 0) is lost there
            int_parts = set()
            seconds_vars = set()
            for st in ast.walk(fn):
                if isinstance(st, ast.Assign) and isinstance(st.value, ast.Call) and isinstance(st.value.func, ast.Attribute) and st.value.func.attr in ("split", "partition") \
                        and isinstance(st.targets[0], ast.Tuple) and st.targets[0].elts and isinstance(st.targets[0].elts[0], ast.Name):
                    seconds_vars.add(st.targets[0].elts[0].id)
            for st in ast.walk(fn):
                if isinstance(st, ast.Assign) and len(st.targets) == 1 and isinstance(st.targets[0], ast.Name) and isinstance(st.value, ast.Call) and ast.unparse(st.value.func) == "int" \
                        and st.value.args and any(isinstance(x, ast.Name) and x.id in seconds_vars for x in ast.walk(st.value.args[0])):
                    int_parts.add(st.targets[0].id)
            zero_tests = [n for n in ast.walk(fn) if isinstance(n, ast.Compare) and any(isinstance(c, ast.Constant) and c.value == 0 and not isinstance(c.value, bool) for c in [n.left] + n.comparators)
                          and isinstance(n.ops[0], (ast.Lt, ast.LtE, ast.Gt, ast.GtE))]
            on_int_part = [n for n in zero_tests if any((isinstance(x, ast.Name) and x.id in int_parts) or
                                                        (isinstance(x, ast.Call) and ast.unparse(x.func) == "int" and x.args and any(isinstance(y, ast.Name) and y.id in seconds_vars for y in ast.walk(x.args[0])))
                                                        for x in [n.left] + n.comparators)]
            if zero_tests and len(on_int_part) == len(zero_tests):
                bad_int = (fn, on_int_part[0])
        if splits and td_calls and not signed:
            bad = (fn, splits[0])
    if bad is None and bad_int is not None:
        ctx.refuted("Q4", "duration-parser:negative-durations", "sign-from-integer-part", mod.loc(bad_int[1]),
                    f"the sign of the parsed Duration is taken from `{ast.unparse(bad_int[1])}`, the integer part of the text: int('-0') is 0, so '-0.500s' (any duration between -1 s and 0) "
                    "is read back positive", "M().from_json('{\"d\": \"-0.500s\"}')")
    elif bad:
        ctx.refuted("Q4", "duration-parser:negative-durations", "split-without-sign", mod.loc(bad[1]),
                    "the Duration text is split at '.' and the fractional part converted separately with no sign handling: '-1.500s' parses as -0.5 s",
                    "M().from_json('{\"d\": \"-1.500s\"}')")
    else:
        ctx.proved("Q4", "duration-parser:negative-durations", mod.loc(fdi))
    rule_Q4d(ctx, sites)
    rule_Q4c(ctx)
    rule_Q4e(ctx)


Q4D_INPUTS = ["0s", "1s", "-1s", "1.500s", "-1.500s", "-0.500s", "0.250s", "-3.000001s", "3.000001s", "+2.5s", "-0s", "-10.010s", "7200.000s", "-0.000001s", "12.345678s"]


def rule_Q4d(ctx, sites) -> None:
    """the parser of the Duration JSON text, evaluated at distinguished inputs (both signs, with and without a whole part, with
    and without a fraction): the path each input takes is selected with the analyser's evaluator of symbolic terms and the
    returned timedelta compared with the decimal value of the text"""
    import datetime as _dt
    from decimal import Decimal
    from .. import concrete
    mod = ctx.repo.mod(M_INIT)
    done = 0
    for fn in sites:
        params = [a.arg for a in fn.args.args if a.arg not in ("self", "cls")]
        if len(params) != 1 or fn.args.kwonlyargs and any(d is None for d in fn.args.kw_defaults):
            continue
        if not any(isinstance(n, ast.Call) and ast.unparse(n.func) in ("timedelta", "datetime.timedelta") for n in ast.walk(fn)):
            continue
        paths = Interp(mod, fork_ifexp=True).run(fn)
        ctx.count(len(paths))
        done += 1
        bad, unknown = None, None
        for text in Q4D_INPUTS:
            env = {params[0]: text}
            sel = []
            why = None
            for p in paths:
                try:
                    if all(bool(concrete.ev(k, env)) == bool(v) for k, v in p.valuation.items()):
                        sel.append(p)
                except concrete.Unknown as e:
                    why = str(e)
                    break
            if why is not None or len(sel) != 1:
                unknown = unknown or f"{text!r}: {why or str(len(sel)) + ' paths selected'}"
                continue
            p = sel[0]
            if p.outcome != "return" or p.value is None:
                bad = bad or (text, f"<{p.outcome}>")
                continue
            try:
                got = concrete.ev(p.value, env)
            except concrete.Unknown as e:
                unknown = unknown or f"{text!r}: result not evaluable ({e})"
                continue
            want = _dt.timedelta(microseconds=int(Decimal(text[:-1]) * 10 ** 6))
            if got != want:
                bad = bad or (text, got)
        q = next((k for k, v in mod.defs.items() if any(x is fn or getattr(x, "_vt_origin", None) is fn or x is getattr(fn, "_vt_origin", None) for x in v)), fn.name)
        name = f"{q}:distinguished-inputs"
        if bad:
            text, got = bad
            want = _dt.timedelta(microseconds=int(Decimal(text[:-1]) * 10 ** 6))
            ctx.refuted("Q4", name, f"{text}->{got}", mod.loc(fn), f"the Duration text {text!r} is parsed to {got!r} ({getattr(got, 'total_seconds', lambda: '?')()} s); its value is {want.total_seconds()} s: "
                        "the sign of the text must apply to the whole and the fractional part alike", f"M().from_json('{{\"d\": \"{text}\"}}')")
        elif unknown:
            ctx.inconclusive("Q4", name, unknown[:300], mod.loc(fn))
        else:
            ctx.proved("Q4", name, mod.loc(fn), f"{len(Q4D_INPUTS)} inputs over {len(paths)} paths")
    if not done:
        ctx.notes.append("Q4d: the Duration text parser is not a one-argument function; distinguished inputs not evaluated (structural Q4 clauses apply)")


Q4E_MICROS = [0, 1, -1, 1000, -1000, 500000, -500000, 1000000, -1000000, 1500000, -1500000, 250000, -3000001, 3000001, 12345678, -12345678, 7200000000, -86400000000,
              -86400500000, 90061001000, -999999, 999999, 10**6 * 10**7 + 1, -(10**6 * 10**7) - 1]


def rule_Q4e(ctx) -> None:
    """the emitter of the Duration JSON text, evaluated at distinguished timedeltas (both signs, whole seconds, fractions with
    and without a whole part, spans whose normalised days / seconds / microseconds fields have mixed signs): the path each value
    takes is selected with the analyser's evaluator and the text must be decimal seconds that denote exactly the span"""
    import datetime as _dt
    import re as _re
    from decimal import Decimal
    from .. import concrete
    mod = ctx.repo.mod(M_INIT)
    fn = mod.func("_Duration.delta_to_json")
    params = [a.arg for a in fn.args.args if a.arg not in ("self", "cls")]
    name = "delta_to_json:distinguished-durations"
    if len(params) != 1:
        ctx.inconclusive("Q4", name, f"parameters {params}", mod.loc(fn))
        return
    paths = Interp(mod, fork_ifexp=True).run(fn)
    ctx.count(len(paths))
    bad = unknown = None
    for us in Q4E_MICROS:
        td = _dt.timedelta(microseconds=us)
        env = {params[0]: td}
        sel, why = [], None
        for p in paths:
            try:
                if all(bool(concrete.ev(k, env)) == bool(v) for k, v in p.valuation.items() if k[0] != "raises"):
                    sel.append(p)
            except concrete.Unknown as e:
                why = str(e)
                break
        if why is not None or len(sel) != 1:
            unknown = unknown or f"{td!r}: {why or str(len(sel)) + ' paths selected'}"
            continue
        p = sel[0]
        if p.outcome != "return" or p.value is None:
            bad = bad or (td, f"<{p.outcome}>")
            continue
        try:
            got = concrete.ev(p.value, env)
        except concrete.Unknown as e:
            unknown = unknown or f"{td!r}: text not evaluable ({e})"
            continue
        ok = isinstance(got, str) and _re.fullmatch(r"-?\d+(\.\d{1,9})?s", got) is not None and Decimal(got[:-1]) * 10 ** 6 == us
        if not ok:
            bad = bad or (td, got)
    if bad:
        td, got = bad
        ctx.refuted("Q4", name, f"{td.total_seconds()}s->{got}", mod.loc(fn), f"the span {td!r} ({Decimal(int(td / _dt.timedelta(microseconds=1))) / 10 ** 6} s) is written as {got!r}: the normalised fields of a negative "
                    "timedelta count forward from the floored day / second (days=-1, seconds=86398, microseconds=500000 is -1.5 s), they are not the digits of its magnitude",
                    f"M(d=timedelta(microseconds={int(td / _dt.timedelta(microseconds=1))})).to_json()")
    elif unknown:
        ctx.inconclusive("Q4", name, unknown[:300], mod.loc(fn))
    else:
        ctx.proved("Q4", name, mod.loc(fn), f"{len(Q4E_MICROS)} spans over {len(paths)} paths")


def _duration_text_sites(mod) -> List[ast.AST]:
    """_from_dict_init and the helpers it calls (methods of the Duration shim or module functions) that build a timedelta"""
    fdi = mod.func("Message._from_dict_init")
    sites = [fdi]
    for c in ast.walk(fdi):
        if isinstance(c, ast.Call):
            q = ast.unparse(c.func)
            if mod.has(q) and any(isinstance(x, (ast.FunctionDef,)) for x in mod.defs[q]):
                h = mod.func(q)
                if any(isinstance(n, ast.Call) and ast.unparse(n.func) == "timedelta" for n in ast.walk(h)) and h not in sites:
                    sites.append(h)
    return sites


def _strips_suffix(e: ast.AST) -> bool:
    """text[:-1] / text.rstrip('s') / text.removesuffix('s'): the Duration text without its unit"""
    if isinstance(e, ast.Subscript) and isinstance(e.slice, ast.Slice) and e.slice.lower is None and e.slice.upper is not None \
            and ast.unparse(e.slice.upper) == "-1":
        return True
    if isinstance(e, ast.Call) and isinstance(e.func, ast.Attribute) and e.func.attr in ("rstrip", "removesuffix", "strip") and e.args \
            and isinstance(e.args[0], ast.Constant) and e.args[0].value == "s":
        return True
    return False


def rule_Q4c(ctx) -> None:
    """the Duration text is converted exactly: the whole decimal text never goes through float()
    (a double has 53 bits; the Duration range of +-315576000000 s at microsecond resolution needs 59)"""
    mod = ctx.repo.mod(M_INIT)
    sites = _duration_text_sites(mod)
    bad = None
    n = 0
    for fn in sites:
        whole = set()
        for st in ast.walk(fn):
            if isinstance(st, ast.Assign) and len(st.targets) == 1 and isinstance(st.targets[0], ast.Name) and _strips_suffix(st.value):
                whole.add(st.targets[0].id)
        for c in ast.walk(fn):
            if isinstance(c, ast.Call) and ast.unparse(c.func) in ("float", "Decimal.__float__") and c.args:
                a = c.args[0]
                n += 1
                if _strips_suffix(a) or (isinstance(a, ast.Name) and a.id in whole):
                    bad = (fn, c)
    fdi = sites[0]
    if bad:
        ctx.refuted("Q4", "duration-parser:exact", "whole-text-through-float", mod.loc(bad[1]),
                    f"the Duration text is converted with {ast.unparse(bad[1])[:60]}: a double cannot hold every value of the Duration range at microsecond resolution "
                    "(|seconds| above about 8.5e9, 272 years, lose the last digit)", "M().from_json('{\"d\": \"8640000000.999999s\"}')")
    else:
        ctx.proved("Q4", "duration-parser:exact", mod.loc(fdi), f"{len(sites)} functions, {n} float() conversions, none on the whole text")


# google/protobuf/duration.proto: "seconds ... Must be from -315,576,000,000 to +315,576,000,000 inclusive";
# timestamp.proto: 0001-01-01T00:00:00Z .. 9999-12-31T23:59:59Z
DURATION_MAX_SECONDS = 315_576_000_000
TIMESTAMP_MIN_SECONDS, TIMESTAMP_MAX_SECONDS = -62_135_596_800, 253_402_300_799


def rule_Q5(ctx) -> None:
    """(a) an aware datetime is converted through its UTC instant, never through naive wall-clock fields;
    (b) range checks of the converters do not reject values inside the documented range (bounds are inclusive)"""
    mod = ctx.repo.mod(M_INIT)
    fd = mod.func("_Timestamp.from_datetime")
    ctx.analysed("_Timestamp.from_datetime", "_Duration.from_timedelta")
    naive = [c for c in ast.walk(fd) if isinstance(c, ast.Call) and isinstance(c.func, ast.Attribute) and (
        c.func.attr == "timetuple" or (c.func.attr == "replace" and any(k.arg == "tzinfo" and isinstance(k.value, ast.Constant) and k.value.value is None for k in c.keywords)))]
    if naive:
        ctx.refuted("Q5", "from_datetime:utc-instant", ast.unparse(naive[0]), mod.loc(naive[0]),
                    f"`{ast.unparse(naive[0])}` drops the UTC offset (timetuple() returns the wall-clock fields, utctimetuple() the UTC ones): an aware datetime that is not in UTC is encoded "
                    "as if its local fields were UTC", "datetime(2023, 10, 11, 15, 11, 12, tzinfo=timezone(timedelta(hours=5, minutes=30)))")
    else:
        ctx.proved("Q5", "from_datetime:utc-instant", mod.loc(fd))
    for q, cls_name, lo, hi in (("_Duration.from_timedelta", "_Duration", -DURATION_MAX_SECONDS, DURATION_MAX_SECONDS),
                                ("_Timestamp.from_datetime", "_Timestamp", TIMESTAMP_MIN_SECONDS, TIMESTAMP_MAX_SECONDS)):
        fn = mod.func(q)
        consts = {}
        for st in mod.cls(cls_name).body:
            if isinstance(st, ast.Assign) and len(st.targets) == 1 and isinstance(st.targets[0], ast.Name):
                try:
                    consts[st.targets[0].id] = ast.literal_eval(st.value)
                except Exception:
                    pass
        bad = None
        n = 0
        for node in ast.walk(fn):
            if not (isinstance(node, ast.If) and any(isinstance(b, ast.Raise) for b in node.body)):
                continue
            tests = node.test.values if isinstance(node.test, ast.BoolOp) else [node.test]
            for t in tests:
                if not (isinstance(t, ast.Compare) and len(t.ops) == 1):
                    continue
                left, right, op = t.left, t.comparators[0], t.ops[0]

                def const(e):
                    if isinstance(e, ast.Attribute) and isinstance(e.value, ast.Name) and e.value.id in ("cls", "self", cls_name) and e.attr in consts:
                        return consts[e.attr]
                    if isinstance(e, ast.UnaryOp) and isinstance(e.op, ast.USub):
                        v = const(e.operand)
                        return -v if v is not None else None
                    try:
                        return ast.literal_eval(e)
                    except Exception:
                        return None
                var, c, flipped = (left, const(right), False) if const(right) is not None else (right, const(left), True)
                if c is None or "second" not in ast.unparse(var).lower() or not isinstance(c, (int, float)):
                    continue
                n += 1
                opn = type(op).__name__
                if flipped:
                    opn = {"Lt": "Gt", "LtE": "GtE", "Gt": "Lt", "GtE": "LtE"}.get(opn, opn)
                is_abs = "abs(" in ast.unparse(var)
                # the set rejected by this comparison
                rejected_valid = None
                if opn == "GtE" and c <= hi:
                    rejected_valid = c
                elif opn == "Gt" and c < hi:
                    rejected_valid = c + 1
                elif opn == "LtE" and (c >= lo and not is_abs):
                    rejected_valid = c
                elif opn == "Lt" and (c > lo and not is_abs):
                    rejected_valid = c - 1
                if rejected_valid is not None:
                    bad = (t, rejected_valid)
        name = f"{q.split('.')[-1]}:range-check-inclusive"
        if bad:
            t, v = bad
            ctx.refuted("Q5", name, ast.unparse(t), mod.loc(t),
                        f"`{ast.unparse(t)}` raises for seconds = {v}, which lies inside the documented range [{lo}, {hi}] (the bounds are inclusive): a valid value is rejected instead of encoded",
                        f"timedelta(seconds={v})" if "Duration" in q else f"the instant {v} s from the epoch")
        else:
            ctx.proved("Q5", name, mod.loc(fn), f"{n} range comparisons")


def _unpadded_year_formats(tree: ast.AST):
    """strftime calls whose constant format prints the year with %Y / %G: the C library does not zero-pad years below 1000
    (glibc prints 999, RFC 3339 and isoparse want 0999)"""
    out = []
    for c in ast.walk(tree):
        if isinstance(c, ast.Call) and isinstance(c.func, ast.Attribute) and c.func.attr == "strftime" and c.args:
            a = c.args[0]
            if isinstance(a, ast.Constant) and isinstance(a.value, str) and ("%Y" in a.value or "%G" in a.value):
                out.append(c)
        if isinstance(c, ast.JoinedStr):
            for v in c.values:
                if isinstance(v, ast.FormattedValue) and isinstance(v.format_spec, ast.JoinedStr):
                    spec = "".join(x.value for x in v.format_spec.values if isinstance(x, ast.Constant) and isinstance(x.value, str))
                    if "%Y" in spec or "%G" in spec:
                        out.append(c)
    return out


def rule_Q7(ctx, rule: str = "Q7") -> None:
    """the RFC 3339 text of a Timestamp has a four-digit year for every year of the valid range (0001-9999): it is built with
    the fixed-width isoformat(), never with a strftime %Y"""
    control = ast.parse("def f(dt):\n    return dt.strftime('%Y-%m-%dT%H:%M:%S')\ndef g(dt):\n    return dt.isoformat()\n")
    if len(_unpadded_year_formats(control)) != 1:
        raise AnalysisError("Q7 positive control not flagged")
    mod = ctx.repo.mod(M_INIT)
    n = 0
    for q in ("_Timestamp.timestamp_to_json", "_Timestamp.from_datetime", "_Timestamp.to_datetime"):
        if not mod.has(q):
            continue
        fn = mod.func(q)
        n += 1
        hits = _unpadded_year_formats(fn)
        name = f"{q.split('.')[-1]}:four-digit-year"
        if hits:
            ctx.refuted(rule, name, ast.unparse(hits[0])[:80], mod.loc(hits[0]),
                        f"{q} prints the year with strftime %Y ({ast.unparse(hits[0])[:60]}): the C library does not zero-pad, so a Timestamp before the year 1000 is emitted as "
                        "'999-12-31T...', which is not RFC 3339 and is rejected by from_dict / the reference parser", "M(ts=datetime(999, 12, 31, tzinfo=utc)).to_json()")
        else:
            ctx.proved(rule, name, mod.loc(fn))
    ctx.floor(rule, "timestamp text functions", n, 1)


def rule_Q6(ctx) -> None:
    """every Timestamp / Duration (and wrapper / nested) payload is parsed into a fresh message: parse() merges into what the
    receiver already holds and leaves fields that are absent from the payload alone, so a decoder object that outlives one
    value (a module-level instance, an attribute) leaks the previous value's seconds / nanos into the next"""
    mod = ctx.repo.mod(M_INIT)
    fn = mod.func("Message._postprocess_single")
    ctx.analysed("Message._postprocess_single")
    paths = Interp(mod).run(fn)
    ctx.count(len(paths))
    n = 0
    bad = None
    unknown = None
    for p in paths:
        for e in p.events:
            if e.kind == "call" and e.data[1][0] == "a" and e.data[1][2] in ("parse", "load", "FromString"):
                recv = e.data[1][1]
                n += 1
                if recv[0] == "call":
                    # X().parse(...): constructed for this value - unless X is a function of the module that hands out a
                    # memoised object (a cache decorator on a factory makes every call return the same instance)
                    callee = recv[1]
                    if callee[0] == "n" and mod.has(callee[1]):
                        defs_ = [d for d in mod.get_all(callee[1]) if isinstance(d, (ast.FunctionDef, ast.AsyncFunctionDef))]
                        cached = [d for d in defs_ if any("cache" in ast.unparse(dec).lower() for dec in d.decorator_list)]
                        if cached:
                            bad = bad or (show(recv) + " (memoised by " + ", ".join(ast.unparse(dec) for dec in cached[0].decorator_list) + ")", e.line)
                            continue
                        if defs_ and not any(isinstance(d, ast.ClassDef) for d in mod.get_all(callee[1])):
                            # a plain factory function: fresh only if each of its returns constructs
                            rets = [r.value for d in defs_ for r in ast.walk(d) if isinstance(r, ast.Return) and r.value is not None]
                            if not rets or not all(isinstance(r, ast.Call) for r in rets):
                                unknown = unknown or (show(recv), e.line)
                    continue
                if recv[0] == "n" and recv[1] in ("cls", "self"):
                    continue
                bad = bad or (show(recv), e.line)
    name = "_postprocess_single:parses-into-fresh-message"
    if not n:
        ctx.inconclusive("Q6", name, "no parse call found", mod.loc(fn))
    elif bad:
        ctx.refuted("Q6", name, f"receiver={bad[0]}", f"{mod.rel}:{bad[1]}",
                    f"a payload is parsed into {bad[0]}, an object that is not created for this value: parse() does not reset fields that are absent from the payload, so a value with "
                    "nanos (or seconds) 0 inherits the previous value's", "decode 1.5 s, then 2 s: the second comes out as 2.5 s")
    elif unknown:
        ctx.inconclusive("Q6", name, f"a payload is parsed into {unknown[0]}, the result of a factory whose returns are not constructions", f"{mod.rel}:{unknown[1]}")
    else:
        ctx.proved("Q6", name, mod.loc(fn), f"{n} parse calls, all on freshly constructed messages")


def rule_Q8(ctx, rule: str = "Q8") -> None:
    """whether a Timestamp field holds its default (the epoch) is a question about the instant: the emitters of the dict / JSON
    form compare the value itself (or a time-zone conversion of it) with the epoch - never a copy whose tzinfo was replaced,
    which compares the wall-clock reading and takes 1970-01-01T00:00+05:30 for the epoch"""
    from ..fieldloop import VALUE, interp_for, type_binding
    from ..sym import walk
    mod = ctx.repo.mod(M_INIT)
    for q in ("Message.to_dict", "Message.to_pydict"):
        fn = mod.func(q)
        ctx.analysed(q)
        is_dt = ("call", N("isinstance"), (VALUE, N("datetime")), ())
        paths = interp_for(mod, bindings=type_binding("message"), assume={is_dt: True}, fork_ifexp=True).run(fn)
        ctx.count(len(paths))
        zero_atoms = set()
        for p in paths:
            for k in p.valuation:
                if any(t == N("DATETIME_ZERO") or (t[0] == "call" and dotted(t[1]) == "datetime_default_gen") or (t[0] == "c" and type(t[1]).__name__ == "datetime") for t in walk(k)):
                    zero_atoms.add(k)
        name = f"{q.split('.')[-1]}:epoch-test-compares-the-instant"
        if not zero_atoms:
            ctx.inconclusive(rule, name, "no comparison with the epoch found on the datetime paths", mod.loc(fn))
            continue
        bad = None
        odd = None
        for k in zero_atoms:
            repl = [t for t in walk(k) if t[0] == "call" and t[1][0] == "a" and t[1][2] == "replace" and any(kw == "tzinfo" for kw, _ in t[3])]
            if repl:
                bad = bad or repl[0]
                continue
            sides = [x for x in k[2:]] if k[0] == "op" and k[1] in ("==", "is") else []
            others = [x for x in sides if not (x == N("DATETIME_ZERO") or (x[0] == "call" and dotted(x[1]) == "datetime_default_gen"))]
            def is_value(x):
                # the field's value: read from the instance, or its default when the member is not the selected one
                return x == VALUE or (x[0] == "call" and dotted(x[1]).endswith("_get_field_default"))
            if not all(is_value(x) or (x[0] == "call" and x[1][0] == "a" and x[1][2] == "astimezone" and is_value(x[1][1])) for x in others) or not sides:
                odd = odd or k
        if bad:
            ctx.refuted(rule, name, show(bad)[:80], mod.loc(fn), f"the default test of a Timestamp field compares {show(bad)} with the epoch: replacing tzinfo keeps the wall-clock reading and "
                        "changes the instant, so an aware datetime whose local time reads 1970-01-01T00:00:00 is taken for the default and dropped from the dict / JSON form",
                        "datetime(1970, 1, 1, tzinfo=timezone(timedelta(hours=5, minutes=30)))")
        elif odd:
            ctx.inconclusive(rule, name, f"epoch test {show(odd)[:100]} not recognised as a comparison of the value itself", mod.loc(fn))
        else:
            ctx.proved(rule, name, mod.loc(fn), f"{len(zero_atoms)} epoch test(s) on the value itself")


def run(ctx) -> None:
    for name, fn in (("Q8", rule_Q8), ("Q7", rule_Q7), ("Q6", rule_Q6), ("Q1", rule_Q1), ("Q1b", rule_Q1b), ("Q2", rule_Q2), ("Q3", rule_Q3), ("Q4", rule_Q4), ("Q5", rule_Q5), ("K3", jsonrules.rule_K3), ("K3b", jsonrules.rule_K3b)):
        ctx.rules_run.append(name)
        fn(ctx)
    ctx.assume("declared range table: timedelta.days in +-999999999, .seconds in [0, 86400), .microseconds/.microsecond in [0, 10**6), nanos in +-(10**9 - 1)")
