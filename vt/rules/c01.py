"""C01 - binary round trip: codec dispatch tables agree (T1-T5)."""
from . import codec, presence

PROP = "C01"
TECHNIQUE = "finite-domain abstract interpretation of encoder/decoder dispatch over the 18 proto types; interval domain for sign capability"
EXPLANATION = (
    "Static table agreement: the encoder (_preprocess_single/_serialize_single/dump) and decoder (load_fields/load/_postprocess_single) "
    "are specialised for each of the 18 proto types x 4 wire types by a finite-domain abstract interpreter; the resulting dispatch "
    "summaries (transform class, wire type, struct format, packed-ness, map entry numbering, presence stores) must agree with each "
    "other and with the protobuf encoding tables. Decides the tables, not value-level inverse laws."
)
RULE_TEXT = "obligation = (rule, proto type or construct); evaluations = abstract paths enumerated; non-trivial = the type reaches a distinct dispatch branch"


def run(ctx) -> None:
    for name, fn in (("T1", codec.rule_T1), ("T2", codec.rule_T2), ("T2b", codec.rule_T2b), ("T3", codec.rule_T3), ("T4", codec.rule_T4), ("T5", codec.rule_T5), ("Z1", codec.rule_Z1), ("T6", codec.rule_T6), ("T7", codec.rule_T7), ("T8", codec.rule_T8)):
        ctx.rules_run.append(name)
        fn(ctx)
    from .c15 import rule_Q1, rule_Q1b, rule_Q2, rule_Q6
    ctx.rules_run += ["Q1", "Q1b", "Q2", "Q6"]
    rule_Q1(ctx)
    rule_Q1b(ctx)            # Timestamp / Duration fields round-trip only if the (seconds, nanos) split is exact
    rule_Q2(ctx)
    rule_Q6(ctx)            # every well-known-type / wrapper payload is decoded into a message of its own (parse() merges)
    from .c14 import rule_V10
    ctx.rules_run.append("V10")
    rule_V10(ctx)           # parse(bytes(m)) == m is judged by __eq__: by the values alone, NaN pairs tolerated wherever they sit
    from . import varint
    ctx.rules_run.append("N7")
    varint.rule_N7(ctx)     # the buffer reader used for packed elements / nested messages accepts what the writer emits (10-byte varints)
    ctx.rules_run.append("D2")
    presence.rule_D2(ctx)   # presence survives the round trip only if set members are emitted (selected oneof / optional / empty sub-message)
    ctx.floor("T1", "types", len([o for o in ctx.obs if o.rule == "T1"]), 17)
    ctx.floor("T2", "signed/unsigned varint types", len([o for o in ctx.obs if o.rule == "T2"]), 8)
    ctx.floor("T3", "types", len([o for o in ctx.obs if o.rule == "T3"]), 30)
    ctx.assume("zig-zag / two's-complement arithmetic is not inverted value-by-value; only its placement and range are decided")
