"""C11 - generated stub and server base agree (G1-G7)."""
from . import template
from .c12 import rule_G6

PROP = "C11"
TECHNIQUE = "template specialisation (partial evaluation of the Jinja AST over the 4 streaming combinations) -> residual Python ast; agreement checks against grpclib_client.py and grpclib's source tables"
EXPLANATION = (
    "Static agreement across the template/runtime boundary: the body template is partially evaluated for each of the four "
    "(client_streaming, server_streaming) combinations with abstract placeholders in its holes, the residual module is parsed with "
    "ast, and the Stub method, the Base default method, the __rpc adapter and the __mapping__ entry are compared with each other, with "
    "the helper signatures and Cardinality constants in grpclib_client.py, and with grpclib's Cardinality/Handler definitions read from "
    "its source. The kwarg-precedence function is summarised as a truth table over `arg is None`. Behaviour over a real channel is not decided."
)
RULE_TEXT = "obligation = (rule, streaming combination / helper / kwarg); evaluations = residual modules + abstract paths; non-trivial = distinct combinations"


def run(ctx) -> None:
    ctx.rules_run += ["G1", "G2", "G3", "G4", "G5", "G7", "G6", "G10"]
    template.rule_G(ctx)
    template.rule_Y2iii(ctx, "G8")     # a stub method body must be able to run: names it uses are imported
    rule_G6(ctx, "G6")
    from .c12 import rule_G12
    ctx.rules_run.append("G12")
    rule_G12(ctx)
    ctx.rules_run.append("G9")
    template.rule_G9(ctx)
    ctx.rules_run.append("G11")
    template.rule_G11(ctx)
    ctx.rules_run.append("G13")
    template.rule_G13(ctx)
    ctx.floor("G1", "cardinality obligations", len([o for o in ctx.obs if o.rule == "G1"]), 8)
