"""C17 - malformed or truncated input is rejected or isolated (M1-M5, N2, N5)."""
from . import codec, decode, varint

PROP = "C17"
TECHNIQUE = "E2 enumeration of the wire-type domain 0..7 and of (declared type x wire type); CFG must-pass-through for length checks, progress and EOF discipline"
EXPLANATION = (
    "Static decode-discipline check: the wire-type dispatch of load_fields/parse_fields is specialised for all 8 values of the 3-bit "
    "wire type; Message.load is specialised for 18 declared types x 4 incoming wire types; control-flow graphs of the readers are "
    "queried for length tests guarding every payload read (short branch must raise), for the field-number-0 test, for loop progress, "
    "and for where end-of-input may be treated as a clean end. Decides the structural necessary conditions for 'never mis-decoded'; "
    "UTF-8 errors and agreement with the reference decoder on arbitrary bytes are not decided."
)
RULE_TEXT = "obligation = (rule, reader, wire type / read site / type pair); evaluations = abstract paths + CFG queries; non-trivial = distinct sites"


def run(ctx) -> None:
    for name, fn in (("M1", decode.rule_M1), ("M2", decode.rule_M2), ("M2b", decode.rule_M2b), ("M3", decode.rule_M3), ("M3b", decode.rule_M3b),
                     ("M4", decode.rule_M4), ("M4b", decode.rule_M4b), ("M5", decode.rule_M5), ("N5", decode.rule_N5), ("N2", varint.rule_N2), ("N3", varint.rule_N3), ("N7", varint.rule_N7), ("M6", codec.rule_M6), ("M7", codec.rule_M7), ("T6", codec.rule_T6), ("U2b", decode.rule_U2b), ("M8", decode.rule_M8), ("U11", decode.rule_U11), ("M9", decode.rule_M9)):
        ctx.rules_run.append(name)
        fn(ctx)
    ctx.floor("M1", "reader x wire type", len([o for o in ctx.obs if o.rule == "M1"]), 16)
