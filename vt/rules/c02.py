"""C02 - wire interoperability with the reference implementation (W1-W4 + T2/T3)."""
from . import codec, presence, varint

PROP = "C02"
TECHNIQUE = "table conformance against the reference implementation's source text (ast extraction), E2 dispatch summaries, interval domain"
EXPLANATION = (
    "The reference implementation cannot be run by a static check; its source is read: FIELD_TYPE_TO_WIRE_TYPE, WIRETYPE_*, "
    "TAG_TYPE_BITS and the struct formats of google.protobuf's pure-python encoder are extracted with ast (never imported) and "
    "compared with betterproto's wire tables as summarised by the abstract interpreter for each of the 18 types. The decode-side "
    "merge logic of Message.load is summarised over its shape atoms and compared with the protobuf merge rules (append / extend / "
    "last-wins). Decides tables and merge shapes, not value-level agreement."
)
RULE_TEXT = "obligation = (rule, type / table entry / merge shape); evaluations = abstract paths; non-trivial = distinct table entries or shapes"


def run(ctx) -> None:
    for name, fn in (("W1", codec.rule_W1), ("W1-neg", _neg), ("W2", codec.rule_W2), ("W3", codec.rule_W3), ("W4", codec.rule_W4), ("T7", codec.rule_T7), ("N3", varint.rule_N3), ("N7", varint.rule_N7), ("N5", _n5),
                     ("Z1", codec.rule_Z1), ("T1", codec.rule_T1), ("T6", codec.rule_T6), ("T2", codec.rule_T2), ("T2b", codec.rule_T2b), ("T3", codec.rule_T3), ("T8", codec.rule_T8)):
        ctx.rules_run.append(name)
        fn(ctx)
    ctx.rules_run.append("D2")
    presence.rule_D2(ctx)   # the reference's HasField / WhichOneof sees a member only if dump emits it
    from .c15 import rule_Q1, rule_Q1b, rule_Q2, rule_Q6
    ctx.rules_run += ["Q1", "Q1b", "Q2", "Q6"]
    rule_Q1(ctx)
    rule_Q1b(ctx)            # the reference reads (seconds, nanos) of a Timestamp / Duration as written: the split has to be the canonical, exact one
    rule_Q2(ctx)
    rule_Q6(ctx)            # what the reference wrote is decoded value by value (parse() into a reused object merges values)
    ctx.floor("W1", "table entries", len([o for o in ctx.obs if o.rule == "W1"]), 30)
    ctx.assume("google.protobuf's pure-python tables describe the reference wire format (cross-checked with the embedded spec table)")


def _n5(ctx) -> None:
    from . import decode
    decode.rule_N5(ctx)


def _neg(ctx) -> None:
    """negative varints are widened modulo 2**64 (10 bytes) as the reference's signed varint encoder does"""
    from ..src import M_INIT
    mod = ctx.repo.mod(M_INIT)
    f = varint.varint_facts(ctx)
    loc = mod.loc(mod.func("dump_varint"))
    if f["dump_widen"] == [1 << 64]:
        ctx.proved("W1", "negative-varint-widening", loc, "value += 2**64 -> 10 bytes")
    elif not f["dump_widen"]:
        ctx.inconclusive("W1", "negative-varint-widening", "negative branch not recognised", loc)
    else:
        ctx.refuted("W1", "negative-varint-widening", f"widen={f['dump_widen']}", loc, f"negative values widened by {f['dump_widen']} instead of 2**64", "bytes(M(i=-1)) parsed by google.protobuf")
